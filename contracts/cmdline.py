"""Sidecar contract for pydra.compose.shell.task:ShellTask.cmdline (C24): every argument after the first is appended
after one blank, passed through shlex.quote exactly when it is empty or contains a character a POSIX shell would split
on or alter (blank, tab, newline, quotes, backslash), and verbatim otherwise.  With shlex's own laws
(shlex.split(shlex.quote(x)) == [x]; a token free of those characters splits to itself) this gives
shlex.split(cmdline)[1:] == argv[1:]; those laws are assumed, the bounded part of C24 exercises them."""
import z3

from pyvc.engine import is_z3
from pyvc.verify import Contract

SPECIAL = [" ", "\t", "\n", "'", '"', "\\"]


def _model_command_args(E, st, node, recv, args, kwargs):
    v = E.materialize(st, E.fresh_kind(("Seq", "Str"), "cmd_args"))
    ln = E.length_of(v) if hasattr(E, "length_of") else None
    return [(st, v, None)]


def contract():
    def quoted_iff_needed(E, st, events):
        # the argument of this iteration and the accumulator, whatever the locals are called: the loop element, and the
        # one string-valued local the body changed
        entry = st.ghost["_iter_entry_env"]
        arg = st.ghost["_iter_elem"]
        changed = [n for n, v in st.env.items() if n in entry and is_z3(v) and is_z3(entry[n]) and v.sort() == z3.StringSort() and not v.eq(entry[n])]
        if len(changed) != 1 or not is_z3(arg):
            return False
        old, new = entry[changed[0]], st.env[changed[0]]
        needs = z3.Or(arg == z3.StringVal(""), *[z3.Contains(arg, z3.StringVal(c)) for c in SPECIAL])
        q = [e for e in events if e.name == "shlex.quote" and not e.raised]
        if len(q) > 1:
            return False
        blank = z3.StringVal(" ")
        if q:
            ret = E.to_str(st, q[0].ret)
            same_arg = is_z3(q[0].args[0]) and q[0].args[0].eq(arg)
            return z3.And(needs, new == z3.Concat(old, blank, ret), z3.BoolVal(bool(same_arg)))
        return z3.And(z3.Not(needs), new == z3.Concat(old, blank, arg))

    return Contract(
        file="pydra/compose/shell/task.py",
        qualname="ShellTask.cmdline",
        params={"self": "U"},
        default_effects=True,
        callees={
            "self._command_args": {"kind": "model", "model": _model_command_args},
            "shlex.quote": {"kind": "effect", "may_raise": False, "returns": "Str"},
        },
        loops={"cmd_args[1:]": {"invariants": [], "iteration_ensures": [("argument-appended-quoted-iff-empty-or-special", "property:C24", quoted_iff_needed)]}},
        seq_kinds={"cmd_args": "Str"},
        min_paths=2,
        trusted=["shlex.split(shlex.quote(x)) == [x]; a token without blank/tab/newline/quote/backslash splits to itself (exercised by the bounded part)", "_command_args returns the executed argument vector as a list of strings (C22/C23)"],
    )
