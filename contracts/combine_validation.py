"""Sidecar contract for pydra.compose.base.task:Task.combine (C05 / C02).  On every path of the real function: a normal return
implies (i) there was no combiner yet or overwrite was requested, (ii) the set of the combiner's own (non-upstream) field
names minus the task's field names is empty (unknown combiner fields are rejected here, before anything runs), (iii) the
task returned is a COPY of self whose `_combiner` is the combiner that was given (a single name wrapped in a list), and self
itself is not written."""
import z3

from pyvc.engine import Ref, Unsupported, eq, is_z3, to_U, truthy_U, z3_and, z3_not
from pyvc.verify import Contract


def contract(role):
    def accepted_only_if_known_fields_and_stored_on_a_copy(E, st, out):
        tr = [e for e in st.trace if not e.raised]
        entry = st.env["__entry__"] if "__entry__" in st.env else st.env
        self_, given = to_U(entry["self"]), entry["combiner"]
        copies = [e for e in tr if e.name == "copy"]
        sets = [e for e in tr if e.name == "set"]
        stores = [e for e in tr if e.name == "setattr"]
        if not copies and any(is_z3(e.args[0]) and to_U(e.args[0]).eq(self_) for e in stores):
            return False  # the combiner is written on self: the task the caller still holds is modified
        if len(copies) != 1 or len(sets) != 2 or len(stores) != 1:
            raise Unsupported(f"Task.combine: effects {[e.name for e in tr]} (contract out of date)")
        own, fields = sets
        if not (is_z3(fields.args[0]) and to_U(fields.args[0]).eq(self_)):
            raise Unsupported("Task.combine: the task's field names are no longer taken as set(self) (contract out of date)")
        unknown = E.eval_spec_value("a - b", st, {"a": own.ret, "b": fields.ret})
        stored = stores[0].args[2]
        if isinstance(stored, Ref):
            # `[combiner]`: a one-element list holding the given name
            seq = st.heap[stored.n].seq
            stored_ok = z3_and(seq.items is not None and len(seq.items) == 1 and eq(seq.items[0], given), E.eval_spec("isinstance(c, str)", st, {"c": given}))
        else:
            stored_ok = eq(stored, given)
        had = E.eval_spec("bool(self._combiner)", st, {})
        over = E.eval_spec("bool(overwrite)", st, {})
        return z3_and(
            z3.Or(z3_not(had), over) if (is_z3(had) or is_z3(over)) else ((not had) or over),
            z3_not(E.truthy(st, unknown)),
            to_U(copies[0].args[0]) == self_,
            to_U(out.val) == to_U(copies[0].ret),
            to_U(stores[0].args[0]) == to_U(copies[0].ret),  # written on the copy, never on self
            stores[0].args[1] == "_combiner",
            stored_ok,
        )

    return Contract(
        file="pydra/compose/base/task.py",
        qualname="Task.combine",
        params={"self": "U", "combiner": "U", "overwrite": "U"},
        default_effects=True,
        callees={"copy": {"kind": "effect", "may_raise": False}},
        attrs={"_combiner": {"kind": "U"}},
        ensures=[("accepted-only-with-known-fields-and-stored-on-a-copy", role, accepted_only_if_known_fields_and_stored_on_a_copy)],
        min_paths=4,
        trusted=[
            "set(), set difference and truthiness of a set are uninterpreted: the clause holds for every interpretation",
            "copy(self) returns a new task with the same field values (shallow)",
            "set(self) enumerates the task's field names (Task.__iter__)",
        ],
    )
