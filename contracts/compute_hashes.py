"""Sidecar contract for pydra.compose.base.task:Task._compute_hashes (C06): which field values reach the cache identity.

Per iteration of the loop over `get_fields(self)` (an arbitrary field of an arbitrary task class): the field's CURRENT
value `getattr(self, field.name)` is entered, under the field's own name, into the dict that is hashed afterwards -- unless
the field is an output field, is unset (attrs.NOTHING) or is a container-path field.  No other reason to leave a value out
of the identity is admitted, and nothing but the field's own current value is entered for it.  After the loop the Outputs
class is entered, and the digest that is returned is `hash_function(sorted(<per-field digests>.items()))` where the per-field
digest dict is built from `.items()` of that same dict and is also the second component of the result."""
import z3

from pyvc.engine import NOTHING_U, U, Unsupported, eq, is_z3, to_U, z3_and
from pyvc.verify import Contract

SKIP_REASONS = "isinstance(_f, Out) or getattr(self, _f.name) is attrs.NOTHING or bool(getattr(_f, 'container_path', False))"


def contract():
    def value_enters_identity_unless_exempt(E, st, events):
        fld = st.ghost["_iter_elem"]
        stores = [e for e in events if e.name == "setitem"]
        others = [e for e in events if e.name not in ("setitem",)]
        if others:
            # an effectful call inside the loop (none on the pinned tree): the contract has to be revisited -> UNDECIDED
            raise Unsupported(f"_compute_hashes loop body has new effects {[e.name for e in others]} (contract out of date)")
        if not stores:
            return E.eval_spec(SKIP_REASONS, st, {"_f": fld})
        if len(stores) != 1:
            return False
        _, key, val = stores[0].args
        want_key = E.eval_spec_value("_f.name", st, {"_f": fld})
        want_val = E.eval_spec_value("getattr(self, _f.name)", st, {"_f": fld})
        if not (is_z3(key) and is_z3(val)):
            return False
        exempt = E.eval_spec(SKIP_REASONS, st, {"_f": fld})
        return z3_and(to_U(key) == to_U(want_key), to_U(val) == to_U(want_val), z3.Not(exempt) if is_z3(exempt) else (not exempt))

    def outputs_class_and_digest_chain(E, st, out):
        tr = st.trace
        stores = [e for e in tr if e.name == "setitem"]
        if not stores:
            return False
        acc = stores[-1].args[0]
        outs = [e for e in stores if e.args[1] == "Outputs"]
        if len(outs) != 1:
            return False
        self_ = st.env["__entry__"]["self"]
        outputs_cls = E.eval_spec_value("self.Outputs", st, {})
        items = [e for e in tr if e.name.endswith(".items")]
        hashes = [e for e in tr if e.name == "hash_function"]
        srt = [e for e in tr if e.name == "sorted"]
        if len(items) != 2 or len(hashes) != 1 or len(srt) != 1 or not isinstance(out.val, tuple) or len(out.val) != 2:
            return False
        digest, per_field = out.val
        return z3_and(
            to_U(outs[0].args[0]) == to_U(acc),
            to_U(outs[0].args[2]) == to_U(outputs_cls),
            to_U(items[0].args[0]) == to_U(acc),  # the per-field digests are built from .items() of the filled dict
            to_U(items[1].args[0]) == to_U(per_field),  # ... the digest covers .items() of the per-field digest dict
            to_U(srt[0].args[0]) == to_U(items[1].ret),
            to_U(hashes[0].args[0]) == to_U(srt[0].ret),
            to_U(digest) == to_U(hashes[0].ret),
        )

    return Contract(
        file="pydra/compose/base/task.py",
        qualname="Task._compute_hashes",
        params={"self": "U"},
        default_effects=True,
        callees={
            "get_fields": {"kind": "pure", "name": "get_fields"},
            "isinstance": {"kind": "pure", "name": "isinstance", "returns": "Bool"},
        },
        attrs={"name": {"kind": "U"}, "Outputs": {"kind": "U"}},
        globals_={"attrs.NOTHING": NOTHING_U},
        loops={
            "get_fields(self)": {
                "invariants": [],
                "iteration_ensures": [("field-value-enters-the-identity-unless-output-unset-or-container-path", "property:C06", value_enters_identity_unless_exempt)],
            }
        },
        ensures=[("outputs-class-entered-and-digest-covers-the-per-field-digests", "property:C06", outputs_class_and_digest_chain)],
        min_paths=2,
        trusted=[
            "getattr(obj, name[, default]) is a pure read (no __getattr__ side effects on task / field objects)",
            "the dict comprehension `{k: hash_function(v, ...) for k, v in inp_dict.items()}` is NOT interpreted (opaque value): that it maps every "
            "key to the digest of its value is covered only by the bounded C06/C07 domains",
            "hash_function itself (injectivity up to the known findings) is the bounded part of C06/C08",
        ],
    )
