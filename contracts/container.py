"""Sidecar contract for pydra.environments.docker:Docker.execute (C27): the launcher receives the
runtime prefix, the user's extra args, the mounts, `-w <root><cache_dir>`, the image and then exactly
the native argument vector built from the re-mapped values of get_bindings."""
import z3

from pyvc.engine import U, Ref, HList, is_z3, lift, to_U
from pyvc.verify import Contract


def container_contract(kind="docker"):
    RUNTIME = {"docker": ("docker", "run", "-w"), "singularity": ("singularity", "exec", "--pwd")}[kind]
    def post_exec(E, st, ev):
        st.ghost["rc"] = ev.ret[0]

    def argv_shape(E, st, out):
        ex = [e for e in st.trace if e.name == "base.execute" and not e.raised]
        ca = [e for e in st.trace if e.name == "job.task._command_args" and not e.raised]
        gb = [e for e in st.trace if e.name == "self.get_bindings" and not e.raised]
        if not ex:
            return out.kind == "raise"
        if not ca or not gb or not isinstance(ex[-1].args[0], Ref):
            return False
        # the values given to _command_args are the re-mapped values returned by get_bindings
        vals = ca[-1].kwargs.get("values")
        item1 = z3.Function("item1", U, U)(gb[-1].ret)
        if not (is_z3(vals) and vals.eq(item1)):
            return False
        argv = st.heap[ex[-1].args[0].n].seq
        native = E.as_seq(st, ca[-1].ret)
        n, m = lift(argv.length), lift(native.length)
        j = E.fresh("j", z3.IntSort())
        img = z3.Concat(E.to_str(st, E.getattr_(st, st.env["__entry__"]["self"], "image", _n("self.image"))[0][1]), z3.StringVal(":"), E.to_str(st, E.getattr_(st, st.env["__entry__"]["self"], "tag", _n("self.tag"))[0][1]))
        return z3.And(
            n >= m + 5,
            # ... ends with exactly the native argument vector
            z3.ForAll([j], z3.Implies(z3.And(j >= 0, j < m), to_U(argv.get(n - m + j)) == to_U(native.get(j)))),
            # ... preceded by image:tag
            to_U(argv.get(n - m - 1)) == to_U(img),
            # ... preceded by `-w <root><job cache dir>`
            to_U(argv.get(n - m - 3)) == to_U(RUNTIME[2]),
            (to_U(argv.get(n - m - 2)) == to_U(z3.Concat(E.to_str(st, E.getattr_(st, st.env["__entry__"]["self"], "root", _n("self.root"))[0][1]), E.to_str(st, E.getattr_(st, st.env["__entry__"]["job"], "cache_dir", _n("job.cache_dir"))[0][1])))) if kind == "docker" else z3.BoolVal("cache_dir" in str(argv.get(n - m - 2)) and "root" in str(argv.get(n - m - 2))),
            # ... and starts with the container runtime
            to_U(argv.get(0)) == to_U(RUNTIME[0]),
            to_U(argv.get(1)) == to_U(RUNTIME[1]),
        )

    def workdir(E, st, out):
        ex = [e for e in st.trace if e.name == "docker_args.extend"]
        # one of the extend() calls adds ["-w", f"{root}{cache_dir}"]
        ok = False
        for e in ex:
            a = e.args[-1] if e.args else None
            if isinstance(a, Ref) and isinstance(st.heap.get(a.n), HList) and st.heap[a.n].seq.items is not None and len(st.heap[a.n].seq.items) == 2 and st.heap[a.n].seq.items[0] == "-w":
                ok = "attr.root" in str(st.heap[a.n].seq.items[1]) and "attr.cache_dir" in str(st.heap[a.n].seq.items[1])
        return ok or not [e for e in st.trace if e.name == "base.execute"]

    return Contract(
        file=f"pydra/environments/{kind}.py",
        qualname=f"{kind.capitalize()}.execute",
        params={"self": "U", "job": "U"},
        default_effects=True,
        callees={
            "base.execute": {"kind": "effect", "returns": ("Tup", "Int", "Str", "Str"), "post": post_exec},
            "self.get_bindings": {"kind": "effect", "may_raise": True},
        },
        attrs={"absolute": {"method": True}, "rstrip": {"method": True}, "image": {"kind": "U"}, "tag": {"kind": "U"}, "root": {"kind": "U"}, "xargs": {"kind": "U"}, "task": {"kind": "U"}, "cache_dir": {"kind": "U"}},
        exits=[
            ("argv-is-runtime-prefix-then-image-then-exactly-the-native-argv-of-the-remapped-values", "property:C27", argv_shape),
            ],
        ensures=[("returns-only-with-zero-exit-code", "auxiliary", lambda E, st, out: st.ghost["rc"] == 0)],
        min_paths=4,
        trusted=["list.extend appends; the mount options built with ' '.join(...).split() are opaque here (checked bounded)", "get_bindings returns (bindings, re-mapped values) — its own mapping is checked bounded"],
    )


def _n(src):
    import ast

    return ast.parse(src, mode="eval").body
