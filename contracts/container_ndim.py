"""Sidecar contract for pydra.engine.state:State.container_ndim_all (C04): the container dimension that decides at which depth
a split field is taken apart.  On every path: the result is a deep COPY of the user's `container_ndim` (the user's dict is not
written); per entry (k, v) of `_inner_container_ndim` (an arbitrary one) exactly one entry is written, under that same key k,
with the value `<what the copy held for k, default 1> + v`; nothing else is written."""
import z3

from pyvc.engine import U, Unsupported, is_z3, to_U, z3_and
from pyvc.verify import Contract


def contract():
    def own_key_gets_user_dimension_plus_inner(E, st, events):
        evs = [e for e in events if not e.raised]
        if [e.name.rsplit(".", 1)[-1] for e in evs] != ["get", "setitem"]:
            raise Unsupported(f"State.container_ndim_all: loop effects {[e.name for e in evs]} (contract out of date)")
        get, store = evs
        elem = to_U(st.ghost["_iter_elem"])
        k = z3.Function("item0", U, U)(elem)
        v = z3.Function("item1", U, U)(elem)
        copy = [e for e in st.trace if e.name == "deepcopy" and not e.raised]
        if len(copy) != 1 or len(get.args) != 3:
            raise Unsupported("State.container_ndim_all: no single deepcopy / get(k, default) (contract out of date)")
        want = E.eval_spec_value("a + b", st, {"a": get.ret, "b": v})
        return z3_and(
            to_U(get.args[0]) == to_U(copy[0].ret),  # read from and written to the copy, never the user's dict
            to_U(store.args[0]) == to_U(copy[0].ret),
            to_U(get.args[1]) == k,
            get.args[2] == 1,  # a field without a user-given dimension counts as dimension 1
            to_U(store.args[1]) == k,
            to_U(store.args[2]) == to_U(want),
        )

    def result_is_the_copy_of_the_users_dict(E, st, out):
        tr = [e for e in st.trace if not e.raised]
        copy = [e for e in tr if e.name == "deepcopy"]
        if len(copy) != 1:
            raise Unsupported("State.container_ndim_all: no single deepcopy (contract out of date)")
        users = E.eval_spec_value("self.container_ndim", st, {})
        return z3_and(to_U(copy[0].args[0]) == to_U(users), to_U(out.val) == to_U(copy[0].ret))

    return Contract(
        file="pydra/engine/state.py",
        qualname="State.container_ndim_all",
        params={"self": "U"},
        default_effects=True,
        callees={"deepcopy": {"kind": "effect", "may_raise": False}},
        attrs={"container_ndim": {"kind": "U"}, "_inner_container_ndim": {"kind": "U"}},
        loops={0: {"invariants": [], "iteration_ensures": [("own-key-gets-user-dimension-plus-inner-dimension", "property:C04", own_key_gets_user_dimension_plus_inner)]}},
        ensures=[("result-is-a-deep-copy-of-the-users-container-ndim", "property:C04", result_is_the_copy_of_the_users_dict)],
        min_paths=1,
        trusted=[
            "deepcopy returns a new, equal dict; dict.get / item assignment have their usual meaning; `+` on the two dimensions is integer addition (uninterpreted here)",
            "how the dimension is USED (input_shape, flatten, map_splits: which elements become jobs) is the bounded part of C04; input_shape needs symbolic tuples and sequence equality, which pyvc does not have",
        ],
    )
