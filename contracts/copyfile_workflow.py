"""Sidecar contract for pydra.engine.result:copyfile_workflow (C33): whenever an output field of a workflow result is
passed through copy_nested_files, the destination is the workflow directory, the mode is hardlink_or_copy (never one that
may leave the file where it is) and what the call returns is what that field holds afterwards; a field that is not passed
through it is not written.  WHICH fields hold files (and so must be collected) is not decidable here: that every file is
collected is the bounded part of C33."""
import z3

from pyvc.engine import is_z3, to_U
from pyvc.verify import Contract


def contract():
    def collected_into_the_workflow_directory(E, st, events):
        calls = [e for e in events if e.name == "copy_nested_files"]
        sets_ = [x for x in events if x.name == "setattr" and not x.raised]
        if not calls:
            return not sets_  # a field left alone (e.g. a plain value skipped by a guard) is not rewritten
        if len(calls) != 1 or calls[0].raised:
            return False
        e = calls[0]
        args = list(e.args)
        dest = args[1] if len(args) > 1 else e.kwargs.get("dest_dir")
        if dest is None or not is_z3(dest):
            return False
        wf_path = st.env["__entry__"]["wf_path"] if "__entry__" in st.env else st.env["wf_path"]
        # the value handed over is the field's current value, the value stored back is the call's result
        sets = [x for x in events if x.name == "setattr" and not x.raised]
        if len(sets) != 1:
            return False
        s = sets[0]
        stored_ok = is_z3(s.args[2]) and is_z3(e.ret) and s.args[2].eq(e.ret) and is_z3(s.args[0]) and s.args[0].eq(to_U(st.env["outputs"]))
        mode_ok = "hardlink_or_copy" in str(e.kwargs.get("mode"))  # never a mode that could leave the file where it is
        return z3.And(to_U(dest) == to_U(wf_path), z3.BoolVal(bool(stored_ok and mode_ok)))

    return Contract(
        file="pydra/engine/result.py",
        qualname="copyfile_workflow",
        params={"wf_path": "U", "outputs": "U"},
        default_effects=True,
        callees={
            "attrs_fields": {"kind": "pure", "name": "attrs_fields"},
            "getattr": {"kind": "pure", "name": "getattr"},
            "set": {"kind": "effect", "may_raise": False},
        },
        attrs={"name": {"kind": "U"}},
        loops={"attrs_fields(outputs)": {"invariants": [], "iteration_ensures": [("collected-fields-go-into-the-workflow-directory-and-are-stored-back", "property:C33", collected_into_the_workflow_directory)]}},
        min_paths=2,
        trusted=["copy_nested_files copies/links every file-set found in the value into dest_dir (its own behaviour is the bounded part of C33)"],
    )
