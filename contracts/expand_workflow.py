"""Sidecar contract for pydra.engine.submitter:Submitter.expand_workflow (C17), the sequential scheduler used by the debug
worker.  On every path: (per iteration of the inner loop, an arbitrary job of an arbitrary batch returned by
get_runnable_tasks) the job is handed to the worker exactly once, with the rerun flag the execution graph was built with,
and only then marked as no longer awaiting a rerun; (on normal return) no runnable job is left and every node of the
execution graph is done -- whatever order get_runnable_tasks released the jobs in.  That the OUTPUTS are the same as under
the process-pool scheduler is the bounded part of C17."""
import z3

from pyvc.engine import Unsupported, eq, is_z3, to_U, z3_and
from pyvc.verify import Contract


def contract():
    def released_job_run_exactly_once(E, st, events):
        evs = [e for e in events if not e.raised]
        runs = [e for e in evs if e.name.endswith("worker.run")]
        if len(runs) != 1:
            return False  # a released job is skipped or run twice
        job = to_U(st.ghost["_iter_elem"])
        r = runs[0]
        graph = [e for e in st.trace if e.name.endswith("execution_graph") and not e.raised]
        if len(graph) != 1 or "rerun" not in r.kwargs or "rerun" not in graph[0].kwargs:
            raise Unsupported("expand_workflow: rerun no longer passed by keyword to execution_graph / worker.run (contract out of date)")
        marks = [e for e in evs if e.name == "setattr" and e.args[1] == "_awaiting_rerun"]
        ok = [to_U(r.args[-1]) == job, eq(r.kwargs["rerun"], graph[0].kwargs["rerun"])]
        for m in marks:
            # the mark is put on the job that was just run, after the run
            ok.append(to_U(m.args[0]) == job)
            ok.append(evs.index(m) > evs.index(r))
        return z3_and(*ok)

    return Contract(
        file="pydra/engine/submitter.py",
        qualname="Submitter.expand_workflow",
        params={"self": "U", "wf_job": "U", "rerun": "U"},
        default_effects=True,
        attrs={"propagate_rerun": {"kind": "U"}, "worker": {"kind": "U"}, "task": {"kind": "U"}, "nodes": {"kind": "U"}, "done": {"kind": "U"}},
        seq_kinds={"tasks": "U"},
        loops={0: {"invariants": []}, 1: {"invariants": [], "iteration_ensures": [("released-job-handed-to-the-worker-exactly-once", "property:C17", released_job_run_exactly_once)]}},
        ensures=[("returns-only-when-nothing-is-runnable-and-every-node-is-done", "property:C17", "not tasks and not any(not n.done for n in exec_graph.nodes)")],
        min_paths=2,
        trusted=[
            "node.done is a side-effect-free read",
            "Submitter.get_runnable_tasks (C14-C16 contracts) and Worker.run are opaque callees here",
            "termination of the while loop is not claimed (a workflow whose nodes never become done loops; C14 covers stuck detection in the async scheduler)",
        ],
    )
