"""Dependency obligations on the persistent-cache keys of file hashes (C07, C09), checked on the ast of
the real functions (syntactic, like contracts/sorted_sites.py):

bytes_repr_fileset: the CacheKey must depend on EVERY file of the file-set individually: a tuple of the
  paths and a tuple of the per-file mtimes, both element-wise over the same `fspaths`, not aggregated
  (max/min/sum/any of the mtimes would let an older member change unnoticed).
hash_single: the key handed to the persistent store must contain the object's class (module and name)
  in addition to the serializer's key, so that two classes wrapping the same path never share an entry.
"""
import ast

from pyvc.extract import parse_file

FILE = "pydra/utils/hash.py"


def _func(tree, name):
    return next(n for n in ast.walk(tree) if isinstance(n, ast.FunctionDef) and n.name == name)


def _elementwise_tuples(expr):
    """tuple(<genexpr over X>) operands of a +-chain -> list of (iter source text, element text)"""
    out, bad = [], []

    def walk(e):
        if isinstance(e, ast.BinOp) and isinstance(e.op, ast.Add):
            walk(e.left)
            walk(e.right)
        elif isinstance(e, ast.Call) and isinstance(e.func, ast.Name) and e.func.id == "tuple" and e.args and isinstance(e.args[0], ast.GeneratorExp) and not e.args[0].generators[0].ifs:
            g = e.args[0]
            out.append((ast.unparse(g.generators[0].iter), ast.unparse(g.elt)))
        else:
            bad.append(ast.unparse(e))

    walk(expr)
    return out, bad


def obligations():
    src, tree = parse_file(FILE)
    obs = []
    # --- bytes_repr_fileset
    f = _func(tree, "bytes_repr_fileset")
    keys = [n for n in ast.walk(f) if isinstance(n, ast.Call) and isinstance(n.func, ast.Name) and n.func.id == "CacheKey"]
    ok_paths = ok_mtimes = False
    detail = "no CacheKey(...) call found"
    if keys and keys[0].args:
        parts, bad = _elementwise_tuples(keys[0].args[0])
        detail = f"CacheKey({ast.unparse(keys[0].args[0])})"
        ok_paths = any(it == "fspaths" and "repr(p)" in el.replace(" ", "") or (it == "fspaths" and el.strip() == "p") for it, el in parts)
        ok_mtimes = any(it == "fspaths" and "st_mtime_ns" in el for it, el in parts) and not bad
    obs.append(("bytes_repr_fileset.key-depends-on-every-path", "C09", ok_paths, detail))
    obs.append(("bytes_repr_fileset.key-depends-on-every-files-mtime-individually", "C09", ok_mtimes, detail))
    # --- hash_single
    h = _func(tree, "hash_single")
    assigns = [n for n in ast.walk(h) if isinstance(n, ast.Assign) and any(isinstance(t, ast.Name) and t.id == "key" for t in n.targets)]
    txt = ast.unparse(assigns[0].value) if assigns else ""
    ok_cls = "__module__" in txt and "__name__" in txt and "first" in txt
    obs.append(("hash_single.persistent-key-contains-the-class-and-the-serializer-key", "C07", ok_cls, f"key = {txt}"))
    return obs
