"""Frame conditions for C11 ("new results are written only under the cache root; read-only caches are
never modified"): every path handed to a writing callee by Job._populate_filesystem, result.save and
result.record_error is the directory the caller passed in (or a sibling lock file of it)."""
import z3

from pyvc.engine import is_z3
from pyvc.verify import Contract

WRITERS = ("open", "shutil.rmtree", ".mkdir", ".open", ".unlink", "save", "cp.dump", "json.dump", "SoftFileLock")


def _under(term, roots):
    s = "".join(str(term).split())
    return any(r in s for r in roots)


def populate_contract():
    def frame(E, st, out):
        ok = True
        for e in st.trace:
            tgt = None
            if e.name == "open" and e.args:
                tgt = e.args[0]
            elif e.name == "shutil.rmtree" and e.args:
                tgt = e.args[0]
            elif e.name == "save" and e.args:
                tgt = e.args[0]
            elif e.name.endswith(".mkdir") or e.name.endswith(".exists"):
                tgt = e.args[0] if e.args else None
            if tgt is not None:
                ok = ok and _under(tgt, ("attr.cache_root:U(self", "attr.cache_dir:U(self"))
        return ok

    return Contract(
        file="pydra/engine/job.py",
        qualname="Job._populate_filesystem",
        params={"self": "U"},
        default_effects=True,
        attrs={"cache_root": {"kind": "U"}, "cache_dir": {"kind": "U"}, "uid": {"kind": "U"}, "checksum": {"kind": "U"}, "can_resume": {"kind": "U"}},
        exits=[("writes-only-below-cache_root-or-cache_dir", "property:C11", frame)],
        min_paths=3,
    )


def save_contract():
    def frame(E, st, out):
        ok = True
        for e in st.trace:
            tgt = None
            if e.name.endswith(".open") or e.name.endswith(".mkdir"):
                tgt = e.args[0] if e.args else None
            elif e.name == "SoftFileLock" and e.args:
                tgt = e.args[0]
            elif e.name == "copyfile_workflow":
                tgt = e.kwargs.get("wf_path")
            if tgt is not None:
                # task_path/<file>, task_path itself, or the sibling lock task_path.parent/<name>_save.lock
                ok = ok and _under(tgt, ("task_path",))
        return ok

    return Contract(
        file="pydra/engine/result.py",
        qualname="save",
        params={"task_path": "U", "result": "U", "job": "U", "return_values": "U", "name_prefix": "U"},
        default_effects=True,
        callees={"isinstance": {"kind": "pure", "name": "isinstance", "returns": "Bool"}, "Path": {"kind": "pure", "name": "PathOf"}, "SoftFileLock": {"kind": "effect", "may_raise": False}, "is_workflow": {"kind": "pure", "name": "is_workflow", "returns": "Bool"}},
        attrs={"parent": {"kind": "U"}, "name": {"kind": "U"}, "task": {"kind": "U"}, "outputs": {"kind": "U"}},
        exits=[("writes-only-below-task_path-or-its-sibling-lock", "property:C11", frame)],
        min_paths=4,
        trusted=["after `task_path = Path(task_path)` the name task_path still denotes the directory passed in"],
    )


def record_error_contract():
    def frame(E, st, out):
        ok = True
        for e in st.trace:
            if e.name.endswith(".open") and e.args:
                ok = ok and _under(e.args[0], ("error_path",))
        return ok

    return Contract(
        file="pydra/engine/result.py",
        qualname="record_error",
        params={"error_path": "U", "error": "U"},
        default_effects=True,
        attrs={"name": {"kind": "U"}},
        exits=[("writes-only-below-error_path", "property:C11", frame)],
        min_paths=3,
    )
