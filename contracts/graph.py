"""Sidecar contracts for pydra.engine.graph:DiGraph._sorting / DiGraph.sorting (C18, C37)."""
import z3

from pyvc.engine import U, SeqV, HList, Ref, lift, to_U
from pyvc.verify import Contract

FILE = "pydra/engine/graph.py"

# predecessors: name -> list of nodes.  Only emptiness matters for _sorting:
has_preds = z3.Function("has_preds", U, U, z3.BoolSort())  # (predecessors dict, node name)


def _getitem_preds(E, st, node, recv, args, kwargs):
    raise NotImplementedError


def sorting_round_contract():
    """_sorting(notsorted_list, predecessors): stable partition of the input by 'has no predecessor left'"""

    def setup(E, st):
        # predecessors[name] is read-only here and only its truthiness is used
        st.ghost["preds"] = st.env["predecessors"]

    return Contract(
        file=FILE,
        qualname="DiGraph._sorting",
        params={"self": "U", "notsorted_list": ("Seq", "U"), "predecessors": "U"},
        setup=setup,
        attrs={"name": {"kind": "U"}, "__getitem__:predecessors": {"pure": True}},
        loops={
            0: {
                "invariants": [
                    ("lengths-add-up", "len(sorted_part) + len(remaining_nodes) == _k"),
                    ("sorted-part-has-no-predecessors", "forall(lambda i: not predecessors[sorted_part[i].name], 0, len(sorted_part))"),
                    ("remaining-have-predecessors", "forall(lambda i: bool(predecessors[remaining_nodes[i].name]), 0, len(remaining_nodes))"),
                    ("sorted-part-from-input", "forall(lambda i: exists(lambda j: sorted_part[i] == notsorted_list[j], 0, _k), 0, len(sorted_part))"),
                    ("remaining-from-input", "forall(lambda i: exists(lambda j: remaining_nodes[i] == notsorted_list[j], 0, _k), 0, len(remaining_nodes))"),
                    ("every-ready-input-in-sorted-part", "forall(lambda j: implies(not predecessors[notsorted_list[j].name], exists(lambda i: sorted_part[i] == notsorted_list[j], 0, len(sorted_part))), 0, _k)"),
                    ("every-waiting-input-in-remaining", "forall(lambda j: implies(bool(predecessors[notsorted_list[j].name]), exists(lambda i: remaining_nodes[i] == notsorted_list[j], 0, len(remaining_nodes))), 0, _k)"),
                ]
            }
        },
        seq_kinds={"sorted_part": "U", "remaining_nodes": "U"},
        ensures=[
            ("partition-sizes", "property:C37", "len(result[0]) + len(result[1]) == len(notsorted_list)"),
            ("ready-nodes-have-no-unsorted-predecessor", "property:C37", "forall(lambda i: not predecessors[result[0][i].name], 0, len(result[0]))"),
            ("deferred-nodes-have-a-predecessor-left", "property:C37", "forall(lambda i: bool(predecessors[result[1][i].name]), 0, len(result[1]))"),
            ("nothing-invented", "property:C37", "forall(lambda i: exists(lambda j: result[0][i] == notsorted_list[j], 0, len(notsorted_list)), 0, len(result[0])) and forall(lambda i: exists(lambda j: result[1][i] == notsorted_list[j], 0, len(notsorted_list)), 0, len(result[1]))"),
            ("every-ready-node-is-released", "property:C37", "forall(lambda j: implies(not predecessors[notsorted_list[j].name], exists(lambda i: result[0][i] == notsorted_list[j], 0, len(result[0]))), 0, len(notsorted_list))"),
            ("every-waiting-node-is-kept", "property:C37", "forall(lambda j: implies(bool(predecessors[notsorted_list[j].name]), exists(lambda i: result[1][i] == notsorted_list[j], 0, len(result[1]))), 0, len(notsorted_list))"),
        ],
        allow_raise=False,
        trusted=["predecessors[name] is a pure read (dict lookup of an existing key)"],
    )


def _sorting_model(E, st, node, recv, args, kwargs):
    """callee contract of DiGraph._sorting as proved above: returns (A, B) with len A + len B == len input"""
    inp = E.as_seq(st, args[0])
    a = E.materialize(st, E.fresh_kind(("Seq", "U"), "sorted_part"))
    b = E.materialize(st, E.fresh_kind(("Seq", "U"), "remaining"))
    st.pc.append(lift(st.heap[a.n].seq.length) + lift(st.heap[b.n].seq.length) == lift(inp.length))
    return [(st, (a, b), None)]


def sorting_contract(role):
    return Contract(
        file=FILE,
        qualname="DiGraph.sorting",
        params={"self": "U", "presorted": "U"},
        default_effects=True,
        callees={
            "self._sorting": {"kind": "model", "model": _sorting_model},
            "copy": {"kind": "model", "model": _copy_model},
        },
        attrs={"name": {"kind": "U"}, "nodes": {"kind": "U"}, "predecessors": {"kind": "U"}, "successors": {"kind": "U"}, "_node_wip": {"kind": "U"}},
        loops={
            0: {"invariants": []},
            1: {"invariants": []},
            2: {"invariants": [], "decreases": "len(notsorted_nodes)", "decreases_role": role},
            3: {"invariants": []},
            4: {"invariants": []},
        },
        seq_kinds={"notsorted_nodes": "U", "sorted_part": "U"},
        trusted=[
            "callee contract DiGraph._sorting (verified separately): len(sorted_part) + len(remaining) == len(input)",
            "copy(list) returns a list of the same length",
            "iteration over self.successors[...] / self._node_wip terminates (finite lists)",
        ],
        min_paths=2,
    )


def _copy_model(E, st, node, recv, args, kwargs):
    """copy(x): a fresh list of nodes of unknown content (only its length matters for termination)"""
    v = E.materialize(st, E.fresh_kind(("Seq", "U"), "copy"))
    return [(st, v, None)]


def sorting_round_contract_sizes():
    """the part of _sorting's contract that sorting's termination argument uses"""
    c = sorting_round_contract()
    c.ensures = [(n, "auxiliary", t) for n, r, t in c.ensures if n == "partition-sizes"]
    c.loops = {0: {"invariants": [i for i in c.loops[0]["invariants"] if i[0] == "lengths-add-up"]}}
    return c
