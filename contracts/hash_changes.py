"""Sidecar contracts for C19: Job._check_for_hash_changes reports every detected change by raising;
Job.checksum is fixed at its first evaluation (the identity of the original inputs)."""
import z3

from pyvc.engine import NONE_U, is_z3, z3_not
from pyvc.verify import Contract


def check_contract():
    def returns_only_without_changes(E, st, out):
        hc = [e for e in st.trace if e.name == "self.task._hash_changes" and not e.raised]
        if not hc:
            return False
        return z3_not(E.truthy(st, hc[-1].ret))

    def raises_runtime_error_on_change(E, st, exc):
        if exc.cls != "RuntimeError":
            return True  # propagated from opaque callees
        hc = [e for e in st.trace if e.name == "self.task._hash_changes" and not e.raised]
        return bool(hc) and E.truthy(st, hc[-1].ret)

    return Contract(
        file="pydra/engine/job.py",
        qualname="Job._check_for_hash_changes",
        params={"self": "U"},
        default_effects=True,
        callees={"type": {"kind": "pure", "name": "type_of"}, "inspect.isclass": {"kind": "pure", "name": "isclass", "returns": "Bool"}, "issubclass": {"kind": "pure", "name": "issubclass", "returns": "Bool"}},
        attrs={"task": {"kind": "U"}, "name": {"kind": "U"}, "type": {"kind": "U"}, "__module__": {"kind": "U"}, "__name__": {"kind": "U"}, "_hashes": {"kind": "U"}},
        loops={"hash_changes": {"invariants": []}},
        seq_kinds={},
        ensures=[("returns-normally-only-if-no-input-hash-changed", "property:C19", returns_only_without_changes)],
        raises=[("RuntimeError-only-when-a-change-was-detected", "property:C19", raises_runtime_error_on_change)],
        min_paths=3,
    )


def checksum_contract():
    def memoised(E, st, out):
        self_ = st.env["__entry__"]["self"]
        before = z3.Function("attr._checksum:U", E_U(), E_U())(self_)
        stored = st.fields.get((self_.sexpr(), "_checksum"))
        r = out.val
        if stored is None:
            # nothing written: the memoised value was returned
            return z3.And(before != NONE_U, r == before)
        return z3.And(before == NONE_U, is_z3(stored) and stored.eq(r))

    return Contract(
        file="pydra/engine/job.py",
        qualname="Job.checksum",
        params={"self": "U"},
        attrs={"_checksum": {"kind": "U"}, "task": {"kind": "U"}},
        ensures=[("checksum-is-computed-once-and-then-kept", "property:C19", memoised)],
        allow_raise=False,
        trusted=["task._checksum is a pure read here (its own computation is the subject of C06-C08)"],
    )


def E_U():
    from pyvc.engine import U

    return U


def task_hash_changes_contract():
    """Task._hash_changes compares freshly computed hashes with the hashes STORED BEFORE the execution: it must not
    refresh the stored ones (reading the property Task._hash does: `hsh, self._hashes = self._compute_hashes()`),
    otherwise a modified input is compared with itself and nothing is reported."""

    def only_computes(E, st, out):
        # (calls on the freshly computed dict, e.g. .items(), are not calls on the task)
        calls = [e.name for e in st.trace if e.name.startswith("self.")]
        return calls == ["self._compute_hashes"]

    def stored_hashes_untouched(E, st, out):
        self_ = st.env["__entry__"]["self"]
        return (self_.sexpr(), "_hashes") not in st.fields

    return Contract(
        file="pydra/compose/base/task.py",
        qualname="Task._hash_changes",
        params={"self": "U"},
        default_effects=True,
        attrs={"_hashes": {"kind": "U"}, "_hash": {"kind": "U", "effect": True, "may_raise": True}, "_checksum": {"kind": "U", "effect": True, "may_raise": True}},
        ensures=[
            ("compares-with-the-hashes-stored-before-the-run:no-call-but-_compute_hashes", "property:C19", only_computes),
            ("stored-hashes-are-not-written", "property:C19", stored_hashes_untouched),
        ],
        min_paths=1,
    )
