"""Sidecar contract for pydra.utils.hash:hash_single (C08, memo logic of the per-call cache).

  * a memo hit returns the memoised hash of this object id without re-serialising;
  * on a miss the recursion placeholder is stored BEFORE the object is serialised and is replaced by
    the final hash, which is the value returned;
  * the digest is fed the first chunk (unless it was a persistent-cache key) and then the remaining
    chunks of the SAME bytes_repr iterator.
Context-freeness then rests on the stated assumption that an id is not reused while its memo entry is
alive (temporaries created inside serializers are the residual risk, listed in the evidence)."""
import z3

from pyvc.engine import is_z3
from pyvc.verify import Contract


def contract():
    def idx(st, name, ok=None):
        return [i for i, e in enumerate(st.trace) if e.name == name and (ok is None or (not e.raised) == ok)]

    def hit_returns_memo(E, st, out):
        if idx(st, "bytes_repr"):
            return True
        if out.kind != "return":
            return True
        gets = [e for e in st.trace if e.name == "__getitem__" and not e.raised]
        return bool(gets) and is_z3(out.val) and out.val.eq(gets[-1].ret) and "fn.id" in str(gets[-1].args[1])

    def placeholder_before_serialising(E, st, out):
        br = idx(st, "bytes_repr")
        if not br:
            return True
        sets = [i for i, e in enumerate(st.trace) if e.name == "setitem" and "fn.id" in str(e.args[1])]
        return bool(sets) and sets[0] < br[0] and "fn.Hash" in str(st.trace[sets[0]].args[2])

    def final_hash_is_stored_and_returned(E, st, out):
        br = idx(st, "bytes_repr", ok=True)
        if not br or out.kind != "return":
            return True
        sets = [e for e in st.trace if e.name == "setitem" and "fn.id" in str(e.args[1])]
        gets = [e for e in st.trace if e.name == "__getitem__" and not e.raised]
        # the last store is the computed hash; the function returns cache[objid] read after it
        return len(sets) >= 2 and ("calc_hash" in str(sets[-1].args[2]) or "get_or_calculate_hash" in str(sets[-1].args[2]) or "fn.Hash" in str(sets[-1].args[2])) and bool(gets) and is_z3(out.val) and out.val.eq(gets[-1].ret)

    return Contract(
        file="pydra/utils/hash.py",
        qualname="hash_single",
        params={"obj": "U", "cache": "U"},
        default_effects=True,
        callees={
            "id": {"kind": "pure", "name": "id"},
            "Hash": {"kind": "pure", "name": "Hash"},
            "isinstance": {"kind": "pure", "name": "isinstance", "returns": "Bool"},
            "type": {"kind": "pure", "name": "type_of"},
            "blake2b": {"kind": "effect", "may_raise": False},
        },
        attrs={"persistent": {"kind": "U"}, "__module__": {"kind": "U"}, "__name__": {"kind": "U"}},
        loops={0: {"invariants": []}},
        exits=[
            ("memo-hit-returns-the-memoised-hash-without-serialising", "property:C08", hit_returns_memo),
            ("recursion-placeholder-is-stored-before-serialising", "property:C08", placeholder_before_serialising),
            ("final-hash-replaces-the-placeholder-and-is-returned", "property:C08", final_hash_is_stored_and_returned),
        ],
        min_paths=4,
        trusted=["id(obj) identifies obj for as long as its memo entry is used (objects created and dropped inside a serializer may reuse an id: residual risk, not excluded)", "`objid not in cache` / cache[objid] behave like a dict"],
    )
