"""Sidecar contracts for pydra.engine.job:Job.done and Job.result (C14, C15): a job counts as
done only if a stored, non-errored result exists; an errored result is reported by ValueError."""
import z3

from pyvc.engine import NONE_U, is_z3, z3_and, z3_not
from pyvc.verify import Contract


def done_contract(pid):
    def res_of(st):
        ev = [e for e in st.trace if e.name == "self.result" and not e.raised]
        return ev[-1].ret if ev else None

    def true_only_with_good_result(E, st, out):
        if out.val is not True:
            return True
        r = res_of(st)
        if r is None:
            return False
        err = E.getattr_(st, r, "errored", _n("_result.errored"))[0][1]
        return z3_and(E.truthy(st, r), z3_not(E.truthy(st, err)))

    def value_error_iff_errored(E, st, exc):
        if exc.cls != "ValueError":
            return True
        r = res_of(st)
        if r is None:
            return False
        err = E.getattr_(st, r, "errored", _n("_result.errored"))[0][1]
        return z3_and(E.truthy(st, r), E.truthy(st, err))

    return Contract(
        file="pydra/engine/job.py",
        qualname="Job.done",
        params={"self": "U"},
        default_effects=True,
        callees={"has_lazy": {"kind": "pure", "name": "has_lazy", "returns": "Bool"}},
        attrs={"task": {"kind": "U"}, "errored": {"kind": "U"}, "name": {"kind": "U"}},
        ensures=[("done-only-with-a-stored-unerrored-result", f"property:{pid}", true_only_with_good_result)],
        raises=[("ValueError-only-for-an-errored-result", f"property:{pid}", value_error_iff_errored)],
        min_paths=4,
    )


def _n(src):
    import ast

    return ast.parse(src, mode="eval").body
