"""Sidecar contracts for pydra.engine.job:Job.done and Job.result (C14, C15): a job counts as
done only if a stored, non-errored result exists; an errored result is reported by ValueError."""
import z3

from pyvc.engine import NONE_U, is_z3, z3_and, z3_not
from pyvc.verify import Contract


def done_contract(pid):
    def res_of(st):
        ev = [e for e in st.trace if e.name == "self.result" and not e.raised]
        return ev[-1].ret if ev else None

    def true_only_with_good_result(E, st, out):
        if out.val is not True:
            return True
        r = res_of(st)
        if r is None:
            return False
        err = E.getattr_(st, r, "errored", _n("_result.errored"))[0][1]
        return z3_and(E.truthy(st, r), z3_not(E.truthy(st, err)))

    def not_done_while_rerun_pending(E, st, out):
        # pydra fix 9617fc81: a result stored by an EARLIER submission must not make a job count as done while the
        # rerun requested for it is pending -- otherwise its consumers start on the stale value (C15) and it may
        # never be re-executed (C11)
        if out.val is False:
            return True
        pend = E.getattr_(st, st.env["__entry__"]["self"], "_awaiting_rerun", _n("self._awaiting_rerun"))[0][1]
        return z3_not(E.truthy(st, pend))

    def no_result_lookup_while_rerun_pending(E, st, exc):
        if exc.cls != "ValueError":
            return True
        pend = E.getattr_(st, st.env["__entry__"]["self"], "_awaiting_rerun", _n("self._awaiting_rerun"))[0][1]
        return z3_not(E.truthy(st, pend))

    def value_error_iff_errored(E, st, exc):
        if exc.cls != "ValueError":
            return True
        r = res_of(st)
        if r is None:
            return False
        err = E.getattr_(st, r, "errored", _n("_result.errored"))[0][1]
        return z3_and(E.truthy(st, r), E.truthy(st, err))

    return Contract(
        file="pydra/engine/job.py",
        qualname="Job.done",
        params={"self": "U"},
        default_effects=True,
        callees={"has_lazy": {"kind": "pure", "name": "has_lazy", "returns": "Bool"}},
        attrs={"task": {"kind": "U"}, "errored": {"kind": "U"}, "name": {"kind": "U"}},
        ensures=[
            ("done-only-with-a-stored-unerrored-result", f"property:{pid}", true_only_with_good_result),
            ("not-done-while-a-requested-rerun-is-pending", f"property:{pid}", not_done_while_rerun_pending),
        ],
        raises=[
            ("ValueError-only-for-an-errored-result", f"property:{pid}", value_error_iff_errored),
            ("no-error-from-a-stale-result-while-a-rerun-is-pending", f"property:{pid}", no_result_lookup_while_rerun_pending),
        ],
        min_paths=4,
    )


def _n(src):
    import ast

    return ast.parse(src, mode="eval").body
