"""Sidecar contract for pydra.engine.job:Job.inputs (C34): every file-typed field is staged by ONE call of
copy_nested_files that is given that field's own copy mode and collation and the job's cache directory -- no staging
decision of one field is handed to another field."""
import z3

from pyvc.engine import is_z3, to_U
from pyvc.verify import Contract

ALLOWED_KW = {"value", "dest_dir", "mode", "collation", "supported_modes", "clashes_to_avoid"}


def _n(src):
    import ast

    return ast.parse(src, mode="eval").body


def contract():
    def staged_by_its_own_mode(E, st, events):
        calls = [e for e in events if e.name == "copy_nested_files"]
        if len(calls) > 1:
            return False
        if not calls:
            return True
        e = calls[0]
        kw = e.kwargs
        extra = [k for k in set(kw) - ALLOWED_KW if not isinstance(kw[k], (bool, int, float, str, type(None)))]
        if extra or e.args:
            # an extra argument that is not a plain constant (e.g. a memo created before the loop and shared between the
            # fields) is a channel from one field's staging to another's
            return False
        fld = st.ghost["_iter_elem"]  # the field of this iteration, whatever the loop variable is called
        self_ = st.env["__entry__"]["self"] if "__entry__" in st.env else st.env["self"]
        mode = E.getattr_(st, fld, "copy_mode", _n("fld.copy_mode"))[0][1]
        coll = E.getattr_(st, fld, "copy_collation", _n("fld.copy_collation"))[0][1]
        cdir = E.getattr_(st, self_, "cache_dir", _n("self.cache_dir"))[0][1]
        ok = []
        for key, want in (("mode", mode), ("collation", coll), ("dest_dir", cdir)):
            got = kw.get(key)
            if got is None or not is_z3(got) or not is_z3(want):
                return False
            ok.append(to_U(got) == to_U(want))
        return z3.And(*ok)

    return Contract(
        file="pydra/engine/job.py",
        qualname="Job.inputs",
        params={"self": "U"},
        default_effects=True,
        callees={
            "get_fields": {"kind": "pure", "name": "get_fields"},
            "TypeParser.contains_type": {"kind": "pure", "name": "contains_type", "returns": "Bool"},
        },
        attrs={"_inputs": {"kind": "U"}, "task": {"kind": "U"}, "cache_dir": {"kind": "U"}, "name": {"kind": "U"}, "type": {"kind": "U"}, "copy_mode": {"kind": "U"}, "copy_collation": {"kind": "U"}, "SUPPORTED_COPY_MODES": {"kind": "U"}},
        loops={"get_fields(self.task)": {"invariants": [], "iteration_ensures": [("field-staged-by-its-own-copy-mode-into-the-job-directory", "property:C34", staged_by_its_own_mode)]}},
        min_paths=2,
        trusted=["Job.cache_dir is a side-effect-free read returning the same value throughout", "copy_nested_files stages `value` as `mode`/`collation` say (its own behaviour is the bounded part of C34)"],
    )
