"""Sidecar contract for pydra.engine.job:Job.run / Job.run_async  (C11, C13, C35, C36).

The function is loop-free: pyvc enumerates every path, where *every call* is an
effect that either returns an arbitrary value or raises an arbitrary Exception
(exception injection at every call site).  The effect trace is ghost state; the
clauses below are predicates over (trace, exit kind, path condition).
"""

from __future__ import annotations

import z3

from pyvc.engine import NONE_U, truthy_U, Ev, is_z3, z3_and, z3_not, z3_or, implies
from pyvc.verify import Contract

FILE = "pydra/engine/job.py"

CALLEES = {
    "SoftFileLock": {"kind": "pure"},
    "PydraFileLock": {"kind": "pure"},
    "Result": {"kind": "ctor", "cls": "Result", "fields": []},
    "sys.exc_info": {"kind": "effect", "may_raise": False, "returns": ("Tup", "U", "U", "U")},
    "format_exception": {"kind": "pure"},
    # restoring primitives: assumed not to fail (both directories exist for the whole run)
    "os.getcwd": {"kind": "effect", "may_raise": False},
    "os.chdir": {"kind": "effect", "may_raise": False},
}

ATTRS = {
    # read-only views of the job (cache_dir = cache_root / checksum, memoised checksum)
    "cache_dir": {"kind": "U"},
    "cache_root": {"kind": "U"},
    "lockfile": {"kind": "U"},
    "uid": {"kind": "U"},
    "name": {"kind": "U"},
    "hooks": {"kind": "U"},
    "audit": {"kind": "U"},
    "task": {"kind": "U"},
    "Outputs": {"kind": "U"},
    "errored": {"kind": "U"},
    # reading these properties of the task recomputes and overwrites Task._hashes: modelled as effects so that the C19
    # clause can see a read between the task body and the input-hash check
    "_hash": {"kind": "U", "effect": True, "may_raise": True},
    "_checksum": {"kind": "U", "effect": True, "may_raise": True},
}


def run_name(qual):
    return "self.task._run_async" if qual.endswith("run_async") else "self.task._run"


# ----------------------------------------------------------------- trace helpers


def evs(st, name, ok=None):
    out = []
    for i, e in enumerate(st.trace):
        if e.name == name and (ok is None or (not e.raised) == ok):
            out.append((i, e))
    return out


def is_info_unlink(e):
    return e.name.endswith(".unlink") and "_info.json" in e.label


def contract(qual, with_role, noraise=()):
    """with_role: dict clause-name -> role (property:<id> or auxiliary) so that each
    property module claims only its own clauses"""
    RUN = run_name(qual)

    def role(n):
        return with_role.get(n, "auxiliary")

    # ---- C35 clauses (every exit)
    def cwd_restored(E, st, out):
        ch = [(i, e) for i, e in enumerate(st.trace) if e.name == "os.chdir"]
        moved = [(i, e) for i, e in ch if not e.raised and "cache_dir" in str(e.args[0])]
        if not moved:
            return True
        getcwd = evs(st, "os.getcwd", ok=True)
        if not getcwd:
            return False
        cwd = getcwd[0][1].ret
        last_i, last = ch[-1]
        # the last chdir attempt must go back to the directory recorded on entry
        return last_i > moved[-1][0] and is_z3(last.args[0]) and last.args[0].eq(cwd)

    def info_file_removed(E, st, out):
        pop = evs(st, "self._populate_filesystem")
        if not pop:
            return True
        after = [e for e in st.trace[pop[0][0] + 1 :] if is_info_unlink(e)]
        return len(after) >= 1

    def lock_released(E, st, out):
        ent = evs(st, "__enter__", ok=True)
        ext = evs(st, "__exit__")
        return len(ent) == len(ext)

    def hooks_paired(E, st, out):
        ran = evs(st, RUN)
        pre = evs(st, "self.hooks.pre_run_task")
        post = evs(st, "self.hooks.post_run_task")
        if ran:
            return len(pre) == 1 and len(post) == 1 and pre[0][0] < ran[0][0] < post[0][0]
        # no execution: the end hook is never called without the start hook, and neither on a cache hit
        if out.kind == "return" and not evs(st, "self._populate_filesystem"):
            return not pre and not post
        return len(post) <= len(pre) <= 1

    # ---- C19 clause: a normal return after an execution has passed the input-hash check, and between the task body and
    # that check nothing re-reads Task._hash / Task._checksum (reading them REFRESHES the stored per-field hashes the
    # check compares with: `hsh, self._hashes = self._compute_hashes()`), so the comparison is with the pre-run hashes
    def hash_check_after_run(E, st, out):
        ran = evs(st, RUN, ok=True)
        if not ran or out.kind != "return":
            return True
        chk = [(i, e) for i, e in enumerate(st.trace) if e.name == "self._check_for_hash_changes" and i > ran[-1][0]]
        if not chk or chk[0][1].raised:
            return False
        between = st.trace[ran[-1][0] + 1 : chk[0][0]]
        return not any(e.name.endswith((".task._hash", ".task._checksum", ".task._compute_hashes")) for e in between)

    # ---- C13 clauses
    def failure_propagates(E, st, out):
        failed = [e for _, e in evs(st, RUN) + evs(st, "self.task.Outputs._from_job") if e.raised]
        if not failed:
            return True
        return out.kind == "raise"

    def failure_saved_as_errored(E, st, out):
        failed = [i for i, e in evs(st, RUN) + evs(st, "self.task.Outputs._from_job") if e.raised]
        if not failed:
            return True
        goals = []
        for i, e in evs(st, "save"):
            if i > failed[0] and "result" in e.kwargs:
                val = e.snapshot.get((e.kwargs["result"].sexpr(), "errored"))
                goals.append(E.truthy(st, val) if val is not None else False)
        return z3_and(*goals) if goals else True

    def success_saved_unerrored_only_after_run(E, st, out):
        # a result saved with errored=False implies the task body and output collection returned normally
        goals = []
        for i, e in evs(st, "save", ok=None):
            if "result" not in e.kwargs:
                continue
            val = e.snapshot.get((e.kwargs["result"].sexpr(), "errored"))
            not_err = z3_not(E.truthy(st, val)) if val is not None else True
            ran_ok = any(not r.raised for j, r in evs(st, RUN) if j < i) and any(
                not r.raised for j, r in evs(st, "self.task.Outputs._from_job") if j < i
            )
            goals.append(implies(not_err, ran_ok))
        return z3_and(*goals) if goals else True

    def cache_hit_only_unerrored(E, st, out):
        # early return (no execution) only with a present, non-errored result and rerun off
        if evs(st, "self._populate_filesystem") or out.kind != "return":
            return True
        res = evs(st, "self.result", ok=True)
        if not res:
            return False
        r = res[0][1].ret
        errored = E.getattr_(st, r, "errored", _attr_node("result.errored"))[0][1]
        rerun = st.env["__entry__"]["rerun"]
        return z3_and(r != NONE_U, z3_not(E.truthy(st, errored)), z3_not(rerun), out.val.eq(r) if is_z3(out.val) else False)

    # ---- C11 clause: executes iff rerun or no usable result
    def executes_iff_needed(E, st, out):
        ran = evs(st, RUN)
        res = evs(st, "self.result", ok=True)
        rerun = st.env["__entry__"]["rerun"]
        if ran:
            if not res:
                return rerun if not isinstance(rerun, bool) else rerun
            r = res[0][1].ret
            errored = E.getattr_(st, r, "errored", _attr_node("result.errored"))[0][1]
            return z3_or(rerun, r == NONE_U, E.truthy(st, errored))
        return True

    # ---- C36 clauses
    def audit_paired(E, st, out):
        start = evs(st, "self.audit.start_audit", ok=True)
        fin = evs(st, "self.audit.finalize_audit")
        if not start:
            return len(fin) == 0
        return len(fin) == 1 and fin[0][0] > start[0][0]

    def audit_end_flag_matches(E, st, out):
        # the Result passed to finalize_audit is the one that is saved, with the same errored flag
        fin = evs(st, "self.audit.finalize_audit")
        sv = [(i, e) for i, e in evs(st, "save") if "result" in e.kwargs]
        if not fin or not sv:
            return True
        f, s = fin[0][1], sv[-1][1]
        fr, sr = f.kwargs.get("result"), s.kwargs.get("result")
        if fr is None or not fr.eq(sr):
            return False
        a = f.snapshot.get((fr.sexpr(), "errored"))
        b = s.snapshot.get((sr.sexpr(), "errored"))
        return a is b or (is_z3(a) and is_z3(b) and a.eq(b)) or a == b

    def decision_under_lock(E, st, out):
        """check-then-act: the cache lookup that decides whether to execute, the execution and the
        saving of the result all happen while this job's lock is held (between __enter__ and __exit__)"""
        ent = [i for i, e in evs(st, "__enter__", ok=True)]
        ext = [i for i, e in evs(st, "__exit__")]
        lo = ent[0] if ent else None
        hi = ext[-1] if ext else len(st.trace)
        guarded = [RUN, "self._populate_filesystem", "save", "record_error"]
        for i, e in enumerate(st.trace):
            if e.name in guarded and (lo is None or not (lo < i < hi)):
                return False
        # the decisive lookup: the last self.result() before the early return / the execution
        res = [i for i, e in evs(st, "self.result")]
        if res and (lo is None or not (lo < res[-1] < hi)):
            # a lookup outside the lock is only harmless if nothing is decided from it
            decided = bool(evs(st, RUN)) or (out.kind == "return" and not evs(st, "self._populate_filesystem"))
            return not decided
        return True

    def result_saved_after_execution(E, st, out):
        ran = evs(st, RUN)
        if not ran:
            return True
        return any(i > ran[0][0] and "result" in e.kwargs for i, e in evs(st, "save"))

    def writes_only_under_cache_dir(E, st, out):
        # every path handed to a writing callee is this job's cache_dir (= cache_root/checksum, see Job.cache_dir)
        ok = True
        for e in st.trace:
            if e.name in ("save", "record_error") and e.args:
                ok = ok and is_z3(e.args[0]) and "attr.cache_dir" in str(e.args[0])
            if e.name == "os.chdir" and e.args and not e.raised:
                a = e.args[0]
                ok = ok and is_z3(a) and ("attr.cache_dir" in str(a) or "ret.os.getcwd" in str(a))
            if e.name.endswith(".unlink"):
                ok = ok and "self.cache_root" in e.label
        return ok

    exits = [
        ("cache-decision-and-execution-under-the-job-lock", role("cache-decision-and-execution-under-the-job-lock"), decision_under_lock),
        ("writes-only-under-cache-dir", role("writes-only-under-cache-dir"), writes_only_under_cache_dir),
        ("job-dir-holds-result-after-execution", role("job-dir-holds-result-after-execution"), result_saved_after_execution),
        ("cwd-restored", role("cwd-restored"), cwd_restored),
        ("info-file-removed", role("info-file-removed"), info_file_removed),
        ("lock-released", role("lock-released"), lock_released),
        ("hooks-paired-once", role("hooks-paired-once"), hooks_paired),
        ("failure-propagates", role("failure-propagates"), failure_propagates),
        ("failure-saved-as-errored", role("failure-saved-as-errored"), failure_saved_as_errored),
        ("unerrored-result-only-after-successful-run", role("unerrored-result-only-after-successful-run"), success_saved_unerrored_only_after_run),
        ("cache-hit-only-unerrored", role("cache-hit-only-unerrored"), cache_hit_only_unerrored),
        ("executes-iff-rerun-or-no-usable-result", role("executes-iff-rerun-or-no-usable-result"), executes_iff_needed),
        ("input-hash-check-follows-the-run-unrefreshed", role("input-hash-check-follows-the-run-unrefreshed"), hash_check_after_run),
        ("audit-start-end-paired", role("audit-start-end-paired"), audit_paired),
        ("audit-end-flag-is-saved-flag", role("audit-end-flag-is-saved-flag"), audit_end_flag_matches),
    ]
    exits = [e for e in exits if e[0] in with_role]  # each property instantiates its own clauses
    callees = dict(CALLEES)
    for n in noraise:
        callees[n] = {"kind": "effect", "may_raise": False}
    return Contract(
        file=FILE,
        qualname=qual,
        params={"self": "U", "rerun": "Bool"},
        callees=callees,
        attrs=dict(ATTRS),
        default_effects=True,
        base_exceptions=True,
        exits=exits,
        min_paths=20,
        trusted=[
            "Job.cache_dir / cache_root / lockfile / uid / hooks / audit / task are side-effect-free reads that return the same value throughout one run",
            "context managers (SoftFileLock, PydraFileLock) do not suppress exceptions",
            "every other call (hooks, audit, _populate_filesystem, task._run, _from_job, record_error, save, unlink, chdir, getcwd, result, _check_for_hash_changes) is an opaque effect that returns any value or raises any Exception",
        ],
    )


def _attr_node(src):
    import ast

    return ast.parse(src, mode="eval").body
