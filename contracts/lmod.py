"""Sidecar contract for pydra.environments.lmod:Lmod.execute (C39).

The environment mapping handed to the process launcher is tracked as an object: where it is
created, and every item assignment made to it (effect trace)."""
import z3

from pyvc.engine import U, is_z3
from pyvc.verify import Contract


def contract():
    def env_of(st):
        ex = [e for e in st.trace if e.name == "base.execute" and not e.raised]
        return ex[-1] if ex else None

    def starts_from_caller_env(E, st, out):
        ex = env_of(st)
        if ex is None:
            return out.kind == "raise"
        env = ex.kwargs.get("env")
        # the mapping passed on is a copy of os.environ made in this call
        return is_z3(env) and env.sexpr().startswith("(fn.dict_copy") and "global:os.environ" in env.sexpr()

    def only_module_assignments_added(E, st, out):
        ex = env_of(st)
        if ex is None:
            return True
        env = ex.kwargs.get("env")
        stores = [e for e in st.trace if e.name == "setitem" and is_z3(e.args[0]) and e.args[0].eq(env)]
        # inside the loop the store is env[key] = value with (key, value) an element of re.findall(...)
        return all("item_U" in str(e.args[1]) and "fn.re.findall" in str(e.args[1]) for e in stores) or not stores

    def native_argv(E, st, out):
        ex = env_of(st)
        if ex is None:
            return True
        ca = [e for e in st.trace if e.name == "job.task._command_args" and not e.raised]
        return bool(ca) and is_z3(ex.args[0]) and ex.args[0].eq(ca[-1].ret)

    def post_exec(E, st, ev):
        st.ghost["rc"] = ev.ret[0]

    return Contract(
        file="pydra/environments/lmod.py",
        qualname="Lmod.execute",
        params={"self": "U", "job": "U"},
        default_effects=True,
        callees={
            "dict": {"kind": "pure", "name": "dict_copy"},
            "os.environ.copy": {"kind": "pure", "name": "dict_copy"},
            "re.findall": {"kind": "pure", "name": "re.findall"},
            "base.execute": {"kind": "effect", "returns": ("Tup", "Int", "Str", "Str"), "post": post_exec},
        },
        attrs={"modules": {"kind": "U"}, "task": {"kind": "U"}, "inputs": {"kind": "U"}, "name": {"kind": "U"}},
        loops={0: {"invariants": []}},
        exits=[
            ("child-environment-starts-from-the-callers", "property:C39", starts_from_caller_env),
            ("only-module-assignments-are-applied", "property:C39", only_module_assignments_added),
            ("same-argv-as-native", "property:C39", native_argv),
        ],
        ensures=[("returns-only-with-zero-exit-code", "auxiliary", lambda E, st, out: st.ghost["rc"] == 0)],
        min_paths=3,
        trusted=[
            "dict(os.environ) copies the caller's environment; `env[key] = value` adds or overrides exactly that key",
            "re.findall returns the (key, value) pairs of the lmod python output (the regex itself is exercised bounded)",
        ],
    )
