"""Sidecar contract for pydra.engine.result:load_result (C11, C12)."""
import z3

from pyvc.engine import U, ExcV, to_U
from pyvc.verify import Contract, spec_functions
import spec.cache as SC

FILE = "pydra/engine/result.py"

loadable_h = z3.Function("fn.loadable", U, z3.BoolSort())
content_h = z3.Function("fn.content", U, U)


def _cp_load(E, st, node, recv, args, kwargs):
    """cloudpickle.load(fp): deterministic in the file behind fp for the duration of the call:
    returns the stored object of a complete file; raises UnpicklingError or EOFError otherwise"""
    fp = to_U(args[0])
    out = []
    for s2, side in E.fork(st, loadable_h(fp), f"cp.load@{E._rel(node)}"):
        if side:
            from pyvc.engine import NONE_U

            s2.pc.append(content_h(fp) != NONE_U)  # the stored object is a Result, never None
            out.append((s2, content_h(fp), None))
        else:
            s3 = s2.copy()
            out.append((s2, None, ExcV("pickle.UnpicklingError")))
            out.append((s3, None, ExcV("EOFError")))
    return out


def contract(roles):
    def r(n):
        return roles.get(n, "auxiliary")

    return Contract(
        file=FILE,
        qualname="load_result",
        params={"checksum": "U", "readonly_caches": ("Seq", "U"), "retries": "Int", "polling_interval": "U"},
        requires=[("retries-positive", "retries >= 1")],
        globals_=spec_functions(SC),
        callees={
            ".exists": {"kind": "pure", "name": "exists", "returns": "Bool"},
            ".stat": {"kind": "pure", "name": "stat"},
            "open": {"kind": "pure", "name": "open"},
            "loadable": {"kind": "pure", "name": "loadable", "returns": "Bool"},
            "content": {"kind": "pure", "name": "content"},
            "cp.load": {"kind": "model", "model": _cp_load},
            "time.sleep": {"kind": "effect", "may_raise": False},
        },
        attrs={"st_size": {"kind": "Int"}},
        with_enter_may_raise=False,
        loops={
            "readonly_caches": {"invariants": [("no-earlier-cache-is-complete", "forall(lambda j: not complete(readonly_caches[j], checksum), 0, _k)")]},
            "range(retries)": {"invariants": [("file-not-loadable-so-far", "_k == 0 or not loadable(open(result_file, 'rb'))")]},
        },
        ensures=[
            (
                "returns-first-complete-result-in-list-order",
                r("returns-first-complete-result-in-list-order"),
                "result is None or exists(lambda i: complete(readonly_caches[i], checksum) and result == content(open(readonly_caches[i] / checksum / '_result.pklz', 'rb'))"
                " and forall(lambda j: not complete(readonly_caches[j], checksum), 0, i), 0, len(readonly_caches))",
            ),
            (
                "none-only-if-no-listed-cache-is-complete",
                r("none-only-if-no-listed-cache-is-complete"),
                "result is not None or forall(lambda i: not complete(readonly_caches[i], checksum), 0, len(readonly_caches))",
            ),
        ],
        allow_raise=False,
        terminates_role=roles.get("terminates", ""),
        trusted=[
            "file system is not modified by others during one load_result call (exists/stat/open are pure observers)",
            "cloudpickle.load returns the stored object for a completely written file and raises UnpicklingError or EOFError for an incomplete one",
            "pathlib `/` is pure",
        ],
    )
