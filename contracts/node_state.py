"""Sidecar contract for pydra.engine.node:Node._set_state (C03): how a workflow node's state is assembled.  On every normal
exit of the real function: the node's state is set exactly once; it is None only on a path on which the node has no
splitter, no combiner and no split upstream node; otherwise it is `State(<node name>, ...)` whose `other_states` is what
`self._get_upstream_states()` returned in THIS call, and whose splitter / combiner are deep COPIES of the task's own
(prefixed with the node's name by add_name_splitter / add_name_combiner when non-empty) -- the task definition's own
splitter and combiner objects are never handed to State (which modifies them in place)."""
import z3

from pyvc.engine import Unsupported, eq, is_z3, to_U, z3_and, z3_not
from pyvc.verify import Contract


def contract():
    def state_assembled_from_own_copy_and_upstream_states(E, st, out):
        if out.kind == "raise":
            return True
        tr = [e for e in st.trace if not e.raised]
        self_ = to_U(st.env["__entry__"]["self"] if "__entry__" in st.env else st.env["self"])
        name = E.eval_spec_value("self.name", st, {})
        own_spl = E.eval_spec_value("self._task._splitter", st, {})
        own_cmb = E.eval_spec_value("self._task._combiner", st, {})
        copies = [e for e in tr if e.name == "deepcopy"]
        ups = [e for e in tr if e.name.endswith("_get_upstream_states")]
        states = [e for e in tr if e.name == "State"]
        sets = [e for e in tr if e.name == "setattr" and e.args[1] == "_state"]
        if len(copies) < 2:
            # the task definition's OWN splitter / combiner object reaches State or the prefixing helpers (which State mutates)
            for e in tr:
                if e.name in ("State", "add_name_splitter", "add_name_combiner"):
                    for v in list(e.args) + list(e.kwargs.values()):
                        if is_z3(v) and (to_U(v).eq(to_U(own_spl)) or to_U(v).eq(to_U(own_cmb))):
                            return False
            if len(copies) < 2 and len(ups) == 1 and len(states) <= 1 and not states:
                # a path on which nothing is handed to State: nothing can leak here; the paths that do hand it on decide
                return True
        if len(copies) != 2 or len(ups) != 1 or len(states) > 1:
            raise Unsupported(f"Node._set_state: effects {[e.name for e in tr]} (contract out of date)")
        if len(sets) != 1 or not to_U(sets[0].args[0]).eq(self_):
            return False  # the state is not set exactly once on this node
        cs, cc = copies
        conj = [to_U(cs.args[0]) == to_U(own_spl), to_U(cc.args[0]) == to_U(own_cmb), to_U(ups[0].args[0]) == self_]
        pre_s = [e for e in tr if e.name == "add_name_splitter"]
        pre_c = [e for e in tr if e.name == "add_name_combiner"]
        for pre, cp in ((pre_s, cs), (pre_c, cc)):
            for e in pre:
                conj += [to_U(e.args[0]) == to_U(cp.ret), to_U(e.args[1]) == to_U(name)]
        spl = pre_s[-1].ret if pre_s else cs.ret
        cmb = pre_c[-1].ret if pre_c else cc.ret
        if states:
            s = states[0]
            kw = s.kwargs
            if not {"splitter", "combiner", "other_states"} <= set(kw) or not s.args:
                raise Unsupported("Node._set_state: State(...) no longer called as State(name, splitter=, other_states=, combiner=, ...) (contract out of date)")
            conj += [
                to_U(s.args[0]) == to_U(name),
                to_U(kw["splitter"]) == to_U(spl),
                to_U(kw["combiner"]) == to_U(cmb),
                to_U(kw["other_states"]) == to_U(ups[0].ret),
                to_U(sets[0].args[2]) == to_U(s.ret),
            ]
            # a non-empty copy is always prefixed with the node name before it reaches State
            conj.append(z3.Implies(E.truthy(st, cs.ret), bool(pre_s)) if is_z3(E.truthy(st, cs.ret)) else (bool(pre_s) or not E.truthy(st, cs.ret)))
            conj.append(z3.Implies(E.truthy(st, cc.ret), bool(pre_c)) if is_z3(E.truthy(st, cc.ret)) else (bool(pre_c) or not E.truthy(st, cc.ret)))
        else:
            if sets[0].args[2] is not None:
                return False
            # stateless only if there is nothing to split over, nothing to combine and no split upstream node
            conj += [z3_not(E.truthy(st, spl)), z3_not(E.truthy(st, cmb)), z3_not(E.truthy(st, ups[0].ret))]
        return z3_and(*conj)

    return Contract(
        file="pydra/engine/node.py",
        qualname="Node._set_state",
        params={"self": "U"},
        default_effects=True,
        callees={"deepcopy": {"kind": "effect", "may_raise": False}},
        attrs={"_task": {"kind": "U"}, "_splitter": {"kind": "U"}, "_combiner": {"kind": "U"}, "_container_ndim": {"kind": "U"}, "name": {"kind": "U"}, "_state": {"kind": "U"}},
        loops={0: {"invariants": []}},
        exits=[("state-assembled-from-own-copies-and-this-calls-upstream-states", "property:C03", state_assembled_from_own_copy_and_upstream_states)],
        min_paths=6,
        trusted=[
            "deepcopy returns a new, equal object; add_name_splitter / add_name_combiner prefix every own field with '<node>.' (bounded part of C03)",
            "State.__init__ and Node._get_upstream_states are opaque callees here (merging of upstream states: bounded part of C03)",
            "the container_ndim dict handed to State is not constrained by this contract",
        ],
    )


def upstream_contract():
    """Node._get_upstream_states (C03): per input (name, val) of the node -- an arbitrary one -- the upstream node behind a lazy
    out-field is recorded iff it has a state of non-zero depth: the FIRST connection to that node stores
    `(node.state, [val._field])` under `node.name`, a later one appends `val._field` to that entry's field list; an input is
    passed over only on a path on which it is not a LazyOutField, its node has no state, or that state's depth() is falsy.
    Nothing else is written to the mapping that is returned."""
    from pyvc.engine import Ref, U, truthy_U

    def split_upstream_node_recorded_under_its_name(E, st, events):
        evs = [e for e in events if not e.raised]
        elem = to_U(st.ghost["_iter_elem"])
        val = z3.Function("item1", U, U)(elem)
        node = E.eval_spec_value("v._node", st, {"v": val})
        nname = E.eval_spec_value("v._node.name", st, {"v": val})
        nstate = E.eval_spec_value("v._node.state", st, {"v": val})
        fld = E.eval_spec_value("v._field", st, {"v": val})
        inner = E.eval_spec_value("v._node.state._inner_container_ndim", st, {"v": val})
        depth = [e for e in evs if e.name.endswith("state.depth")]
        writes = [e for e in evs if e.name == "setitem" and not to_U(e.args[0]).eq(to_U(inner))]
        appends = [e for e in evs if e.name.endswith(".append")]
        other = [e for e in evs if e not in depth and e not in writes and e not in appends and e.name not in ("setitem", "__getitem__")]
        if other or len(writes) + len(appends) > 1:
            raise Unsupported(f"Node._get_upstream_states: loop effects {[e.name for e in evs]} (contract out of date)")
        if writes:
            w = writes[0]
            v = w.args[2]
            if not (isinstance(v, tuple) and len(v) == 2 and isinstance(v[1], Ref)):
                raise Unsupported("Node._get_upstream_states: entry no longer (state, [field]) (contract out of date)")
            items = st.heap[v[1].n].seq.items
            return z3_and(to_U(w.args[1]) == to_U(nname), to_U(v[0]) == to_U(nstate), items is not None and len(items) == 1 and eq(items[0], fld))
        if appends:
            a = appends[0]
            gets = [e for e in evs if e.name == "__getitem__"]
            if len(gets) != 2:
                raise Unsupported("Node._get_upstream_states: append no longer on upstream_states[name][1] (contract out of date)")
            g1, g2 = gets
            return z3_and(to_U(g1.args[1]) == to_U(nname), to_U(g2.args[0]) == to_U(g1.ret), g2.args[1] == 1, to_U(a.args[0]) == to_U(g2.ret), to_U(a.args[1]) == to_U(fld))
        # passed over: only for a non-lazy input or an upstream node without (non-trivial) state
        is_lazy_out = E.eval_spec("isinstance(v, lazy.LazyOutField)", st, {"v": val})
        has_state = E.truthy(st, nstate)
        reasons = [z3_not(is_lazy_out), z3_not(has_state)]
        if depth:
            reasons.append(z3_not(E.truthy(st, depth[-1].ret)))
        return z3.Or(*[r if is_z3(r) else z3.BoolVal(bool(r)) for r in reasons])

    return Contract(
        file="pydra/engine/node.py",
        qualname="Node._get_upstream_states",
        params={"self": "U"},
        default_effects=True,
        callees={"isinstance": {"kind": "pure", "name": "isinstance", "returns": "Bool"}},
        attrs={"input_values": {"kind": "U"}, "_node": {"kind": "U"}, "state": {"kind": "U"}, "name": {"kind": "U"}, "_field": {"kind": "U"}, "splitter": {"kind": "U"}, "_inner_container_ndim": {"kind": "U"}},
        loops={0: {"invariants": [], "iteration_ensures": [("split-upstream-node-recorded-under-its-name-with-the-connecting-field", "property:C03", split_upstream_node_recorded_under_its_name)]}},
        min_paths=1,
        trusted=[
            "val._node / .state / .name / ._field are side-effect-free reads; State.depth() is an opaque call",
            "first-vs-later connection is decided by `node.name not in upstream_states` (dict membership, not interpreted): both branches are checked for every input",
        ],
    )
