"""Sidecar contract for pydra.engine.node:Node._set_state (C03): how a workflow node's state is assembled.  On every normal
exit of the real function: the node's state is set exactly once; it is None only on a path on which the node has no
splitter, no combiner and no split upstream node; otherwise it is `State(<node name>, ...)` whose `other_states` is what
`self._get_upstream_states()` returned in THIS call, and whose splitter / combiner are deep COPIES of the task's own
(prefixed with the node's name by add_name_splitter / add_name_combiner when non-empty) -- the task definition's own
splitter and combiner objects are never handed to State (which modifies them in place)."""
import z3

from pyvc.engine import Unsupported, eq, is_z3, to_U, z3_and, z3_not
from pyvc.verify import Contract


def contract():
    def state_assembled_from_own_copy_and_upstream_states(E, st, out):
        if out.kind == "raise":
            return True
        tr = [e for e in st.trace if not e.raised]
        self_ = to_U(st.env["__entry__"]["self"] if "__entry__" in st.env else st.env["self"])
        name = E.eval_spec_value("self.name", st, {})
        own_spl = E.eval_spec_value("self._task._splitter", st, {})
        own_cmb = E.eval_spec_value("self._task._combiner", st, {})
        copies = [e for e in tr if e.name == "deepcopy"]
        ups = [e for e in tr if e.name.endswith("_get_upstream_states")]
        states = [e for e in tr if e.name == "State"]
        sets = [e for e in tr if e.name == "setattr" and e.args[1] == "_state"]
        if len(copies) < 2:
            # the task definition's OWN splitter / combiner object reaches State or the prefixing helpers (which State mutates)
            for e in tr:
                if e.name in ("State", "add_name_splitter", "add_name_combiner"):
                    for v in list(e.args) + list(e.kwargs.values()):
                        if is_z3(v) and (to_U(v).eq(to_U(own_spl)) or to_U(v).eq(to_U(own_cmb))):
                            return False
            if len(copies) < 2 and len(ups) == 1 and len(states) <= 1 and not states:
                # a path on which nothing is handed to State: nothing can leak here; the paths that do hand it on decide
                return True
        if len(copies) != 2 or len(ups) != 1 or len(states) > 1:
            raise Unsupported(f"Node._set_state: effects {[e.name for e in tr]} (contract out of date)")
        if len(sets) != 1 or not to_U(sets[0].args[0]).eq(self_):
            return False  # the state is not set exactly once on this node
        cs, cc = copies
        conj = [to_U(cs.args[0]) == to_U(own_spl), to_U(cc.args[0]) == to_U(own_cmb), to_U(ups[0].args[0]) == self_]
        pre_s = [e for e in tr if e.name == "add_name_splitter"]
        pre_c = [e for e in tr if e.name == "add_name_combiner"]
        for pre, cp in ((pre_s, cs), (pre_c, cc)):
            for e in pre:
                conj += [to_U(e.args[0]) == to_U(cp.ret), to_U(e.args[1]) == to_U(name)]
        spl = pre_s[-1].ret if pre_s else cs.ret
        cmb = pre_c[-1].ret if pre_c else cc.ret
        if states:
            s = states[0]
            kw = s.kwargs
            if not {"splitter", "combiner", "other_states"} <= set(kw) or not s.args:
                raise Unsupported("Node._set_state: State(...) no longer called as State(name, splitter=, other_states=, combiner=, ...) (contract out of date)")
            conj += [
                to_U(s.args[0]) == to_U(name),
                to_U(kw["splitter"]) == to_U(spl),
                to_U(kw["combiner"]) == to_U(cmb),
                to_U(kw["other_states"]) == to_U(ups[0].ret),
                to_U(sets[0].args[2]) == to_U(s.ret),
            ]
            # a non-empty copy is always prefixed with the node name before it reaches State
            conj.append(z3.Implies(E.truthy(st, cs.ret), bool(pre_s)) if is_z3(E.truthy(st, cs.ret)) else (bool(pre_s) or not E.truthy(st, cs.ret)))
            conj.append(z3.Implies(E.truthy(st, cc.ret), bool(pre_c)) if is_z3(E.truthy(st, cc.ret)) else (bool(pre_c) or not E.truthy(st, cc.ret)))
        else:
            if sets[0].args[2] is not None:
                return False
            # stateless only if there is nothing to split over, nothing to combine and no split upstream node
            conj += [z3_not(E.truthy(st, spl)), z3_not(E.truthy(st, cmb)), z3_not(E.truthy(st, ups[0].ret))]
        return z3_and(*conj)

    return Contract(
        file="pydra/engine/node.py",
        qualname="Node._set_state",
        params={"self": "U"},
        default_effects=True,
        callees={"deepcopy": {"kind": "effect", "may_raise": False}},
        attrs={"_task": {"kind": "U"}, "_splitter": {"kind": "U"}, "_combiner": {"kind": "U"}, "_container_ndim": {"kind": "U"}, "name": {"kind": "U"}, "_state": {"kind": "U"}},
        loops={0: {"invariants": []}},
        exits=[("state-assembled-from-own-copies-and-this-calls-upstream-states", "property:C03", state_assembled_from_own_copy_and_upstream_states)],
        min_paths=6,
        trusted=[
            "deepcopy returns a new, equal object; add_name_splitter / add_name_combiner prefix every own field with '<node>.' (bounded part of C03)",
            "State.__init__ and Node._get_upstream_states are opaque callees here (merging of upstream states: bounded part of C03)",
            "the container_ndim dict handed to State is not constrained by this contract",
        ],
    )
