"""Sidecar contracts for the shell ordering helpers (C22): pydra.utils.general:position_sort."""
from pyvc.verify import Contract

SORTED_POS = "forall(lambda a: forall(lambda b: implies(a < b, pos[a][0] < pos[b][0]), 0, len(pos)), 0, len(pos))"
SORTED_NEG = "forall(lambda a: forall(lambda b: implies(a < b, neg[a][0] < neg[b][0]), 0, len(neg)), 0, len(neg))"


def position_sort_contract():
    return Contract(
        file="pydra/utils/general.py",
        qualname="position_sort",
        params={"args": ("Seq", ("Tup", ("Opt", "Int"), "U"))},
        requires=[
            ("positions-distinct", "forall(lambda a: forall(lambda b: implies(a != b and args[a][0] is not None and args[b][0] is not None, args[a][0] != args[b][0]), 0, len(args)), 0, len(args))"),
        ],
        seq_kinds={"pos": ("Tup", ("Opt", "Int"), "U"), "neg": ("Tup", ("Opt", "Int"), "U"), "none": "U"},
        loops={
            0: {
                "invariants": [
                    ("sizes", "len(pos) + len(none) + len(neg) == _k"),
                    ("pos-entries-non-negative", "forall(lambda i: pos[i][0] is not None and pos[i][0] >= 0, 0, len(pos))"),
                    ("neg-entries-negative", "forall(lambda i: neg[i][0] is not None and neg[i][0] < 0, 0, len(neg))"),
                    ("pos-sorted", SORTED_POS),
                    ("neg-sorted", SORTED_NEG),
                    ("pos-from-args", "forall(lambda i: exists(lambda j: pos[i] == args[j], 0, _k), 0, len(pos))"),
                    ("neg-from-args", "forall(lambda i: exists(lambda j: neg[i] == args[j], 0, _k), 0, len(neg))"),
                    ("none-from-unpositioned-args", "forall(lambda i: exists(lambda j: args[j][0] is None and none[i] == args[j][1], 0, _k), 0, len(none))"),
                ]
            }
        },
        ensures=[
            ("every-entry-appears-once-by-count", "property:C22", "len(result) == len(args)"),
            ("non-negative-first-ascending", "property:C22", f"forall(lambda i: result[i] == pos[i][1], 0, len(pos)) and {SORTED_POS} and forall(lambda i: pos[i][0] is not None and pos[i][0] >= 0, 0, len(pos))"),
            ("then-unpositioned", "property:C22", "forall(lambda i: result[len(pos) + i] == none[i], 0, len(none)) and forall(lambda i: exists(lambda j: args[j][0] is None and none[i] == args[j][1], 0, len(args)), 0, len(none))"),
            ("then-negative-ascending", "property:C22", f"forall(lambda i: result[len(pos) + len(none) + i] == neg[i][1], 0, len(neg)) and {SORTED_NEG} and forall(lambda i: neg[i][0] is not None and neg[i][0] < 0, 0, len(neg))"),
        ],
        allow_raise=False,
        trusted=["the definition order of unpositioned entries is preserved by list.append (order preservation of `none` is checked bounded, not deductively)"],
    )
