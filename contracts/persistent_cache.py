"""Sidecar contract for pydra.utils.hash:PersistentCache.get_or_calculate_hash (C09).

Data-structure invariant of the store (in-memory dict + one file per key):
    Inv:  every stored entry for key k equals calculate_hash_k() at the time it was stored.
The function preserves Inv: it only ever stores the value just returned by `calculate_hash`, under the
file and dict entry determined by `key` alone, and otherwise returns what is stored under that very
key.  (Inv is broken by the ENVIRONMENT — content rewritten with the key (path, mtime) unchanged —
which is the known-finding class of the bounded check; no function contract can exclude that.)"""
import z3

from pyvc.engine import is_z3
from pyvc.verify import Contract


def contract():
    def key_path_of(st):
        return st.env.get("key_path")

    def stores_only_fresh_value_under_this_key(E, st, out):
        calc = [e for e in st.trace if e.name == "calculate_hash" and not e.raised]
        writes = [e for e in st.trace if e.name == "key_path.write_bytes"]
        memo = [e for e in st.trace if e.name == "setitem"]
        ok = True
        for w in writes:
            ok = ok and bool(calc) and is_z3(w.args[-1]) and w.args[-1].eq(calc[-1].ret)
            ok = ok and "fn.blake2b" in str(w.args[0]) and "key" in str(w.args[0])
        for m in memo:
            # self._hashes[key] = Hash(hsh)
            ok = ok and bool(calc) and is_z3(m.args[1]) and m.args[1].eq(st.env["__entry__"]["key"]) and "ret.calculate_hash" in str(m.args[2])
        return ok

    def returns_entry_of_this_key_or_fresh(E, st, out):
        if out.kind != "return":
            return True
        r = str(out.val)
        key = st.env["__entry__"]["key"]
        memo_hits = [e for e in st.trace if e.name == "__getitem__" and not e.raised and len(e.args) == 2 and is_z3(e.args[1]) and e.args[1].eq(key) and "_hashes" in str(e.args[0])]
        if memo_hits and is_z3(out.val) and out.val.eq(memo_hits[-1].ret):
            return True
        return "key_path.read_bytes" in r or "ret.calculate_hash" in r

    def calculates_only_on_miss(E, st, out):
        calc = [i for i, e in enumerate(st.trace) if e.name == "calculate_hash"]
        ex = [i for i, e in enumerate(st.trace) if e.name == "key_path.exists" and not e.raised]
        return (not calc) or (bool(ex) and ex[-1] < calc[0])

    return Contract(
        file="pydra/utils/hash.py",
        qualname="PersistentCache.get_or_calculate_hash",
        params={"self": "U", "key": "U", "calculate_hash": "U"},
        default_effects=True,
        callees={
            "blake2b": {"kind": "pure", "name": "blake2b"},
            ".hexdigest": {"kind": "pure", "name": "hexdigest"},
            ".encode": {"kind": "pure", "name": "encode"},
            "str": {"kind": "pure", "name": "strof"},
            "Hash": {"kind": "pure", "name": "Hash"},
            ".with_suffix": {"kind": "pure", "name": "with_suffix"},
            "SoftFileLock": {"kind": "pure", "name": "SoftFileLock"},
        },
        attrs={"location": {"kind": "U"}, "_hashes": {"kind": "U"}},
        exits=[
            ("stores-only-the-freshly-calculated-hash-under-this-key", "property:C09", stores_only_fresh_value_under_this_key),
            ("returns-the-entry-of-this-key-or-the-fresh-hash", "property:C09", returns_entry_of_this_key_or_fresh),
            ("calculates-only-after-a-miss-in-memo-and-file", "auxiliary", calculates_only_on_miss),
        ],
        min_paths=4,
        trusted=["self._hashes[key] raises KeyError exactly on a miss; pathlib read_bytes/write_bytes read and write the given path; blake2b(str(key)) is a function of the key"],
    )
