"""Sidecar contracts for the pickling hooks (C29): Job / Submitter / Worker / Result `__getstate__` and `__setstate__`.

What is proved, on every path of the real functions (effect traces; every call may raise):

* FRAME of `__getstate__`: the state handed to pickle is a COPY (`self.__dict__.copy()`, `attrs.asdict(self, recurse=False)`,
  `attrs_values(self)`) in which exactly the named entries are replaced -- `task` by `cp.dumps(<the copy's own task>)` (Job),
  `loop` by None (Submitter, Worker), each non-None CLOUD_PICKLE attribute by `cp.dumps(<its own value>)` (Result) -- and
  the live object is not written.
* FRAME of `__setstate__`: exactly the inverse replacement (`cp.loads` of the entry that `cp.dumps` produced, with the same
  None guard), then every entry of the state is installed on the object (`self.__dict__.update(state)` / one `setattr` per
  item), and only afterwards the process-local members (event loop) are re-created.
* LEMMA (z3, arrays): given the two frames and the axiom cp.loads(cp.dumps(x)) == x, the dictionary installed by
  `__setstate__(__getstate__(d))` equals d on every key (Job), and equals d except `loop` (Submitter, Worker).

cp.dumps / cp.loads themselves, pickle's protocol around the hooks and the equality of the unpickled members are the
bounded part of C29 (fresh interpreters)."""
import z3

from pyvc.engine import NONE_U, U, Unsupported, eq, is_z3, to_U, z3_and, truthy_U
from pyvc.verify import Contract


def _same(a, b):
    if a is None or b is None:
        return a is None and b is None
    if isinstance(a, (str, bool, int)) or isinstance(b, (str, bool, int)):
        return a == b if type(a) is type(b) else False
    return to_U(a) == to_U(b)


def _names(tr):
    return [e.name for e in tr]


def _shape(tr, expected):
    """the frame clauses are SUFFICIENT conditions for the round trip, written for one sequence of effects; a function whose
    sequence of effects differs (an extra entry reset, another helper) is not thereby wrong: the contract is out of date and
    the verdict is UNDECIDED (the bounded part of C29 decides natively), never a violation"""
    raise Unsupported(f"pickling frame changed: effects {_names(tr)} instead of {expected} (contract out of date)")


def _self(st):
    return st.env["__entry__"]["self"] if "__entry__" in st.env else st.env["self"]


def _entry(st, n):
    return st.env["__entry__"][n] if "__entry__" in st.env else st.env[n]


def _dict_of_self(E, st):
    return E.eval_spec_value("self.__dict__", st, {})


# ------------------------------------------------------------------------------------------------ Job
def job_getstate():
    def frame(E, st, out):
        tr = st.trace
        if _names(tr) != ["self.__dict__.copy", "__getitem__", "cp.dumps", "setitem"]:
            _shape(tr, ["self.__dict__.copy", "__getitem__", "cp.dumps", "setitem"])
        cp_, get, dumps, store = tr
        return z3_and(
            _same(cp_.args[0], _dict_of_self(E, st)),  # the copy is taken from the live __dict__ ...
            _same(out.val, cp_.ret),  # ... and it is the copy that is returned
            _same(get.args[0], cp_.ret),
            get.args[1] == "task",
            _same(dumps.args[0], get.ret),  # what is serialised is the copy's own task
            _same(store.args[0], cp_.ret),  # the only entry replaced is `task`, in the copy
            store.args[1] == "task",
            _same(store.args[2], dumps.ret),
        )

    return Contract(
        file="pydra/engine/job.py",
        qualname="Job.__getstate__",
        params={"self": "U"},
        default_effects=True,
        attrs={"__dict__": {"kind": "U"}},
        ensures=[("state-is-a-copy-with-only-task-replaced-by-its-serialisation", "property:C29", frame)],
        min_paths=2,
        trusted=["dict.copy() returns a new dict with the same entries (shallow)"],
    )


def job_setstate():
    def frame(E, st, out):
        if out.kind == "raise":
            return True
        tr = st.trace
        if _names(tr) != ["__getitem__", "cp.loads", "setitem", "self.__dict__.update"]:
            _shape(tr, ["__getitem__", "cp.loads", "setitem", "self.__dict__.update"])
        get, loads, store, upd = tr
        state = _entry(st, "state")
        return z3_and(
            _same(get.args[0], state),
            get.args[1] == "task",
            _same(loads.args[0], get.ret),
            _same(store.args[0], state),
            store.args[1] == "task",
            _same(store.args[2], loads.ret),
            _same(upd.args[0], _dict_of_self(E, st)),  # every entry of the state is installed on the job, after task was restored
            _same(upd.args[1], state),
        )

    return Contract(
        file="pydra/engine/job.py",
        qualname="Job.__setstate__",
        params={"self": "U", "state": "U"},
        default_effects=True,
        attrs={"__dict__": {"kind": "U"}},
        exits=[("task-deserialised-then-every-entry-installed", "property:C29", frame)],
        min_paths=2,
        trusted=["dict.update(d) installs every entry of d"],
    )


# ------------------------------------------------------------------------------------------------ Submitter
def submitter_getstate():
    def frame(E, st, out):
        tr = st.trace
        if _names(tr) != ["self.__dict__.copy", "setitem"]:
            _shape(tr, ["self.__dict__.copy", "setitem"])
        cp_, store = tr
        return z3_and(
            _same(cp_.args[0], _dict_of_self(E, st)),
            _same(out.val, cp_.ret),
            _same(store.args[0], cp_.ret),
            store.args[1] == "loop",
            store.args[2] is None,
        )

    return Contract(
        file="pydra/engine/submitter.py",
        qualname="Submitter.__getstate__",
        params={"self": "U"},
        default_effects=True,
        attrs={"__dict__": {"kind": "U"}},
        ensures=[("state-is-a-copy-with-only-the-event-loop-dropped", "property:C29", frame)],
        min_paths=2,
        trusted=["dict.copy() returns a new dict with the same entries (shallow)"],
    )


def submitter_setstate():
    def frame(E, st, out):
        if out.kind == "raise":
            return True
        tr = st.trace
        if _names(tr) != ["self.__dict__.update", "get_open_loop", "setattr", "setattr"]:
            _shape(tr, ["self.__dict__.update", "get_open_loop", "setattr", "setattr"])
        upd, gol, s1, s2 = tr
        self_ = _self(st)
        worker = E.eval_spec_value("self.worker", st, {})
        return z3_and(
            _same(upd.args[0], _dict_of_self(E, st)),  # every entry is installed first (worker, cache_root, limits, ...)
            _same(upd.args[1], _entry(st, "state")),
            _same(s1.args[0], self_),
            s1.args[1] == "loop",
            _same(s1.args[2], gol.ret),  # then a usable loop of THIS process is attached to the submitter ...
            _same(s2.args[0], worker),
            s2.args[1] == "loop",
            _same(s2.args[2], gol.ret),  # ... and the same loop to its worker
        )

    return Contract(
        file="pydra/engine/submitter.py",
        qualname="Submitter.__setstate__",
        params={"self": "U", "state": "U"},
        default_effects=True,
        attrs={"__dict__": {"kind": "U"}, "worker": {"kind": "U"}, "loop": {"kind": "U"}},
        exits=[("every-entry-installed-then-loop-restored-on-submitter-and-worker", "property:C29", frame)],
        min_paths=2,
        trusted=["dict.update(d) installs every entry of d", "self.worker read after the update is the worker that travelled in the state"],
    )


# ------------------------------------------------------------------------------------------------ Worker
def worker_getstate():
    def frame(E, st, out):
        tr = st.trace
        if _names(tr) != ["attrs.asdict", "setitem"]:
            _shape(tr, ["attrs.asdict", "setitem"])
        asd, store = tr
        rec = asd.kwargs.get("recurse")
        return z3_and(
            _same(asd.args[0], _self(st)),
            rec is False,  # members are kept as objects (not flattened into dicts)
            _same(out.val, asd.ret),
            _same(store.args[0], asd.ret),
            store.args[1] == "loop",
            store.args[2] is None,
        )

    return Contract(
        file="pydra/workers/base.py",
        qualname="Worker.__getstate__",
        params={"self": "U"},
        default_effects=True,
        ensures=[("state-is-the-attrs-dict-with-only-the-event-loop-dropped", "property:C29", frame)],
        min_paths=2,
        trusted=["attrs.asdict(self, recurse=False) returns a new dict of every attrs field of the worker"],
    )


def _one_setattr_per_item(E, st, events):
    if _names(events) != ["setattr"]:
        _shape(events, ["setattr"])
    e = events[0]
    elem = st.ghost["_iter_elem"]
    i0 = z3.Function("item0", U, U)(to_U(elem))
    i1 = z3.Function("item1", U, U)(to_U(elem))
    return z3_and(_same(e.args[0], _self(st)), _same(e.args[1], i0), _same(e.args[2], i1))


def worker_setstate():
    def frame(E, st, out):
        if out.kind == "raise":
            return True
        tr = st.trace
        # after the loop: the last write resets the loop; nothing else is written after the items were installed
        tail = [e for e in tr if e.name in ("setattr", "setitem")]
        if not tail or _names(tr)[0] != "state.items":
            _shape(tr, ["state.items", "...", "setattr"])
        last = tail[-1]
        return z3_and(_same(tr[0].args[0], _entry(st, "state")), _same(last.args[0], _self(st)), last.args[1] == "loop", last.args[2] is None)

    return Contract(
        file="pydra/workers/base.py",
        qualname="Worker.__setstate__",
        params={"self": "U", "state": "U"},
        default_effects=True,
        loops={"state.items()": {"invariants": [], "iteration_ensures": [("each-state-item-installed-as-its-own-attribute", "property:C29", _one_setattr_per_item)]}},
        exits=[("items-of-the-given-state-installed-then-loop-reset", "property:C29", frame)],
        min_paths=2,
        trusted=["dict.items() enumerates every entry once"],
    )


# ------------------------------------------------------------------------------------------------ Result
def _codec_iteration(codec, lenient=False):
    """per CLOUD_PICKLE attribute: untouched iff its entry is None, else replaced by codec(<its own entry>)"""

    def clause(E, st, events):
        attr = st.ghost["_iter_elem"]
        names = _names(events)
        reads = [e for e in events if e.name == "__getitem__"]
        if names == ["__getitem__"]:
            # nothing replaced: only when the entry is None (on the way back also when it is falsy: cp.dumps never produces
            # a falsy value, so `if state[attr]:` and `if state[attr] is not None:` agree there)
            none = eq(reads[0].ret, None)
            if lenient and is_z3(reads[0].ret):
                return z3.Or(none, z3.Not(truthy_U(to_U(reads[0].ret))))
            return none
        if names != ["__getitem__", "__getitem__", codec, "setitem"]:
            _shape(events, ["__getitem__", "__getitem__", codec, "setitem"])
        g1, g2, cod, store = events
        return z3_and(
            _same(g1.args[0], g2.args[0]),
            _same(g1.args[1], attr),
            _same(g2.args[1], attr),
            _same(cod.args[0], g2.ret),
            _same(store.args[0], g1.args[0]),
            _same(store.args[1], attr),
            _same(store.args[2], cod.ret),
            z3.Not(eq(g1.ret, None)) if is_z3(eq(g1.ret, None)) else (not eq(g1.ret, None)),
        )

    return clause


def result_getstate():
    def frame(E, st, out):
        tr = st.trace
        if not tr or tr[0].name != "attrs_values":
            _shape(tr, ["attrs_values", "..."])
        return z3_and(_same(tr[0].args[0], _self(st)), _same(out.val, tr[0].ret))

    return Contract(
        file="pydra/engine/result.py",
        qualname="Result.__getstate__",
        params={"self": "U"},
        default_effects=True,
        attrs={"CLOUD_PICKLE_ATTRS": {"kind": "U"}},
        loops={"self.CLOUD_PICKLE_ATTRS": {"invariants": [], "iteration_ensures": [("attribute-serialised-iff-not-None-from-its-own-entry", "property:C29", _codec_iteration("cp.dumps"))]}},
        ensures=[("state-is-the-attrs-values-dict-of-the-result", "property:C29", frame)],
        min_paths=2,
        trusted=["attrs_values(self) returns a new dict of every attrs field of the result"],
    )


def result_setstate():
    return Contract(
        file="pydra/engine/result.py",
        qualname="Result.__setstate__",
        params={"self": "U", "state": "U"},
        default_effects=True,
        attrs={"CLOUD_PICKLE_ATTRS": {"kind": "U"}},
        loops={
            "self.CLOUD_PICKLE_ATTRS": {"invariants": [], "iteration_ensures": [("attribute-deserialised-iff-not-None-from-its-own-entry", "property:C29", _codec_iteration("cp.loads", lenient=True))]},
            "state.items()": {"invariants": [], "iteration_ensures": [("each-state-item-installed-as-its-own-attribute", "property:C29", _one_setattr_per_item)]},
        },
        min_paths=2,
        trusted=["dict.items() enumerates every entry once"],
    )


ALL = [job_getstate, job_setstate, submitter_getstate, submitter_setstate, worker_getstate, worker_setstate, result_getstate, result_setstate]


# ------------------------------------------------------------------------------------------------ round-trip lemmas
def roundtrip_lemmas():
    """-> [(name, z3 goal, premises text)]: consequences of the frames above + cp.loads(cp.dumps(x)) == x, in the theory of arrays
    (a dict is an array key -> value; `update` into the dict of a freshly allocated object installs exactly the given entries)"""
    K = z3.DeclareSort("Key")
    V = z3.DeclareSort("Val")
    D = z3.Const("d", z3.ArraySort(K, V))
    task, loop, k = z3.Const("task", K), z3.Const("loop", K), z3.Const("k", K)
    none = z3.Const("none", V)
    dumps, loads = z3.Function("cp_dumps", V, V), z3.Function("cp_loads", V, V)
    x = z3.Const("x", V)
    ax = z3.ForAll([x], loads(dumps(x)) == x)
    out = []
    # Job: getstate frame S = d[task := dumps(d[task])]; setstate frame d' = S[task := loads(S[task])]
    S = z3.Store(D, task, dumps(z3.Select(D, task)))
    D2 = z3.Store(S, task, loads(z3.Select(S, task)))
    out.append(("Job.roundtrip-restores-every-entry", z3.Implies(ax, D2 == D), "Job.__getstate__ frame, Job.__setstate__ frame, cp.loads(cp.dumps(x)) == x"))
    # Submitter / Worker: S = d[loop := None]; installed unchanged; only `loop` may differ afterwards
    S2 = z3.Store(D, loop, none)
    out.append(("Submitter-Worker.roundtrip-restores-every-entry-but-loop", z3.ForAll([k], z3.Implies(k != loop, z3.Select(S2, k) == z3.Select(D, k))), "Submitter/Worker __getstate__ and __setstate__ frames"))
    # Result: for one CLOUD_PICKLE attribute a: S = d[a := dumps(d[a])] if d[a] != None else d; the same guard on the way back.
    # dumps(v) is a bytes object, never None (trusted), so the guards agree
    a = z3.Const("a", K)
    S3 = z3.If(z3.Select(D, a) != none, z3.Store(D, a, dumps(z3.Select(D, a))), D)
    D3 = z3.If(z3.Select(S3, a) != none, z3.Store(S3, a, loads(z3.Select(S3, a))), S3)
    bytes_not_none = z3.ForAll([x], dumps(x) != none)
    out.append(("Result.roundtrip-restores-every-entry", z3.Implies(z3.And(ax, bytes_not_none), D3 == D), "Result.__getstate__ / __setstate__ per-attribute frames, cp.loads(cp.dumps(x)) == x, cp.dumps never returns None"))
    return out
