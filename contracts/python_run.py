"""Sidecar contract for pydra.compose.python:PythonTask._run (C13): a Python task whose return value
does not provide every mandatory declared output is reported as failed."""
import z3

from pyvc.engine import NONE_U, U, is_z3, z3_and, z3_or, z3_not
from pyvc.verify import Contract


def contract():
    return Contract(
        file="pydra/compose/python.py",
        qualname="PythonTask._run",
        params={"self": "U", "job": "U", "rerun": "U"},
        default_effects=True,
        callees={
            "asdict": {"kind": "effect", "may_raise": False},
            "get_fields": {"kind": "pure", "name": "get_fields"},
            "isinstance": {"kind": "pure", "name": "isinstance", "returns": "Bool"},
            "zip": {"kind": "pure", "name": "zip"},
            "list": {"kind": "pure", "name": "list"},
        },
        attrs={"Outputs": {"kind": "U"}, "name": {"kind": "U"}, "mandatory": {"kind": "U"}, "return_values": {"kind": "U"}, "function": {"kind": "U"}},
        seq_kinds={"return_names": "U"},
        ensures=[
            (
                # the dict form is the one that can silently omit outputs: normal return with a dict
                # (and >= 2 declared outputs) only if no mandatory declared output is missing from it
                "dict-return-provides-every-mandatory-output",
                "property:C13",
                "implies(returned is not None and len(return_names) != 1 and bool(return_names) and not (isinstance(returned, tuple) and len(return_names) == len(returned)) and isinstance(returned, dict),"
                " forall(lambda j: implies(bool(item(get_fields(self.Outputs), j).mandatory), item(get_fields(self.Outputs), j).name in returned), 0, len_U(get_fields(self.Outputs))))",
            ),
            (
                # every other shape is either one of the complete forms or an error
                "other-shapes-are-complete-or-rejected",
                "property:C13",
                "returned is None or len(return_names) == 1 or (isinstance(returned, tuple) and len(return_names) == len(returned)) or isinstance(returned, dict)",
            ),
        ],
        min_paths=5,
        trusted=["return_names is the list of names of get_fields(self.Outputs); len(), isinstance() are pure"],
    )
