"""Sidecar contract for pydra.compose.shell.builder:remaining_positions (C25), first phase: which positions count as taken.
Per argument of the template (an arbitrary one): it is entered into the table of occupied positions exactly once, under its
own position when that is non-negative and under `num_args + position` when it is negative (counted from the end); it is
left out only if it is the `append_args` pseudo-field or has no explicit position.  The table handed to the two later
phases (duplicate detection, enumeration of the free positions -- both uninterpreted comprehensions here, bounded part of
C25) therefore holds every explicitly positioned argument under its absolute position."""
import z3

from pyvc.engine import Unsupported, eq, is_z3, to_U, z3_and, z3_not
from pyvc.verify import Contract


def contract():
    def positioned_argument_occupies_its_absolute_position(E, st, events):
        evs = [e for e in events if not e.raised]
        arg = st.ghost["_iter_elem"]
        x = {"_a": arg}
        if not evs:
            skip = [E.eval_spec("_a.name == 'append_args'", st, x), E.eval_spec("_a.position is None", st, x)]
            return z3.Or(*[s if is_z3(s) else z3.BoolVal(bool(s)) for s in skip])
        if [e.name.rsplit(".", 1)[-1] for e in evs] != ["__getitem__", "append"]:
            raise Unsupported(f"remaining_positions: loop effects {[e.name for e in evs]} (contract out of date)")
        get, app = evs
        nonneg = E.eval_spec("_a.position >= 0", st, x)
        pos = E.eval_spec_value("_a.position", st, x)
        from_end = E.eval_spec_value("num_args + _a.position", st, x)
        key = to_U(get.args[1])
        right_key = z3.Or(z3.And(nonneg, key == to_U(pos)), z3.And(z3.Not(nonneg), key == to_U(from_end)))
        return z3_and(
            right_key,
            to_U(app.args[0]) == to_U(get.ret),  # appended to the bucket of that very position
            to_U(app.args[1]) == to_U(arg),
            z3_not(E.eval_spec("_a.name == 'append_args'", st, x)),
            z3_not(E.eval_spec("_a.position is None", st, x)),
        )

    return Contract(
        file="pydra/compose/shell/builder.py",
        qualname="remaining_positions",
        params={"args": ("Seq", "U"), "num_args": "Int", "start": "Int", "xor": "U"},
        default_effects=True,
        attrs={"name": {"kind": "U"}, "position": {"kind": "U"}},
        loops={0: {"invariants": [], "iteration_ensures": [("positioned-argument-occupies-its-absolute-position", "property:C25", positioned_argument_occupies_its_absolute_position)]}},
        min_paths=2,
        trusted=[
            "defaultdict(list)[k] returns the bucket of k (created empty on first use)",
            "num_args is given (the `None` default, len(args) - 1, is not explored: the parameter is an integer here)",
            "the duplicate check and the enumeration `[i for i in range(start, num_args) if i not in positions]` are not interpreted (bounded part of C25)",
        ],
    )
