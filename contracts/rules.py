"""Sidecar contracts for the requirement rules (C31):
pydra.compose.base.field:Requirement.satisfied, RequirementSet.satisfied."""
from pyvc.verify import Contract

FILE = "pydra/compose/base/field.py"


def requirement_contract():
    return Contract(
        file=FILE,
        qualname="Requirement.satisfied",
        params={"self": "U", "inputs": "U"},
        callees={
            "getattr": {"kind": "pure", "name": "getattr"},
            "get_fields": {"kind": "pure", "name": "get_fields"},
        },
        attrs={
            "name": {"kind": "U"},
            "allowed_values": {"kind": "U"},
            "type": {"kind": "U"},
            "__getitem__:{f.name: f for f in get_fields(inputs)}": {"pure": True},
        },
        ensures=[
            # from the property text: the required field must be SET (None / False-for-a-flag is unset) ...
            ("unset-field-never-satisfies", "property:C31", "implies(value is None or value is False, result is False)"),
            # ... to an allowed value where allowed values are given
            ("allowed-values-respected", "property:C31", "implies(self.allowed_values is not None and not (value in self.allowed_values), not result)"),
            ("set-and-allowed-satisfies", "property:C31", "implies(not (value is None) and not (value is False) and (self.allowed_values is None or value in self.allowed_values), bool(result))"),
        ],
        allow_raise=False,
        trusted=["getattr(inputs, name) and get_fields(inputs) are pure reads; the name->field dictionary contains self.name (checked by Task._check_arg_refs at class construction)"],
    )


def requirement_set_contract():
    return Contract(
        file=FILE,
        qualname="RequirementSet.satisfied",
        params={"self": "U", "inputs": "U"},
        callees={".satisfied": {"kind": "pure", "name": "req_satisfied", "returns": "Bool"}, "req_satisfied": {"kind": "pure", "name": "req_satisfied", "returns": "Bool"}},
        attrs={"requirements": {"kind": "U"}},
        ensures=[
            ("all-requirements-of-the-set", "property:C31", "result == forall(lambda j: req_satisfied(item(self.requirements, j), inputs), 0, len(self.requirements))"),
        ],
        allow_raise=False,
    )


TASK_FILE = "pydra/compose/base/task.py"

# the per-field rule, restated from the property text (C31): a field is fine iff it is lazy, or
#   (mandatory) it has a value, a path template or is read-only, and
#   (requirements) if it is set (not None / False / `True` on an optional file field, which
#   stands for "use the default") and has requirements, at least one requirement set is satisfied
FIELD_OK = (
    "is_lazy(self[item(get_fields(self), j).name]) or ("
    " not (self[item(get_fields(self), j).name] is attrs.NOTHING and not getattr(item(get_fields(self), j), 'path_template', False) and not item(get_fields(self), j).readonly)"
    " and implies("
    "   not (self[item(get_fields(self), j).name] is None or self[item(get_fields(self), j).name] is False"
    "        or (is_optional(item(get_fields(self), j).type) and is_fileset_or_union(item(get_fields(self), j).type) and self[item(get_fields(self), j).name] is True))"
    "   and bool(item(get_fields(self), j).requires),"
    "   exists(lambda r: rs_satisfied(item(item(get_fields(self), j).requires, r), self), 0, len(item(get_fields(self), j).requires))))"
)


def rule_violations_contract():
    inv = f"implies(len(errors) == 0, forall(lambda j: {FIELD_OK}, 0, _k))"
    inv_all = f"implies(len(errors) == 0, forall(lambda j: {FIELD_OK}, 0, len(get_fields(self))))"
    return Contract(
        file=TASK_FILE,
        qualname="Task._rule_violations",
        params={"self": "U"},
        callees={
            "get_fields": {"kind": "pure", "name": "get_fields"},
            "is_lazy": {"kind": "pure", "name": "is_lazy", "returns": "Bool"},
            "is_optional": {"kind": "pure", "name": "is_optional", "returns": "Bool"},
            "is_fileset_or_union": {"kind": "pure", "name": "is_fileset_or_union", "returns": "Bool"},
            ".satisfied": {"kind": "pure", "name": "rs_satisfied", "returns": "Bool"},
            "rs_satisfied": {"kind": "pure", "name": "rs_satisfied", "returns": "Bool"},
            "sorted": {"kind": "pure", "name": "sorted"},
            ".join": {"kind": "pure", "name": "join", "returns": "Str"},
            ".items": {"kind": "pure", "name": "items"},
            "str": {"kind": "pure", "name": "strof", "returns": "Str"},
        },
        attrs={
            "name": {"kind": "U"},
            "type": {"kind": "U"},
            "requires": {"kind": "U"},
            "readonly": {"kind": "U"},
            "_xor": {"kind": "U"},
            "__getitem__:self": {"pure": True},
        },
        globals_={"attrs.NOTHING": __import__("pyvc.engine", fromlist=["NOTHING_U"]).NOTHING_U},
        seq_kinds={"errors": "Str"},
        loops={
            0: {"invariants": [("no-error-so-far-means-every-field-so-far-is-fine", inv)]},
            1: {"invariants": [("field-errors-are-kept", inv_all)]},
        },
        ensures=[("empty-result-means-every-field-rule-holds", "property:C31", f"implies(len(result) == 0, forall(lambda j: {FIELD_OK}, 0, len(get_fields(self))))")],
        allow_raise=False,
        trusted=[
            "get_fields(self), self[name], is_lazy, is_optional, is_fileset_or_union, RequirementSet.satisfied are pure reads (RequirementSet.satisfied and Requirement.satisfied are verified separately)",
            "the mutual-exclusion loop only appends to `errors` (its own rule is checked bounded, not deductively)",
        ],
    )


def check_rules_contract():
    def returns_only_without_violations(E, st, out):
        rv = [e for e in st.trace if e.name == "self._rule_violations" and not e.raised]
        if not rv:
            return False
        return E.truthy(st, rv[-1].ret) == False if isinstance(E.truthy(st, rv[-1].ret), bool) else __import__("z3").Not(E.truthy(st, rv[-1].ret))

    return Contract(
        file=TASK_FILE,
        qualname="Task._check_rules",
        params={"self": "U"},
        default_effects=True,
        ensures=[("returns-only-if-no-violation-is-listed", "property:C31", returns_only_without_violations)],
        min_paths=2,
    )


def job_init_contract():
    def rules_checked_first(E, st, out):
        """on every exit: nothing is stored on the job and no other effect happens before
        task._check_rules() has returned normally"""
        names = [(e.name, e.raised) for e in st.trace]
        try:
            i = next(k for k, (n, r) in enumerate(names) if n == "task._check_rules" and not r)
        except StopIteration:
            # _check_rules never returned normally: then no attribute may have been set at all
            return not any(n == "setattr" for n, _ in names) and out.kind == "raise"
        before = [n for n, _ in names[:i]]
        return all(n in ("task._check_resolved", "isinstance") for n in before)

    return Contract(
        file="pydra/engine/job.py",
        qualname="Job.__init__",
        params={"self": "U", "task": "U", "submitter": "U", "name": "U", "environment": "U", "state_index": "U", "hooks": "U"},
        default_effects=True,
        callees={"isinstance": {"kind": "pure", "name": "isinstance", "returns": "Bool"}, "uuid4": {"kind": "effect", "may_raise": False}, "TaskHooks": {"kind": "pure"}},
        attrs={"_input_sets": {"kind": "U"}},
        exits=[("rules-are-checked-before-anything-else", "property:C31", rules_checked_first)],
        min_paths=3,
    )
