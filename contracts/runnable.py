"""Sidecar contract for pydra.engine.submitter:Submitter.get_runnable_tasks (C16):
one call never hands out more than max_concurrent jobs."""
from pyvc.verify import Contract


def contract():
    return Contract(
        file="pydra/engine/submitter.py",
        qualname="Submitter.get_runnable_tasks",
        params={"self": "U", "graph": "U"},
        default_effects=True,
        callees={"set": {"kind": "pure", "name": "set"}},
        attrs={"max_concurrent": {"kind": "Int"}, "sorted_nodes": {"kind": "U"}, "predecessors": {"kind": "U"}, "name": {"kind": "U"}, "done": {"kind": "U"}, "started": {"kind": "U"}},
        requires=[("limit-positive", "self.max_concurrent >= 1")],
        seq_kinds={"tasks": "U"},
        loops={0: {"invariants": []}},
        ensures=[("at-most-max_concurrent-jobs-per-call", "property:C16", "len(result) <= self.max_concurrent")],
        min_paths=2,
        trusted=["max_concurrent is modelled as an integer (float('inf') means no limit and is not modelled)"],
    )


def node_contract(pid="C15"):
    """NodeExecution.get_runnable_tasks: jobs are released only when every predecessor node is done
    and none is errored or unrunnable"""
    return Contract(
        file="pydra/engine/submitter.py",
        qualname="NodeExecution.get_runnable_tasks",
        params={"self": "U", "graph": "U"},
        default_effects=True,
        attrs={
            "node": {"kind": "U"}, "name": {"kind": "U"}, "predecessors": {"kind": "U"}, "done": {"kind": "U"}, "errored": {"kind": "U"},
            "unrunnable": {"kind": "U"}, "started": {"kind": "U"}, "blocked": {"kind": "U"}, "state": {"kind": "U"}, "states_ind": {"kind": "U"},
            "queued": {"kind": "U"}, "__getitem__:graph.predecessors": {"pure": True},
        },
        callees={"len": {"kind": "pure", "name": "len_of", "returns": "Int"}},
        seq_kinds={"runnable": "U", "inds": "Int"},
        loops={0: {"invariants": []}},
        ensures=[
            (
                "jobs-released-only-after-all-predecessors-succeeded",
                f"property:{pid}",
                "implies(bool(runnable), forall(lambda j: bool(item(predecessors, j).done) and not (item(predecessors, j).errored or item(predecessors, j).unrunnable), 0, len_U(predecessors)))",
            )
        ],
        min_paths=3,
        trusted=["p.done / p.errored / p.unrunnable of a predecessor are stable observations during one call"],
    )


def update_status_contract(pid="C14"):
    """NodeExecution.update_status never raises: Job.done reports an errored result by raising
    ValueError (contracts/job_done.py), which update_status has to absorb for queued AND running jobs"""
    return Contract(
        file="pydra/engine/submitter.py",
        qualname="NodeExecution.update_status",
        params={"self": "U"},
        default_effects=False,
        callees={
            "list": {"kind": "pure", "name": "list"},
            ".items": {"kind": "pure", "name": "items"},
            ".pop": {"kind": "effect", "may_raise": False},
        },
        attrs={
            "started": {"kind": "U"}, "queued": {"kind": "U"}, "running": {"kind": "U"}, "successful": {"kind": "U"}, "errored": {"kind": "U"},
            "state_index": {"kind": "U"}, "run_start_time": {"kind": "U"},
            "done": {"effect": True, "may_raise": True, "raises": "ValueError", "kind": "U"},
            "__getitem__:self.running.pop(index)": {"pure": True},
        },
        loops={0: {"invariants": []}, 1: {"invariants": []}},
        allow_raise=False,
        no_raise_role=f"property:{pid}",
        min_paths=2,
        trusted=["Job.done raises only ValueError (for an errored result); Job.errored and Job.run_start_time do not raise; dict item assignment and pop of an existing key do not raise"],
    )
