"""Sidecar contract for pydra.engine.submitter:Submitter.get_runnable_tasks (C16):
one call never hands out more than max_concurrent jobs."""
from pyvc.verify import Contract


def contract():
    return Contract(
        file="pydra/engine/submitter.py",
        qualname="Submitter.get_runnable_tasks",
        params={"self": "U", "graph": "U"},
        default_effects=True,
        callees={"set": {"kind": "pure", "name": "set"}},
        attrs={"max_concurrent": {"kind": "Int"}, "sorted_nodes": {"kind": "U"}, "predecessors": {"kind": "U"}, "name": {"kind": "U"}, "done": {"kind": "U"}, "started": {"kind": "U"}},
        requires=[("limit-positive", "self.max_concurrent >= 1")],
        seq_kinds={"tasks": "U"},
        loops={0: {"invariants": []}},
        ensures=[("at-most-max_concurrent-jobs-per-call", "property:C16", "len(result) <= self.max_concurrent")],
        min_paths=2,
        trusted=["max_concurrent is modelled as an integer (float('inf') means no limit and is not modelled)"],
    )


def node_contract(pid="C15"):
    """NodeExecution.get_runnable_tasks: jobs are released only when every predecessor node is done
    and none is errored or unrunnable"""
    return Contract(
        file="pydra/engine/submitter.py",
        qualname="NodeExecution.get_runnable_tasks",
        params={"self": "U", "graph": "U"},
        default_effects=True,
        attrs={
            "node": {"kind": "U"}, "name": {"kind": "U"}, "predecessors": {"kind": "U"}, "done": {"kind": "U"}, "errored": {"kind": "U"},
            "unrunnable": {"kind": "U"}, "started": {"kind": "U"}, "blocked": {"kind": "U"}, "state": {"kind": "U"}, "states_ind": {"kind": "U"},
            "queued": {"kind": "U"}, "__getitem__:graph.predecessors": {"pure": True},
        },
        callees={"len": {"kind": "pure", "name": "len_of", "returns": "Int"}},
        seq_kinds={"runnable": "U", "inds": "Int"},
        loops={0: {"invariants": []}},
        ensures=[
            (
                "jobs-released-only-after-all-predecessors-succeeded",
                f"property:{pid}",
                "implies(bool(runnable), forall(lambda j: bool(item(predecessors, j).done) and not (item(predecessors, j).errored or item(predecessors, j).unrunnable), 0, len_U(predecessors)))",
            )
        ],
        min_paths=3,
        trusted=["p.done / p.errored / p.unrunnable of a predecessor are stable observations during one call"],
    )
