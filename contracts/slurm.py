"""Sidecar contract for pydra.workers.slurm:SlurmWorker._verify_exit_code (C28): the worker follows the
scheduler's verdict as read from `sacct`."""
from pyvc.verify import Contract

OKAY = "(m.group('status') == 'COMPLETED' and int(m.group('exit_code')) == 0)"


def verify_exit_code_contract():
    return Contract(
        file="pydra/workers/slurm.py",
        qualname="SlurmWorker._verify_exit_code",
        params={"self": "U", "jobid": "U"},
        default_effects=True,
        callees={
            ".group": {"kind": "pure", "name": "group"},
            "int": {"kind": "pure", "name": "int_of", "returns": "Int"},
            "self._sacct_re.search": {"kind": "pure", "name": "sacct_search"},
        },
        attrs={"error": {"kind": "U"}, "_sacct_re": {"kind": "U"}, "__getitem__:self.error": {"pure": True}},
        ensures=[
            ("complete-only-when-the-scheduler-says-COMPLETED-with-exit-code-0", "property:C28", f"implies(result is True, {OKAY})"),
            ("successful-completion-is-reported-complete", "property:C28", f"implies({OKAY}, result is True)"),
            ("cancel-timeout-preemption-are-handed-back-for-requeue-not-failed", "property:C28", f"implies(not {OKAY} and (m.group('status') == 'CANCELLED' or m.group('status') == 'TIMEOUT' or m.group('status') == 'PREEMPTED'), result == m.group('status'))"),
            ("pending-or-running-is-not-a-verdict", "property:C28", f"implies(not {OKAY} and not (m.group('status') == 'CANCELLED' or m.group('status') == 'TIMEOUT' or m.group('status') == 'PREEMPTED') and (m.group('status') == 'RUNNING' or m.group('status') == 'PENDING'), result is False)"),
        ],
        min_paths=5,
        trusted=["the sacct regular expression extracts status and exit_code of the job (exercised bounded); a failure verdict is reported by raising (after reading the error file)"],
    )
