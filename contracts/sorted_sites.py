"""Call-site preconditions of `sorted` (C07, C08): `sorted` needs a TOTAL order on its elements;
on a partial order (frozensets, NaN) or across types its result depends on the iteration order of
the argument, i.e. on the interpreter's hash seed.  Every `sorted(...)` call site in the hashing
code is an obligation: the element type must be one with a total `<`.  The element type is
inferred syntactically from the argument expression; anything not recognised is not discharged."""
import ast

from pyvc.extract import parse_file

SITES = {
    # (file, function): scanned for sorted() calls
    ("pydra/utils/hash.py", "bytes_repr_fileset"),
    ("pydra/utils/hash.py", "bytes_repr_set"),
    ("pydra/utils/hash.py", "bytes_repr_mapping_contents"),
    ("pydra/compose/base/task.py", "Task._compute_hashes"),
}


def element_kind(arg):
    """-> (kind, total?) for the argument expression of sorted()"""
    if isinstance(arg, ast.GeneratorExp):
        elt = arg.elt
        if isinstance(elt, ast.Call) and isinstance(elt.func, ast.Name) and elt.func.id == "bytes":
            return "bytes (hash digests)", True
        if isinstance(elt, ast.Attribute) and elt.attr == "name":
            return "str (field names)", True
        return f"elements `{ast.unparse(elt)}` of unknown type", False
    src = ast.unparse(arg)
    if src == "fileset.fspaths":
        return "pathlib paths of one file-set (PurePath defines a total order)", True
    if src == "field_hashes.items()":
        return "(field name: str, digest: bytes) pairs with distinct names", True
    return f"`{src}`: elements of arbitrary type", False


def obligations():
    """-> list of (id, goal_text, discharged: bool, detail)"""
    out = []
    for file, qual in sorted(SITES):
        src, tree = parse_file(file)
        node = tree
        for part in qual.split("."):
            node = next(n for n in ast.walk(node) if isinstance(n, (ast.FunctionDef, ast.ClassDef)) and n.name == part)
        n = 0
        for sub in ast.walk(node):
            if isinstance(sub, ast.Call) and isinstance(sub.func, ast.Name) and sub.func.id == "sorted" and sub.args:
                kind, total = element_kind(sub.args[0])
                out.append((f"{qual}.callee-pre.sorted.total-order.{n}", f"sorted({ast.unparse(sub.args[0])}) at line {sub.lineno}: {kind}", total, {"file": file, "function": qual, "line": sub.lineno, "argument": ast.unparse(sub.args[0])}))
                n += 1
    return out
