"""Sidecar contract for pydra.compose.base.task:Task.split (C05): a split request that names a splitter is accepted (normal
return) only if the fields given values are EXACTLY the splitter's own fields -- on every path.  With A = the set built
from the unwrapped splitter (own, non-upstream names) and B = set(inputs): every normal-return path that took the splitter
branch implies len(A - B) == 0 and len(B - A) == 0.  `unwrap_splitter`, set construction and set difference are
uninterpreted (any model of them), so the clause is about the control flow of the two guards, whatever the sets contain."""
import z3

from pyvc.engine import LazyComp, Unsupported, is_z3, to_U, z3_and
from pyvc.verify import Contract


def contract():
    def values_exactly_for_the_splitter_fields(E, st, out):
        tr = [e for e in st.trace if not e.raised]
        if not any(e.name == "unwrap_splitter" for e in tr):
            # the `else` branch: no splitter given, the splitter is made of the names of the inputs (nothing to compare)
            return True
        sets = [e for e in tr if e.name == "set"]
        own = [e for e in sets if e.args and isinstance(e.args[0], LazyComp)]
        entry_inputs = st.env["__entry__"]["inputs"] if "__entry__" in st.env else st.env["inputs"]
        given = [e for e in sets if e.args and is_z3(e.args[0]) and to_U(e.args[0]).eq(to_U(entry_inputs))]
        if len(own) != 1 or len(given) != 1:
            raise Unsupported("Task.split: the two name sets are no longer built as set(<names of the splitter>) and set(inputs) (contract out of date)")
        a, b = own[0].ret, given[0].ret
        miss = E.eval_spec_value("len(a - b)", st, {"a": a, "b": b})
        extra = E.eval_spec_value("len(b - a)", st, {"a": a, "b": b})
        return z3_and(miss == 0, extra == 0)

    return Contract(
        file="pydra/compose/base/task.py",
        qualname="Task.split",
        params={"self": "U", "splitter": "U", "overwrite": "U", "container_ndim": "U", "inputs": "U"},
        default_effects=True,
        attrs={"_splitter": {"kind": "U"}},
        loops={0: {"invariants": []}, 1: {"invariants": []}},
        ensures=[("accepted-only-if-values-are-given-for-exactly-the-splitter-fields", "property:C05", values_exactly_for_the_splitter_fields)],
        min_paths=4,
        trusted=[
            "set(), set difference and len() are uninterpreted functions of their arguments: the clause holds for every interpretation, in particular the real one",
            "unwrap_splitter enumerates the field names of the splitter (bounded part of C05)",
        ],
    )


def contract_c01():
    """C01 on the same function: what a split hands on is exactly what was given.  Per iteration of the loop over
    `inputs.items()` (an arbitrary (name, value) pair): the value is wrapped exactly once -- `StateArray(value)` of ITS OWN value,
    or `value.split()` for a lazy field -- and stored under ITS OWN name (or the iteration raises TypeError); on return the
    new task is `attrs.evolve(self, **<those wrapped values>)` and carries the splitter and container_ndim that were given."""
    from pyvc.engine import U

    def own_value_wrapped_under_own_name(E, st, events):
        elem = to_U(st.ghost["_iter_elem"])
        name = z3.Function("item0", U, U)(elem)
        value = z3.Function("item1", U, U)(elem)
        evs = [e for e in events if not e.raised]
        if len(evs) != 2 or evs[1].name != "setitem" or not (evs[0].name == "StateArray" or evs[0].name.endswith(".split")):
            raise Unsupported(f"Task.split: wrapping loop has effects {[e.name for e in evs]} (contract out of date)")
        wrap, store = evs
        recv = wrap.args[0] if wrap.args else None
        if recv is None or not is_z3(recv):
            return False
        return z3_and(to_U(recv) == value, to_U(store.args[1]) == name, to_U(store.args[2]) == to_U(wrap.ret))

    def evolved_task_carries_the_given_splitter(E, st, out):
        tr = [e for e in st.trace if not e.raised]
        ev = [e for e in tr if e.name == "attrs.evolve"]
        sets = {e.args[1]: e for e in tr if e.name == "setattr"}
        if len(ev) != 1 or "_splitter" not in sets or "_container_ndim" not in sets:
            raise Unsupported("Task.split: result no longer built by attrs.evolve + _splitter/_container_ndim (contract out of date)")
        entry = st.env["__entry__"] if "__entry__" in st.env else st.env
        conj = [
            to_U(ev[0].args[0]) == to_U(entry["self"]),
            to_U(out.val) == to_U(ev[0].ret),
            to_U(sets["_splitter"].args[0]) == to_U(ev[0].ret),
            to_U(sets["_container_ndim"].args[0]) == to_U(ev[0].ret),
            to_U(sets["_container_ndim"].args[2]) == to_U(entry["container_ndim"]),
            bool(set(ev[0].kwargs) == {"**"}),  # nothing but the wrapped split inputs is changed on the new task
        ]
        if any(e.name == "unwrap_splitter" for e in tr):
            conj.append(to_U(sets["_splitter"].args[2]) == to_U(entry["splitter"]))
        return z3_and(*conj)

    c = contract()
    c.loops = {0: {"invariants": []}, 1: {"invariants": [], "iteration_ensures": [("own-value-wrapped-once-under-own-name", "property:C01", own_value_wrapped_under_own_name)]}}
    c.ensures = [("new-task-is-self-evolved-with-the-wrapped-inputs-and-the-given-splitter", "property:C01", evolved_task_carries_the_given_splitter)]
    c.trusted = [
        "StateArray(value) holds the elements of value in order; attrs.evolve(self, **changes) copies every other field unchanged (both bounded part of C01)",
        "the dict handed to attrs.evolve is the one the loop filled (same local variable; the engine havocs it at the loop cut, identity is by name)",
    ]
    return c
