"""Sidecar contract for pydra.compose.base.task:Task.split (C05): a split request that names a splitter is accepted (normal
return) only if the fields given values are EXACTLY the splitter's own fields -- on every path.  With A = the set built
from the unwrapped splitter (own, non-upstream names) and B = set(inputs): every normal-return path that took the splitter
branch implies len(A - B) == 0 and len(B - A) == 0.  `unwrap_splitter`, set construction and set difference are
uninterpreted (any model of them), so the clause is about the control flow of the two guards, whatever the sets contain."""
import z3

from pyvc.engine import LazyComp, Unsupported, is_z3, to_U, z3_and
from pyvc.verify import Contract


def contract():
    def values_exactly_for_the_splitter_fields(E, st, out):
        tr = [e for e in st.trace if not e.raised]
        if not any(e.name == "unwrap_splitter" for e in tr):
            # the `else` branch: no splitter given, the splitter is made of the names of the inputs (nothing to compare)
            return True
        sets = [e for e in tr if e.name == "set"]
        own = [e for e in sets if e.args and isinstance(e.args[0], LazyComp)]
        entry_inputs = st.env["__entry__"]["inputs"] if "__entry__" in st.env else st.env["inputs"]
        given = [e for e in sets if e.args and is_z3(e.args[0]) and to_U(e.args[0]).eq(to_U(entry_inputs))]
        if len(own) != 1 or len(given) != 1:
            raise Unsupported("Task.split: the two name sets are no longer built as set(<names of the splitter>) and set(inputs) (contract out of date)")
        a, b = own[0].ret, given[0].ret
        miss = E.eval_spec_value("len(a - b)", st, {"a": a, "b": b})
        extra = E.eval_spec_value("len(b - a)", st, {"a": a, "b": b})
        return z3_and(miss == 0, extra == 0)

    return Contract(
        file="pydra/compose/base/task.py",
        qualname="Task.split",
        params={"self": "U", "splitter": "U", "overwrite": "U", "container_ndim": "U", "inputs": "U"},
        default_effects=True,
        attrs={"_splitter": {"kind": "U"}},
        loops={0: {"invariants": []}, 1: {"invariants": []}},
        ensures=[("accepted-only-if-values-are-given-for-exactly-the-splitter-fields", "property:C05", values_exactly_for_the_splitter_fields)],
        min_paths=4,
        trusted=[
            "set(), set difference and len() are uninterpreted functions of their arguments: the clause holds for every interpretation, in particular the real one",
            "unwrap_splitter enumerates the field names of the splitter (bounded part of C05)",
        ],
    )
