"""Sidecar contract for pydra.engine.state:State.splitter_validation (C05): a splitter is accepted
only if EVERY element of its compact RPN is an operator, a reference `_<node>` to a connected upstream
state, or a field of this node; the first offending element raises."""
from pyvc.verify import Contract

OK = ("(splitter_rpn[j] == '.' or splitter_rpn[j] == '*'"
      " or (splitter_rpn[j].startswith('_') and splitter_rpn[j][1:] in self.other_states)"
      " or first_part(splitter_rpn[j]) == self.name)")


def contract():
    def setup(E, st):
        rpn = E.materialize(st, E.fresh_kind(("Seq", "Str"), "splitter_rpn"))
        st.env["splitter_rpn"] = rpn
        st.ghost["rpn"] = rpn

        # self.splitter_rpn_compact reads this very list
        st.fields[(st.env["self"].sexpr(), "splitter_rpn_compact")] = rpn

    return Contract(
        file="pydra/engine/state.py",
        qualname="State.splitter_validation",
        params={"self": "U"},
        setup=setup,
        callees={".split": {"kind": "pure", "name": "split"}, "first_part": {"kind": "model", "model": _first_part}, ".format": {"kind": "pure", "name": "format"}},
        attrs={"other_states": {"kind": "U"}, "name": {"kind": "U"}, "__getitem__:spl.split('.')": {"pure": True}},
        globals_={"PydraStateError": __import__("pyvc.engine", fromlist=["ClassV"]).ClassV("PydraStateError")},
        loops={"self.splitter_rpn_compact": {"invariants": [("every-element-so-far-is-admissible", f"forall(lambda j: {OK}, 0, _k)")]}},
        ensures=[("accepted-only-if-every-element-is-admissible", "property:C05", f"forall(lambda j: {OK}, 0, len(splitter_rpn))")],
        allow_raise=True,
        min_paths=2,
        trusted=["self.splitter_rpn_compact is the list modelled as splitter_rpn; str.split('.')[0] is a pure function of the element"],
    )


def _first_part(E, st, node, recv, args, kwargs):
    """spec-side name for spl.split('.')[0]: the same uninterpreted terms the code produces"""
    import z3
    from pyvc.engine import U, to_U

    split = z3.Function("fn.split", U, U, U)
    getitem = z3.Function("getitem", U, U, U)
    return [(st, getitem(split(to_U(args[0]), to_U(".")), to_U(0)), None)]
