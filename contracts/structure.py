"""Sidecar contracts for pydra.utils.general:structure and filter_out_defaults (C32).

* `structure(d)`: works on a COPY of the caller's dictionary (a second `structure(d)` sees the same d); the entry `type`
  selects the module `pydra.compose.<type>`; the entry named by that module's `Task._executor_name` becomes the positional
  executor of `define`; EVERYTHING else of the dictionary is passed on as keyword arguments of that same `define` call,
  whose result is returned.  No entry is dropped or renamed on the way.
* `filter_out_defaults(atr, value)`: an attribute of a field is left out of the dictionary (result False) only on a path on
  which `value` compared equal to the attribute's default (or to what its default factory produced), i.e. only when
  re-creating the field restores it; it is kept (True) only when it differs from both."""
import z3

from pyvc.engine import Unsupported, eq, is_z3, to_U, z3_and, z3_not
from pyvc.verify import Contract

FILE = "pydra/utils/general.py"


def structure_contract():
    def every_entry_reaches_define(E, st, out):
        tr = [e for e in st.trace if not e.raised]
        names = [e.name.rsplit(".", 1)[-1] for e in tr]
        given = st.env["__entry__"]["task_class_dict"] if "__entry__" in st.env else st.env["task_class_dict"]
        if "copy" not in names and any(n == "pop" and is_z3(e.args[0]) and to_U(e.args[0]).eq(to_U(given)) for n, e in zip(names, tr)):
            return False  # entries are popped from the CALLER's dictionary: a second structure(d) no longer sees `type`
        if names != ["copy", "pop", "import_module", "pop", "define"]:
            raise Unsupported(f"structure: effects {[e.name for e in tr]} (contract out of date)")
        cp, pop_t, imp, pop_e, define = tr
        mod_name = E.eval_spec_value("'pydra.compose.' + str(t)", st, {"t": pop_t.ret})
        exec_name = E.eval_spec_value("m.Task._executor_name", st, {"m": imp.ret})
        if set(define.kwargs) != {"**"} or len(define.args) != 2:
            return False  # something besides (executor, **rest of the dictionary) is passed, or something is withheld
        return z3_and(
            to_U(cp.args[0]) == to_U(given),
            to_U(pop_t.args[0]) == to_U(cp.ret),  # entries are removed from the copy only
            pop_t.args[1] == "type",
            eq(imp.args[0], mod_name),
            to_U(pop_e.args[0]) == to_U(cp.ret),
            to_U(pop_e.args[1]) == to_U(exec_name),
            to_U(define.args[0]) == to_U(imp.ret),  # define of the module the type names
            to_U(define.args[1]) == to_U(pop_e.ret),
            to_U(define.kwargs["**"]) == to_U(cp.ret),  # every remaining entry, under its own key
            to_U(out.val) == to_U(define.ret),
        )

    return Contract(
        file=FILE,
        qualname="structure",
        params={"task_class_dict": "U"},
        default_effects=True,
        callees={"copy": {"kind": "effect", "may_raise": False}},
        attrs={"Task": {"kind": "U"}, "_executor_name": {"kind": "U"}},
        ensures=[("every-entry-of-a-copy-reaches-define-of-the-named-module", "property:C32", every_entry_reaches_define)],
        min_paths=2,
        trusted=["copy(d) is a new dict with the same entries; dict.pop removes and returns one entry", "`define` of each compose module (what it does with the keywords) is the bounded part of C32"],
    )


def filter_contract():
    def dropped_only_if_equal_to_default(E, st, out):
        v = out.val
        fac = [e for e in st.trace if e.name.endswith("default.factory") and not e.raised]
        eq_default = E.eval_spec("value == atr.default", st, {})
        eq_factory = eq(fac[-1].ret, st.env["value"]) if fac else False
        same = z3.Or(eq_default, eq_factory) if (is_z3(eq_default) or is_z3(eq_factory)) else (eq_default or eq_factory)
        if v is False:
            return same
        if v is True:
            return z3_not(same)
        raise Unsupported("filter_out_defaults no longer returns a literal bool (contract out of date)")

    return Contract(
        file=FILE,
        qualname="filter_out_defaults",
        params={"atr": "U", "value": "U"},
        default_effects=True,
        callees={"isinstance": {"kind": "pure", "name": "isinstance", "returns": "Bool"}},
        attrs={"default": {"kind": "U"}},
        ensures=[("attribute-omitted-iff-equal-to-its-default", "property:C32", dropped_only_if_equal_to_default)],
        min_paths=4,
        trusted=["`==` on attribute values is the values' own equality; a default factory returns the default value `define` restores"],
    )
