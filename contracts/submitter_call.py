"""Sidecar contract for pydra.engine.submitter:Submitter.__call__ (C05: combining without
splitting is rejected before any job exists; rules are checked first)."""
import z3

from pyvc.engine import is_z3
from pyvc.verify import Contract


def contract():
    def combine_without_split_rejected(E, st, out):
        task = st.env["__entry__"]["task"]
        spl = E.truthy(st, E.getattr_(st, task, "_splitter", _n("task._splitter"))[0][1])
        comb = E.truthy(st, E.getattr_(st, task, "_combiner", _n("task._combiner"))[0][1])
        jobs = [e for e in st.trace if e.name == "Job"]
        # under (not splitter and combiner): the call ends with an error and no Job was constructed
        ok_here = out.kind == "raise" and not jobs
        return z3.Implies(z3.And(z3.Not(spl), comb), z3.BoolVal(ok_here)) if is_z3(spl) or is_z3(comb) else ((not (not spl and comb)) or ok_here)

    def rules_before_job(E, st, out):
        names = [e.name for e in st.trace]
        if "Job" not in names:
            return True
        return "task._check_rules" in names and names.index("task._check_rules") < names.index("Job")

    return Contract(
        file="pydra/engine/submitter.py",
        qualname="Submitter.__call__",
        params={"self": "U", "task": "U", "hooks": "U", "raise_errors": "U", "rerun": "U"},
        default_effects=True,
        callees={"isinstance": {"kind": "pure", "name": "isinstance", "returns": "Bool"}, "deepcopy": {"kind": "pure"}},
        attrs={"_splitter": {"kind": "U"}, "_combiner": {"kind": "U"}, "_container_ndim": {"kind": "U"}, "worker": {"kind": "U"}, "environment": {"kind": "U"}},
        exits=[
            ("combine-without-split-raises-before-any-job", "property:C05", combine_without_split_rejected),
            ("rules-checked-before-job-construction", "property:C05", rules_before_job),
        ],
        min_paths=5,
        trusted=["the implicit Split workflow of the `if task._splitter` branch is opaque here (decorated nested function)"],
    )


def _n(src):
    import ast

    return ast.parse(src, mode="eval").body
