"""Sidecar contract for pydra.compose.shell.templating:template_update_single (C26): the re-rooting
step.  A templated output path is `cache_dir / <formatted>.name`, i.e. a direct child of the job's
cache directory whenever that name is a real path component; an explicit value is returned as stored."""
import z3

from pyvc.engine import U, NONE_U, Ref, HList, is_z3, to_U
from pyvc.verify import Contract

path_join = z3.Function("path_join", U, U, U)
attr_name = z3.Function("attr.name:U", U, U)


def contract():
    def rerooted(E, st, out):
        """templated branch: result == cache_dir / value.name  (or element-wise for a list)"""
        entry = st.env["__entry__"]
        cd = entry["cache_dir"]
        tf = [e for e in st.trace if e.name == "_template_formatting" and not e.raised]
        if not tf:
            return True  # explicit value / False / error: other clauses
        value = tf[-1].ret
        r = out.val
        if r is None:
            return True
        if isinstance(r, Ref) and isinstance(st.heap.get(r.n), HList):
            seq = st.heap[r.n].seq
            j = E.fresh("j", z3.IntSort())
            item = z3.Function("item_U", U, z3.IntSort(), U)
            return z3.ForAll([j], z3.Implies(z3.And(j >= 0, j < seq.length), seq.get(j) == path_join(cd, attr_name(item(value, j)))))
        if not is_z3(r):
            return False
        # either no cache_dir was given (value returned as formatted) or it is re-rooted below cache_dir
        return z3.Or(r == value, r == path_join(cd, attr_name(value)))

    def rerooted_whenever_cache_dir(E, st, out):
        entry = st.env["__entry__"]
        cd = entry["cache_dir"]
        tf = [e for e in st.trace if e.name == "_template_formatting" and not e.raised]
        r = out.val
        if not tf or r is None or not is_z3(r):
            return True
        value = tf[-1].ret
        return z3.Implies(z3.And(E.truthy(st, cd), value != NONE_U), r == path_join(cd, attr_name(value)))

    def explicit_as_stored(E, st, out):
        tf = [e for e in st.trace if e.name == "_template_formatting"]
        if tf or out.val is None:
            return True
        fv = st.env.get("field_value")
        return is_z3(out.val) and is_z3(fv) and out.val.eq(fv)

    return Contract(
        file="pydra/compose/shell/templating.py",
        qualname="template_update_single",
        params={"fld": "U", "task": "U", "values": "U", "cache_dir": "U", "spec_type": "Str"},
        default_effects=True,
        callees={
            "isinstance": {"kind": "pure", "name": "isinstance", "returns": "Bool"},
            "is_lazy": {"kind": "pure", "name": "is_lazy", "returns": "Bool"},
            "TypeParser": {"kind": "pure", "name": "TypeParser"},
            "TypeParser.contains_type": {"kind": "pure", "name": "contains_type", "returns": "Bool"},
            "_template_formatting": {"kind": "effect", "may_raise": True},
        },
        attrs={"name": {"kind": "U"}, "type": {"kind": "U"}, "__getitem__:values": {"pure": True}},
        ensures=[
            ("templated-path-is-cache_dir-slash-name", "property:C26", rerooted),
            ("re-rooted-whenever-a-cache_dir-is-given", "property:C26", rerooted_whenever_cache_dir),
            ("explicit-value-returned-as-stored", "property:C26", explicit_as_stored),
        ],
        min_paths=4,
        trusted=[
            "PurePath.name is the final path component (no separator); `cache_dir / name` is then a direct child of cache_dir unless name is '', '.' or '..' (that exception is the bounded check's known class template-formats-to-dot-or-dotdot-escapes-job-dir)",
            "TypeParser(...)(v) returns the coerced value or raises",
        ],
    )
