"""Sidecar contract for pydra.utils.typing:TypeParser.__call__ (C21): what the converter of a task input answers for a
LAZY field is the static check -- `self.check_type(obj._type)` is evaluated on every path that accepts a lazy field, and
the field is accepted only if that check passed or (superclass_auto_cast only) the permissive reverse check passed."""
import z3

from pyvc.engine import NOTHING_U, U, to_U, z3_not
from pyvc.verify import Contract


def contract():
    def lazy_return_passed_check(E, st, out):
        chk = [e for e in st.trace if e.name == "self.check_type"]
        others = [e for e in st.trace if e.name != "self.check_type" and e.name.endswith("check_type")]
        if not chk:
            # no static check on this path: only allowed when obj is not lazy (NOTHING / StateArray / plain value)
            obj = to_U(st.env["__entry__"]["obj"])
            is_lazy = z3.Function("fn.is_lazy", U, z3.BoolSort())(obj)
            return z3.Or(z3_not(is_lazy), obj == NOTHING_U)  # (attrs.NOTHING is not a lazy field)
        if not chk[0].raised:
            return True
        # the strict check failed: accepted only through the permissive reverse check
        return bool(others) and not others[-1].raised

    return Contract(
        file="pydra/utils/typing.py",
        qualname="TypeParser.__call__",
        params={"self": "U", "obj": "U"},
        default_effects=True,
        callees={
            "is_lazy": {"kind": "pure", "name": "is_lazy", "returns": "Bool"},
            "isinstance": {"kind": "pure", "name": "isinstance", "returns": "Bool"},
            "self.check_type": {"kind": "effect", "may_raise": True, "raises": "TypeError"},
        },
        attrs={"superclass_auto_cast": {"kind": "U"}, "tp": {"kind": "U"}, "label_str": {"kind": "U"}, "_type": {"kind": "U"}, "_type_checked": {"kind": "U"}},
        globals_={"attrs.NOTHING": NOTHING_U},
        ensures=[("lazy-field-accepted-only-if-the-static-check-passed", "property:C21", lazy_return_passed_check)],
        min_paths=4,
        trusted=["is_lazy is a pure predicate of the object", "TypeParser.check_type is the static check (its relation to run-time coercion is the bounded part of C21)"],
    )
