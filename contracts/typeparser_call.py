"""Sidecar contract for pydra.utils.typing:TypeParser.__call__ (C21): what the converter of a task input answers for a
LAZY field is the static check -- `self.check_type(obj._type)` is evaluated on every path that accepts a lazy field, and
the field is accepted only if that check passed or (superclass_auto_cast only) the permissive reverse check passed."""
import z3

from pyvc.engine import NOTHING_U, U, to_U, z3_not
from pyvc.verify import Contract


def contract():
    def lazy_return_passed_check(E, st, out):
        chk = [e for e in st.trace if e.name == "self.check_type"]
        others = [e for e in st.trace if e.name != "self.check_type" and e.name.endswith("check_type")]
        if not chk:
            # no static check on this path: only allowed when obj is not lazy (NOTHING / StateArray / plain value)
            obj = to_U(st.env["__entry__"]["obj"])
            is_lazy = z3.Function("fn.is_lazy", U, z3.BoolSort())(obj)
            return z3.Or(z3_not(is_lazy), obj == NOTHING_U)  # (attrs.NOTHING is not a lazy field)
        if not chk[0].raised:
            return True
        # the strict check failed: accepted only through the permissive reverse check
        return bool(others) and not others[-1].raised

    return Contract(
        file="pydra/utils/typing.py",
        qualname="TypeParser.__call__",
        params={"self": "U", "obj": "U"},
        default_effects=True,
        callees={
            "is_lazy": {"kind": "pure", "name": "is_lazy", "returns": "Bool"},
            "isinstance": {"kind": "pure", "name": "isinstance", "returns": "Bool"},
            "self.check_type": {"kind": "effect", "may_raise": True, "raises": "TypeError"},
        },
        attrs={"superclass_auto_cast": {"kind": "U"}, "tp": {"kind": "U"}, "label_str": {"kind": "U"}, "_type": {"kind": "U"}, "_type_checked": {"kind": "U"}},
        globals_={"attrs.NOTHING": NOTHING_U},
        ensures=[("lazy-field-accepted-only-if-the-static-check-passed", "property:C21", lazy_return_passed_check)],
        min_paths=4,
        trusted=["is_lazy is a pure predicate of the object", "TypeParser.check_type is the static check (its relation to run-time coercion is the bounded part of C21)"],
    )


def contract_c20():
    """C20 on the same function: a plain value (not attrs.NOTHING, not a lazy field, not a StateArray) is accepted only as the
    value `self.coerce(obj)` RETURNED -- on every path; when `self.coerce` raises, the call raises (the value is rejected at
    assignment, never stored un-coerced), and for a TypeError of coerce the exception that leaves is a TypeError."""
    from pyvc.engine import eq, z3_and

    def stored_value_is_the_coerced_value(E, st, out):
        co = [e for e in st.trace if e.name == "self.coerce"]
        if co:
            if co[-1].raised:
                return False  # coerce raised and the call still returned a value
            return eq(out.val, co[-1].ret)
        # no coercion on this path: only for the three kinds of value the property does not speak about
        return E.eval_spec("obj is attrs.NOTHING or is_lazy(obj) or isinstance(obj, StateArray)", st, {})

    def exactly_one_coercion(E, st, out):
        co = [e for e in st.trace if e.name == "self.coerce"]
        return len(co) <= 1 and all(e.args and eq(e.args[-1], st.env["__entry__"]["obj"]) is not False for e in co)

    def coerce_typeerror_leaves_as_typeerror(E, st, exc):
        co = [e for e in st.trace if e.name == "self.coerce"]
        if not co or not co[-1].raised:
            return True
        return exc.cls == "TypeError"

    c = contract()
    c.callees = dict(c.callees)
    c.callees["self.coerce"] = {"kind": "effect", "may_raise": True, "raises": "TypeError"}
    c.ensures = [
        ("plain-value-stored-only-as-returned-by-coerce", "property:C20", stored_value_is_the_coerced_value),
        ("coerce-called-at-most-once-on-the-given-object", "property:C20", exactly_one_coercion),
    ]
    c.raises = [("uncoercible-value-rejected-with-TypeError", "property:C20", coerce_typeerror_leaves_as_typeerror)]
    c.trusted = [
        "is_lazy / isinstance are pure predicates of the object",
        "TypeParser.coerce is an opaque callee here (returns any value or raises TypeError): that its RESULT conforms to the declared type is the bounded part of C20",
    ]
    return c
