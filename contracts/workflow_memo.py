"""Sidecar contract for pydra.compose.workflow:WorkflowTask.construct (C30): the per-task memo of the constructed workflow.

On every normal path: the workflow returned is either the one `Workflow.construct(self)` produced during THIS call (and it
is memoised under the identity the inputs have NOW, i.e. `self._compute_hashes()[0]` of this call), or the memoised one --
and then only on a path on which the identity stored with the memo was compared equal to the identity the inputs have now.
A memo handed out without that comparison is the defect repaired by 4493d793."""
import z3

from pyvc.engine import U, Unsupported, eq, is_z3, to_U, z3_and
from pyvc.verify import Contract


def contract():
    def memo_reused_only_under_the_current_identity(E, st, out):
        tr = [e for e in st.trace if not e.raised]
        self_ = st.env["__entry__"]["self"] if "__entry__" in st.env else st.env["self"]
        hashes = [e for e in tr if e.name == "self._compute_hashes"]
        if len(hashes) != 1:
            return False  # the identity of the current inputs is not computed (or more than once) on this path
        now = [e for e in tr if e.name == "__getitem__" and to_U(e.args[0]).eq(to_U(hashes[0].ret)) and e.args[1] == 0]
        if len(now) != 1:
            raise Unsupported("WorkflowTask.construct: the digest is no longer taken as _compute_hashes()[0] (contract out of date)")
        now = now[0].ret
        built = [e for e in tr if e.name == "Workflow.construct"]
        if built:
            if len(built) != 1:
                return False
            stores = [e for e in tr if e.name == "setattr" and e.args[1] == "_constructed"]
            if len(stores) != 1 or not isinstance(stores[0].args[2], tuple) or len(stores[0].args[2]) != 2:
                raise Unsupported("WorkflowTask.construct: memo no longer stored as (identity, workflow) (contract out of date)")
            key, wf = stores[0].args[2]
            return z3_and(to_U(built[0].args[0]) == to_U(self_), to_U(out.val) == to_U(built[0].ret), to_U(wf) == to_U(built[0].ret), to_U(key) == to_U(now), to_U(stores[0].args[0]) == to_U(self_))
        # memo path
        reads = [e for e in tr if e.name == "__getitem__" and not to_U(e.args[0]).eq(to_U(hashes[0].ret))]
        key_reads = [e for e in reads if e.args[1] == 0]
        val_reads = [e for e in reads if e.args[1] == 1]
        if not val_reads:
            raise Unsupported("WorkflowTask.construct: memo no longer read as _constructed[1] (contract out of date)")
        if not key_reads:
            return False  # the memo is handed out without comparing the identity it was stored under
        return z3_and(to_U(out.val) == to_U(val_reads[-1].ret), to_U(key_reads[-1].args[0]) == to_U(val_reads[-1].args[0]), eq(key_reads[-1].ret, now))

    return Contract(
        file="pydra/compose/workflow.py",
        qualname="WorkflowTask.construct",
        params={"self": "U"},
        default_effects=True,
        attrs={"_constructed": {"kind": "U"}},
        ensures=[("memo-reused-only-under-the-identity-the-inputs-have-now", "property:C30", memo_reused_only_under_the_current_identity)],
        min_paths=3,
        trusted=[
            "Task._compute_hashes()[0] is the identity of the current input values (C06/C07/C08: contracts and bounded checks on the hashing layer)",
            "tuple indexing of the memo is a pure read",
            "Workflow.construct (the class-level cache, with its exact and superset hits) is opaque here: bounded part of C30",
        ],
    )
