"""C01 -- split expands to exactly the outer/inner product of the split inputs.

Engine B only (level "other").  Two layers, both on the REAL pydra code:

  state   State(name, splitter).prepare_states(inputs): states_ind / states_val compared
          (order included) with spec.splits.outcomes(); a rejection must be an exception
          raised by State/prepare_states, i.e. before NodeExecution.start constructs a Job.
  e2e     F(a, b, c, d, k1, k2).split(splitter, ...)(cache_root=tmp) on the debug worker
          through Submitter.__call__ -> implicit Split workflow -> NodeExecution.start/
          _split_task -> Job.run: the outputs must be the flat list, in enumeration order, of
          what each job *received* (F returns all of its inputs), non-split fields unchanged;
          a rejected request must not have called F nor created a python-* job directory.

This module also hosts the harness shared with C02 / C04 / C05 (state_run, E2E, pmap, Phases).
"""

from __future__ import annotations

import json
import multiprocessing as mp
import os
import random
import shutil
import tempfile
import warnings
from copy import deepcopy
from pathlib import Path

from pydra.compose import python

import spec.splits as SP

FIELDS = "abcd"
NODE = "N"
K1 = "K1-unsplit"
K2 = [7, [8, 9]]  # a list-valued non-split field: must arrive whole
NPROCS = max(1, min(12, (os.cpu_count() or 2) - 2))


# ------------------------------------------------------------------ the task under split


def _log_body(tag):
    p = os.environ.get("VF_BODY_LOG")
    if p:
        with open(p, "a") as f:
            f.write(tag + "\n")


@python.define
def F(a=None, b=None, c=None, d=None, k1=None, k2=None) -> tuple:
    _log_body("F")
    return (a, b, c, d, k1, k2)


def _f2(a=None, b=None, c=None, d=None, k1=None, k2=None):
    _log_body("F2")
    return ("first", a, b, c, d, k1, k2), ("second", a, b, c, d, k1, k2)


# the same task with TWO output fields (every combined group must hold the values of its own field)
F2 = python.define(_f2, outputs={"o1": tuple, "o2": tuple}, name="F2")


@python.define
def G(x=None, y=None, k1=None) -> tuple:
    _log_body("G")
    return (x, y, k1)


def values_for(f, n):
    """distinct sentinels: field a -> 100, 101, ... ; b -> 200, ..."""
    return [(ord(f) - 96) * 100 + i for i in range(n)]


def unsplit_value(f):
    """value given to an a..d field that is not in the splitter (a list on purpose)"""
    return [f"U{f}", 0]


def singleton_nonfirst(t):
    """class predicate: the tree contains a one-element list/tuple as the 2nd or later
    operand of a list/tuple with >= 2 operands"""
    if SP.is_field(t):
        return False
    for i, c in enumerate(t):
        if len(t) > 1 and i > 0 and not SP.is_field(c) and len(c) == 1:
            return True
        if singleton_nonfirst(c):
            return True
    return False


# ------------------------------------------------------------------ layer 1: State


def state_run(splitter, inputs, combiner=None, container_ndim=None):
    """run the real State on local field names; returns a dict
    {rejected, exc, ind (list of {field: idx}), val (list of {field: value}), mapping}"""
    from pydra.engine.state import State

    res = {"rejected": False, "exc": None, "ind": None, "val": None, "mapping": None}
    try:
        kw = {}
        if combiner:
            kw["combiner"] = list(combiner)
        if container_ndim:
            kw["container_ndim"] = {f"{NODE}.{k}": v for k, v in container_ndim.items()}
        st = State(NODE, splitter=deepcopy(splitter), **kw)  # State mutates nested lists in place
        st.prepare_states({f"{NODE}.{k}": v for k, v in inputs.items()})
        strip = len(NODE) + 1
        res["ind"] = [{k[strip:]: v for k, v in d.items()} for d in st.states_ind]
        res["val"] = [{k[strip:]: v for k, v in d.items()} for d in st.states_val]
        m = st.final_combined_ind_mapping
        res["mapping"] = [list(m[i]) for i in sorted(m)] if sorted(m) == list(range(len(m))) else {"keys": sorted(m)}
        res["final_keys"] = [k[strip:] for k in st.keys_final]
    except Exception as e:  # any exception here is raised before a Job exists
        res["rejected"] = True
        res["exc"] = f"{type(e).__name__}: {e}"[:160]
    return res


def check_state_case(splitter, lens):
    """C01 contract on one (splitter, lengths) at State level; returns None or a failure dict"""
    fs = SP.fields_of(splitter)
    inputs = {f: values_for(f, lens[f]) for f in fs}
    oc = SP.outcomes(splitter, lens)
    r = state_run(splitter, inputs)
    got = SP.REJECT if r["rejected"] else r["ind"]
    why = None
    if got not in oc:
        if got == SP.REJECT:
            why = f"rejected ({r['exc']}) but the reference semantics gives {len(oc[0])} job(s)"
        elif oc == [SP.REJECT]:
            why = f"accepted with {len(got)} job(s) although an inner product has operands of different length"
        else:
            why = "states_ind differs from the reference enumeration"
    elif got != SP.REJECT:
        for j, (ind, val) in enumerate(zip(r["ind"], r["val"])):
            if set(ind) != set(fs) or any(val.get(f, object()) != inputs[f][ind[f]] for f in fs):
                why = f"states_val[{j}] is not the element addressed by states_ind[{j}]"
                break
        if why is None and len(r["val"]) != len(r["ind"]):
            why = "states_val and states_ind differ in length"
    if why is None:
        return None, got, oc
    # finding class: a well-formed request is REJECTED (nothing runs) and the tree has a
    # one-element wrapper as a non-first operand; any wrong enumeration stays unclassified
    klass = "singleton-operand-not-first" if (got == SP.REJECT and singleton_nonfirst(splitter)) else None
    return (
        {
            "klass": klass,
            "what": f"State(splitter={splitter!r}) with lengths {lens}: {why}",
            "case": {"layer": "state", "splitter": SP.to_json(splitter), "lens": lens, "got": got, "admissible": oc, "exc": r["exc"]},
        },
        got,
        oc,
    )


# ------------------------------------------------------------------ layer 2: end to end


class E2E:
    """one fresh cache root + body log per run; everything removed afterwards"""

    def __init__(self):
        self.base = Path(tempfile.mkdtemp(prefix="vf_split_"))
        self.n = 0
        # private, empty persistent hash cache: keeps the runs hermetic (pydra otherwise scans
        # the user's shared ~/.cache/pydra/hashes directory on every submission)
        self._old_hc = os.environ.get("PYDRA_HASH_CACHE")
        (self.base / "hashes").mkdir()
        os.environ["PYDRA_HASH_CACHE"] = str(self.base / "hashes")

    def close(self):
        if self._old_hc is None:
            os.environ.pop("PYDRA_HASH_CACHE", None)
        else:
            os.environ["PYDRA_HASH_CACHE"] = self._old_hc
        shutil.rmtree(self.base, ignore_errors=True)

    def run(self, build):
        """build() -> configured task; returns dict(stage, exc, out, body_calls, job_dirs, wf_dirs)"""
        self.n += 1
        root = self.base / f"c{self.n}"
        root.mkdir()
        log = self.base / f"c{self.n}.log"
        os.environ["VF_BODY_LOG"] = str(log)
        cwd = os.getcwd()
        res = {"stage": "build", "exc": None, "out": None}
        try:
            with warnings.catch_warnings():
                warnings.simplefilter("ignore")
                task = build()
                res["stage"] = "call"
                outputs = task(cache_root=root, worker="debug")
                res["stage"] = "done"
                res["out"] = outputs.out
        except Exception as e:
            res["exc"] = f"{type(e).__name__}: {e}"[:160]
        finally:
            os.chdir(cwd)
            os.environ.pop("VF_BODY_LOG", None)
        res["body_calls"] = len(log.read_text().splitlines()) if log.exists() else 0
        names = sorted(p.name for p in root.iterdir())
        res["job_dirs"] = len([n for n in names if n.startswith("python-") and not n.endswith(".lock")])
        res["wf_dirs"] = len([n for n in names if n.startswith("workflow-") and not n.endswith(".lock")])
        shutil.rmtree(root, ignore_errors=True)
        if log.exists():
            log.unlink()
        return res


def run_sequence(e2e, builds):
    """several submissions, one after the other, into ONE cache root in this process (results, constructed workflows and
    hash caches of the earlier ones are there for the later ones); -> list of dict(stage, exc, out) per submission"""
    e2e.n += 1
    root = e2e.base / f"s{e2e.n}"
    root.mkdir()
    cwd = os.getcwd()
    outs = []
    try:
        for build in builds:
            res = {"stage": "build", "exc": None, "out": None}
            try:
                with warnings.catch_warnings():
                    warnings.simplefilter("ignore")
                    task = build()
                    res["stage"] = "call"
                    outputs = task(cache_root=root, worker="debug")
                    res["stage"] = "done"
                    res["out"] = getattr(outputs, "out", None)
                    res["fields"] = {n: getattr(outputs, n) for n in ("o1", "o2") if hasattr(outputs, n)}
            except Exception as e:
                res["exc"] = f"{type(e).__name__}: {e}"[:160]
            finally:
                os.chdir(cwd)
            outs.append(res)
    finally:
        shutil.rmtree(root, ignore_errors=True)
    return outs


def check_pair_case(e2e, t1, t2, lens):
    """the same task and the same values split with tree t1, then with tree t2, into one cache root: the second
    submission must give what t2 means, whatever the first one left behind"""
    fs = SP.fields_of(t1)
    inputs = {f: values_for(f, lens[f]) for f in fs}
    rs = run_sequence(e2e, [lambda: build_F(t1, inputs), lambda: build_F(t2, inputs)])
    fails = []
    for which, t, r in (("first", t1, rs[0]), ("second", t2, rs[1])):
        oc = SP.outcomes(t, lens)
        exp_out = [SP.REJECT if o == SP.REJECT else plain([job_tuple(fs, inputs, ind) for ind in o]) for o in oc]
        got = SP.REJECT if r["exc"] is not None else plain(r["out"])
        if got not in exp_out:
            fails.append(
                {
                    "klass": "singleton-operand-not-first" if (got == SP.REJECT and singleton_nonfirst(t)) else None,
                    "what": f"F.split({t1!r}) then F.split({t2!r}) on the same values (lengths {lens}) into one cache root: the {which} submission "
                    + (f"was rejected ({r['exc']})" if got == SP.REJECT else f"returned {len(got)} outputs that are not what its splitter means"),
                    "case": {"layer": "pair", "first": SP.to_json(t1), "second": SP.to_json(t2), "lens": lens, "which": which, "got": got, "admissible": exp_out},
                }
            )
    return fails


def _w_pairs(task):
    e2e = E2E()
    try:
        return [(a, b, lens, check_pair_case(e2e, SP.from_json(a), SP.from_json(b), lens)) for a, b, lens in task]
    finally:
        e2e.close()


def plain(x):
    """StateArray / tuple / list -> nested plain lists (for comparison and JSON)"""
    if isinstance(x, (list, tuple)):
        return [plain(i) for i in x]
    return x


def job_tuple(fs, inputs, ind):
    """what F must have received (and therefore returns) for the state `ind`"""
    return [inputs[f][ind[f]] if f in fs else unsplit_value(f) for f in FIELDS] + [K1, K2]


def build_F(splitter, inputs, combiner=None):
    fs = SP.fields_of(splitter)
    init = {f: unsplit_value(f) for f in FIELDS if f not in fs}
    t = F(k1=K1, k2=deepcopy(K2), **init).split(deepcopy(splitter), **deepcopy(inputs))
    if combiner:
        t = t.combine(list(combiner))
    return t


def build_F2(splitter, inputs, combiner=None):
    fs = SP.fields_of(splitter)
    init = {f: unsplit_value(f) for f in FIELDS if f not in fs}
    t = F2(k1=K1, k2=deepcopy(K2), **init).split(deepcopy(splitter), **deepcopy(inputs))
    if combiner:
        t = t.combine(list(combiner))
    return t


def check_e2e_case(e2e, splitter, lens):
    fs = SP.fields_of(splitter)
    inputs = {f: values_for(f, lens[f]) for f in fs}
    oc = SP.outcomes(splitter, lens)
    r = e2e.run(lambda: build_F(splitter, inputs))
    exp_out = [SP.REJECT if o == SP.REJECT else plain([job_tuple(fs, inputs, ind) for ind in o]) for o in oc]
    why = None
    if r["exc"] is not None:
        got = SP.REJECT
        if SP.REJECT not in oc:
            why = f"rejected at {r['stage']} ({r['exc']}) but the reference semantics gives {len(oc[0])} job(s)"
        elif r["body_calls"] or r["job_dirs"]:
            why = f"rejected ({r['exc']}) only after {r['body_calls']} job(s) had run ({r['job_dirs']} job directories)"
    else:
        got = plain(r["out"])
        if got not in exp_out:
            why = "accepted although an inner product has operands of different length" if oc == [SP.REJECT] else "outputs differ from the reference (order, element received by a job, or a non-split field)"
        elif r["body_calls"] != len(got) or r["job_dirs"] != len(got):
            why = f"{len(got)} outputs but {r['body_calls']} executions / {r['job_dirs']} job directories"
    if why is None:
        return None
    klass = "singleton-operand-not-first" if (got == SP.REJECT and singleton_nonfirst(splitter) and not r["body_calls"]) else None
    return {
        "klass": klass,
        "what": f"F.split({splitter!r}) with lengths {lens}: {why}",
        "case": {"layer": "e2e", "splitter": SP.to_json(splitter), "lens": lens, "got": got, "admissible": exp_out, "run": {k: r[k] for k in ("stage", "exc", "body_calls", "job_dirs")}},
    }


# ------------------------------------------------------------------ parallel map


_POOL = [None, 0]


class Phases:
    """wall-clock per phase, reported as a note in the evidence"""

    def __init__(self, ctx):
        import time

        self.ctx, self.time, self.t, self.log = ctx, time, time.time(), []

    def mark(self, name):
        now = self.time.time()
        self.log.append(f"{name} {now - self.t:.1f}s")
        self.t = now

    def done(self):
        self.ctx.note("phase wall-clock: " + ", ".join(self.log))


def pmap(fn, tasks, nprocs=None, chunksize=4, serial=False, lazy=False):
    """map over tasks; one fork pool is created lazily and reused (pool start-up is the
    dominant cost on a loaded machine, so small workloads run serially).  lazy=True returns
    an ordered iterator (bounded memory in the parent)."""
    nprocs = nprocs or NPROCS
    tasks = list(tasks)
    if serial or nprocs <= 1 or len(tasks) <= 1:
        return (fn(t) for t in tasks) if lazy else [fn(t) for t in tasks]
    if _POOL[0] is None or _POOL[1] != nprocs:
        close_pool()
        _POOL[0], _POOL[1] = mp.get_context("fork").Pool(nprocs), nprocs
    if lazy:
        return _POOL[0].imap(fn, tasks, chunksize=chunksize)
    return _POOL[0].map(fn, tasks, chunksize=chunksize)


def close_pool():
    if _POOL[0] is not None:
        _POOL[0].close()
        _POOL[0].join()
        _POOL[0] = None


def nontrivial(fs, lens):
    return len(fs) >= 2 and max(lens[f] for f in fs) >= 2


def _w_state(task):
    """one tree x a list of length vectors"""
    tj, lens_list = task
    s = SP.from_json(tj)
    fs = SP.fields_of(s)
    keys, fails, stats = [], [], {"reject": 0, "open": 0, "open_rejected": 0}
    for lens in lens_list:
        f, got, oc = check_state_case(s, lens)
        keys.append((tuple(lens[x] for x in fs), nontrivial(fs, lens)))
        if got == SP.REJECT:
            stats["reject"] += 1
        if len(oc) > 1:
            stats["open"] += 1
            stats["open_rejected"] += got == SP.REJECT
        if f:
            fails.append(f)
    return tj, keys, fails, stats


def _w_e2e(task):
    e2e = E2E()
    out = []
    try:
        for tj, lens in task:
            s = SP.from_json(tj)
            out.append((tj, lens, check_e2e_case(e2e, s, lens)))
    finally:
        e2e.close()
    return out


def chunks(seq, n):
    seq = list(seq)
    k = max(1, (len(seq) + n - 1) // n)
    return [seq[i : i + k] for i in range(0, len(seq), k)]


def all_lens(fs, lo, hi):
    return list(SP.length_vectors(fs, lo, hi))


def _collect_state(ctx, dom, results):
    tot = {"reject": 0, "open": 0, "open_rejected": 0}
    for tj, keys, fails, stats in results:
        ck = SP.canon(SP.from_json(tj))
        for lv, nt in keys:
            dom.case((ck, lv), nontrivial=nt, sample={"splitter": repr(SP.from_json(tj)), "lengths": list(lv)} if nt and len(dom.samples) < 3 else None)
        for f in fails:
            ctx.fail(f["klass"], f["what"], f["case"], domain=dom)
        for k in tot:
            tot[k] += stats[k]
    return tot


def deductive(ctx):
    """engine D: on every path of the real Task.split each given value is wrapped once (StateArray of its own value / the lazy
    field's own split) and stored under its own name, and the task returned is self evolved with exactly those wrapped inputs,
    carrying the splitter and container_ndim that were given -- contracts/split_validation.py:contract_c01"""
    from contracts import split_validation as TS
    from pyvc.verify import verify, summarize

    summarize(ctx, verify(ctx, TS.contract_c01()))


def run(ctx):
    try:
        deductive(ctx)
        _run(ctx)
    finally:
        close_pool()


def _run(ctx):
    ph = Phases(ctx)
    ctx.level = "other"
    ctx.explanation = (
        "bounded (engine B): the real State.prepare_states (splitter2rpn, splits, iter_splits, map_splits) is compared with a "
        "reference denotation of splitter trees written from the property text (outer = left-major product, inner = positional "
        "pairing, one-element list/tuple = its element; unequal inner operands must be rejected by an exception raised before any "
        "Job exists; where the text is open -- same element count but different shape, or a length mismatch under an empty outer "
        "product -- both rejection and the positional pairing are accepted). A sample of the same requests is run end to end through "
        "Task.split -> Submitter -> implicit Split workflow -> NodeExecution._split_task -> Job.run on the debug worker with a task "
        "that returns everything it received, two non-split fields included. 'Before any job runs' is read as: the task body never ran and no "
        "job directory of the task exists (the directory of the implicit wrapper workflow is not counted as a job of the task)."
    )
    rnd = random.Random(ctx.seed)
    w = ctx.pick(1, 1)
    trees = SP.splitter_trees(FIELDS, 4, max_wrappers=w, labellings="ordered")

    # ---- always-on exhaustive core (quick tier; in the thorough tier it is subsumed by state/full)
    tot = {"reject": 0, "open": 0, "open_rejected": 0}
    if not ctx.thorough:
        core_trees = [t for t in trees if len(SP.fields_of(t)) <= 3]
        dom_core = ctx.domain(
            "state/core",
            bound="every splitter tree over <= 3 of the fields a,b,c,d (leaves in alphabetical order; list/tuple nodes of arity >= 2 nested "
            "arbitrarily; at most one one-element list/tuple wrapper around the root, an inner node or a leaf) x every length vector in {0,1,2}^k",
            rule="one State.prepare_states per (tree, length vector); key = (canonical tree, lengths); non-trivial = >= 2 fields and some length >= 2",
            exhaustive=True,
        )
        tasks = [(SP.to_json(t), all_lens(SP.fields_of(t), 0, 2)) for t in core_trees]
        tot = _collect_state(ctx, dom_core, pmap(_w_state, tasks, serial=True))
        ph.mark("state/core")

    # ---- the property's own bound: <= 4 fields x {0..3}^k
    if ctx.thorough:
        dom = ctx.domain(
            "state/full",
            bound="every splitter tree over <= 4 of the fields a,b,c,d (leaves in alphabetical order; list/tuple nodes of arity >= 2 nested arbitrarily; "
            "at most one one-element list/tuple wrapper around the root, an inner node or a leaf) x every length vector in {0..3}^k -- the quantifier of the property",
            rule="one State.prepare_states per (tree, length vector); key = (canonical tree, lengths); non-trivial = >= 2 fields and some length >= 2",
            exhaustive=True,
        )
        tasks = [(SP.to_json(t), all_lens(SP.fields_of(t), 0, 3)) for t in trees]
        t2 = _collect_state(ctx, dom, pmap(_w_state, tasks, chunksize=8))
        ph.mark('state-2')
        dom_p = ctx.domain(
            "state/all-labellings",
            bound="every wrapper-free splitter tree over <= 4 fields with EVERY injective labelling of its leaves by a,b,c,d (field order in "
            "the splitter independent of the field order of the task; alphabetical labellings are in state/full) x every length vector in {0..3}^k; plus every tree over <= 3 fields "
            "with exactly two one-element wrappers x {0..3}^k",
            rule="as state/full",
            exhaustive=True,
        )
        seen = {SP.canon(t) for t in trees}
        extra = [t for t in SP.splitter_trees(FIELDS, 4, max_wrappers=0, labellings="all") + SP.splitter_trees(FIELDS, 3, max_wrappers=2, labellings="ordered") if SP.canon(t) not in seen]
        tasks = [(SP.to_json(t), all_lens(SP.fields_of(t), 0, 3)) for t in extra]
        t3 = _collect_state(ctx, dom_p, pmap(_w_state, tasks, chunksize=8))
        ph.mark('state-3')
        for k in tot:
            tot[k] += t2[k] + t3[k]
    else:
        per_tree = 12
        dom = ctx.domain(
            "state/sampled",
            bound=f"every splitter tree over <= 4 fields (as state/core) x {per_tree} length vectors per tree drawn from {{0..3}}^k by seed {ctx.seed} "
            "(all of them when there are fewer; vectors already in state/core are excluded)",
            rule="as state/core",
            exhaustive=False,
        )
        tasks = []
        for t in trees:
            lv = all_lens(SP.fields_of(t), 0, 3)
            if len(SP.fields_of(t)) <= 3:  # already covered by state/core
                lv = [v for v in lv if max(v.values()) == 3]
            tasks.append((SP.to_json(t), lv if len(lv) <= per_tree else rnd.sample(lv, per_tree)))
        t2 = _collect_state(ctx, dom, pmap(_w_state, tasks, chunksize=16, serial=True))
        ph.mark('state-4')
        for k in tot:
            tot[k] += t2[k]
    ctx.note(
        f"state layer: {tot['reject']} requests rejected by pydra; {tot['open']} requests where the property text admits both rejection and "
        f"pairing, of which pydra rejected {tot['open_rejected']} (pydra's inner products are shape-aware)"
    )

    # ---- end to end
    n_e2e = ctx.pick(90, 2500)
    dom_e = ctx.domain(
        "e2e",
        bound=f"{n_e2e} (tree, length vector) pairs (product of the non-zero lengths <= {ctx.pick(24, 81)}) drawn by seed {ctx.seed} from the <= 4 field space x {{0..3}}^k (half of them from wrapper-free "
        "trees with arbitrary leaf labellings), plus the trees a, [a,b], (a,b), [b,a], (b,a) x every length vector in {0,1,2}^k",
        rule="one real submission F(k1, k2, unused fields).split(tree, ...)(cache_root=tmp, worker='debug') per case; key = (canonical tree, "
        "lengths); non-trivial = >= 2 fields and some length >= 2",
        exhaustive=False,
    )
    cases = []
    for t in ["a", ["a", "b"], ("a", "b"), ["b", "a"], ("b", "a")]:
        for lens in all_lens(SP.fields_of(t), 0, 2):
            cases.append((SP.to_json(t), lens))
    perm_trees = SP.splitter_trees(FIELDS, 4, max_wrappers=0, labellings="all")
    max_jobs = ctx.pick(24, 81)
    i = 0
    while i < n_e2e:
        t = rnd.choice(perm_trees if i % 2 else trees)
        fs = SP.fields_of(t)
        lens = {f: rnd.randint(0, 3) for f in fs}
        n_jobs = 1
        for f in fs:
            n_jobs *= max(1, lens[f])
        if n_jobs > max_jobs:  # quick tier: keep single submissions small
            continue
        cases.append((SP.to_json(t), lens))
        i += 1
    rnd.shuffle(cases)
    for part in pmap(_w_e2e, chunks(cases, NPROCS * 3), serial=not ctx.thorough, chunksize=1):
        for tj, lens, f in part:
            s = SP.from_json(tj)
            fs = SP.fields_of(s)
            dom_e.case((SP.canon(s), tuple(lens[x] for x in fs)), nontrivial=nontrivial(fs, lens), sample={"splitter": repr(s), "lengths": lens})
            if f:
                ctx.fail(f["klass"], f["what"], f["case"], domain=dom_e)
    ph.mark('e2e')
    # ---- two submissions with different splitters over the same fields and values
    t3 = [t for t in SP.splitter_trees(FIELDS, 3, max_wrappers=0, labellings="ordered") if sorted(SP.fields_of(t)) == ["a", "b", "c"]]
    t2 = [["a", "b"], ("a", "b")]
    pcases = [(SP.to_json(x), SP.to_json(y), {"a": 2, "b": 2, "c": 2}) for x in t3 for y in t3 if x != y]
    pcases += [(SP.to_json(x), SP.to_json(y), {"a": 2, "b": 2}) for x in t2 for y in t2 if x != y]
    if ctx.thorough:
        pcases += [(SP.to_json(x), SP.to_json(y), {"a": 1, "b": 2, "c": 2}) for x in t3 for y in t3 if x != y]
    dom_p = ctx.domain(
        "two splitters, same values, one cache root",
        bound=f"every ordered pair of different splitter trees over (a, b, c) without wrappers ({len(t3)} trees, lengths 2,2,2" + ("; 1,2,2" if ctx.thorough else "") + ") and over (a, b): the same task with the same values is "
        "submitted with the first tree and then with the second into one cache root in one process",
        rule="both submissions must give what their own splitter means (reference semantics); key = (first tree, second tree, lengths); non-trivial always",
        exhaustive=True,
    )
    for part in pmap(_w_pairs, chunks(pcases, 12), serial=not ctx.thorough, chunksize=1):
        for a, b, lens, fails in part:
            dom_p.case((a if isinstance(a, str) else json.dumps(a), b if isinstance(b, str) else json.dumps(b), tuple(sorted(lens.items()))), sample={"first": a, "second": b, "lengths": lens})
            for f in fails:
                ctx.fail(f["klass"], f["what"], f["case"], domain=dom_p)
    ph.mark('pairs')
    ph.done()


def replay(rec):
    case = rec["case"]
    if case.get("layer") == "pair":
        e2e = E2E()
        try:
            fails = check_pair_case(e2e, SP.from_json(case["first"]), SP.from_json(case["second"]), case["lens"])
        finally:
            e2e.close()
        print(f"replay C01: {[f['what'] for f in fails] or 'both submissions give what their splitter means'}")
        if fails:
            print(f"VIOLATION property=C01 replay={rec.get('_path', '')}")
            return 1
        return 0
    s = SP.from_json(case["splitter"])
    lens = case["lens"]
    if case.get("layer") == "e2e":
        e2e = E2E()
        try:
            f = check_e2e_case(e2e, s, lens)
        finally:
            e2e.close()
    else:
        f, _, _ = check_state_case(s, lens)
    print(f"replay C01: layer={case.get('layer')} splitter={s!r} lens={lens} -> {'FAILS: ' + f['what'] if f else 'ok'}")
    if f:
        print(f"VIOLATION property=C01 replay={rec.get('_path', '')}")
        return 1
    return 0
