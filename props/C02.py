"""C02 -- combine groups job outputs into an exact, ordered partition.

Engine B only (level "other").

  state   State(name, splitter, combiner).prepare_states(inputs):
          final_combined_ind_mapping (group order AND member order) == spec.splits.partition();
          groups pairwise disjoint and covering every job index; keys_final = remaining fields.
  e2e     F(...).split(splitter, ...).combine(combiner)(cache_root=tmp): one list per
          assignment of the remaining axes, in order, each holding -- in order -- what the
          jobs of that group received; a full combine gives one flat list.
          (this exercises LazyOutField._get_value.group_values, which does NOT use the mapping)
"""

from __future__ import annotations

import random

import spec.splits as SP
from props import C01 as H

KLASS = "rpn-removal-inner-becomes-outer"


def post(t):
    """reference RPN (post-order) of a tree, one-element wrappers removed"""
    if SP.is_field(t):
        return [t]
    if len(t) == 1:
        return post(t[0])
    out = []
    for i, c in enumerate(t):
        out += post(c)
        if i > 0:
            out.append("*" if isinstance(t, list) else ".")
    return out


def reduce_tree(t, removed):
    if SP.is_field(t):
        return None if t in removed else t
    kids = [k for k in (reduce_tree(c, removed) for c in t) if k is not None]
    if not kids:
        return None
    if len(kids) == 1:
        return kids[0]
    return kids if isinstance(t, list) else tuple(kids)


def removal_defect(splitter, combiner):
    """site part of the class predicate: the real remove_inp_from_splitter_rpn, applied to the
    post-order of `splitter` and the combined closure, keeps the right operands but turns an
    inner '.' of the reduced splitter into an outer '*'"""
    from pydra.engine.state import remove_inp_from_splitter_rpn

    closure = sorted(SP.combined_closure(splitter, combiner))
    red = reduce_tree(splitter, closure)
    ref = post(red) if red is not None else []
    try:
        real = remove_inp_from_splitter_rpn(post(splitter), closure)
    except Exception:
        return False
    if real == ref or len(real) != len(ref):
        return False
    diff = [(a, b) for a, b in zip(real, ref) if a != b]
    return all(a == "*" and b == "." for a, b in diff)


def classify(splitter, combiner, got_groups, exp_groups):
    """narrow finding class: ONLY spurious empty groups (nothing lost, duplicated or misplaced:
    deleting the empty groups gives exactly the expected partition) AND the RPN-removal defect
    is present for this (splitter, combiner)"""
    if not isinstance(got_groups, list) or not all(isinstance(g, list) for g in got_groups):
        return None
    if [g for g in got_groups if g] != exp_groups:
        return None
    return KLASS if removal_defect(splitter, combiner) else None


KLASS_X = "full-combine-through-cross-linked-axes"


def max_operand_axes(t):
    """largest number of axes of an operand of an inner product in the tree (0 if none)"""
    if SP.is_field(t):
        return 0
    m = max(max_operand_axes(c) for c in t)
    if isinstance(t, tuple) and len(t) > 1:
        m = max([m] + [len(SP.axes(c)) for c in t])
    return m


def classify_type_error(splitter, combiner, r, n_jobs):
    """narrow class of the second C02 finding: every axis is combined only THROUGH the inner-product
    links of multi-axis operands (the combiner names no axis completely on its own side, i.e. it is
    not closed), all jobs ran, and the submission then fails the output type check"""
    closure = SP.combined_closure(splitter, combiner)
    if (
        r["stage"] == "call"
        and (r["exc"] or "").startswith("TypeError: Incorrect type for field")
        and r["body_calls"] == n_jobs
        and not SP.remaining_fields(splitter, combiner)
        and closure != set(combiner)
        and max_operand_axes(splitter) >= 2
    ):
        return KLASS_X
    return None


def check_state_case(splitter, combiner, lens):
    fs = SP.fields_of(splitter)
    inputs = {f: H.values_for(f, lens[f]) for f in fs}
    exp = SP.partition(splitter, combiner, lens)
    n = len(SP.expand(splitter, lens))
    r = H.state_run(splitter, inputs, combiner=combiner)
    why = None
    got = None
    if r["rejected"]:
        why = f"rejected ({r['exc']})"
    else:
        got = r["mapping"]
        flat = [j for g in got for j in g] if isinstance(got, list) else None
        if got != exp:
            if flat is None:
                why = f"group keys are not 0..n-1: {got}"
            elif sorted(flat) != list(range(n)):
                why = f"groups do not partition the {n} jobs (lost or duplicated): {got}"
            else:
                why = f"groups {got} != expected {exp}"
    if why is None:
        return None
    if r["rejected"]:
        klass = None
    else:
        klass = classify(splitter, combiner, got, exp)
    return {
        "klass": klass,
        "what": f"State(splitter={splitter!r}, combiner={combiner}) lengths {lens}: {why}",
        "case": {"layer": "state", "splitter": SP.to_json(splitter), "combiner": list(combiner), "lens": lens, "got": got, "expected": exp, "exc": r["exc"]},
    }


def check_e2e_case(e2e, splitter, combiner, lens):
    fs = SP.fields_of(splitter)
    inputs = {f: H.values_for(f, lens[f]) for f in fs}
    enum = SP.expand(splitter, lens)
    groups = SP.partition(splitter, combiner, lens)
    full = not SP.remaining_fields(splitter, combiner)
    rows = [H.job_tuple(fs, inputs, ind) for ind in enum]
    exp = H.plain([rows[j] for j in groups[0]] if full else [[rows[j] for j in g] for g in groups])
    r = e2e.run(lambda: H.build_F(splitter, inputs, combiner=combiner))
    why, got, klass = None, None, None
    if r["exc"] is not None:
        why = f"raised at {r['stage']}: {r['exc']}"
        klass = classify_type_error(splitter, combiner, r, len(enum))
    else:
        got = H.plain(r["out"])
        if got != exp:
            why = "combined outputs differ from the expected partition"
            if not full and all(isinstance(g, list) for g in got):
                idx = {repr(row): j for j, row in enumerate(rows)}
                try:
                    got_groups = [[idx[repr(x)] for x in g] for g in got]
                    klass = classify(splitter, combiner, got_groups, groups)
                    why += f" (groups by job index: got {got_groups}, expected {groups})"
                except KeyError:
                    pass
        elif r["body_calls"] != len(enum):
            why = f"{len(enum)} jobs expected but the task body ran {r['body_calls']} times"
    if why is None:
        return None
    return {
        "klass": klass,
        "what": f"F.split({splitter!r}).combine({combiner}) lengths {lens}: {why}",
        "case": {"layer": "e2e", "splitter": SP.to_json(splitter), "combiner": list(combiner), "lens": lens, "got": got, "expected": exp, "run": {k: r[k] for k in ("stage", "exc", "body_calls", "job_dirs")}},
    }


def check_e2e_two_outputs(e2e, splitter, combiner, lens):
    """the same request on a task with TWO output fields: each field's combined groups hold that field's values"""
    fs = SP.fields_of(splitter)
    inputs = {f: H.values_for(f, lens[f]) for f in fs}
    enum = SP.expand(splitter, lens)
    groups = SP.partition(splitter, combiner, lens)
    full = not SP.remaining_fields(splitter, combiner)
    r = H.run_sequence(e2e, [lambda: H.build_F2(splitter, inputs, combiner=combiner)])[0]
    if r["exc"] is not None:
        return None  # rejections / crashes are the single-output domain's business (same State code)
    fails = []
    for name, tag in (("o1", "first"), ("o2", "second")):
        rows = [[tag] + H.job_tuple(fs, inputs, ind) for ind in enum]
        exp = H.plain([rows[j] for j in groups[0]] if full else [[rows[j] for j in g] for g in groups])
        got = H.plain(r["fields"].get(name))
        if got != exp:
            fails.append(
                {
                    "klass": None,
                    "what": f"F2.split({splitter!r}).combine({combiner}) lengths {lens}: output field {name} differs from the expected partition of ITS values (got {str(got)[:160]}, expected {str(exp)[:160]})",
                    "case": {"layer": "e2e-two-outputs", "splitter": SP.to_json(splitter), "combiner": list(combiner), "lens": lens, "field": name},
                }
            )
    return fails


def _w_e2e2(task):
    e2e = H.E2E()
    try:
        return [(tj, comb, lens, check_e2e_two_outputs(e2e, SP.from_json(tj), comb, lens)) for tj, comb, lens in task]
    finally:
        e2e.close()


def nontrivial(fs, lens):
    return len(fs) >= 2 and max(lens[f] for f in fs) >= 2


def _w_state(task):
    tj, lens_list = task
    s = SP.from_json(tj)
    fs = SP.fields_of(s)
    keys, fails, skipped = [], [], 0
    for lens in lens_list:
        if not SP.well_shaped(s, lens):
            skipped += 1
            continue
        for comb in SP.nonempty_subsets(fs):
            keys.append((tuple(lens[x] for x in fs), tuple(comb), nontrivial(fs, lens)))
            f = check_state_case(s, comb, lens)
            if f:
                fails.append(f)
    return tj, keys, fails, skipped


def _w_e2e(task):
    e2e = H.E2E()
    out = []
    try:
        for tj, comb, lens in task:
            out.append((tj, comb, lens, check_e2e_case(e2e, SP.from_json(tj), comb, lens)))
    finally:
        e2e.close()
    return out


def _collect(ctx, dom, results):
    skipped = 0
    for tj, keys, fails, sk in results:
        s = SP.from_json(tj)
        ck = SP.canon(s)
        skipped += sk
        for lv, comb, nt in keys:
            dom.case((ck, lv, comb), nontrivial=nt, sample={"splitter": repr(s), "combiner": list(comb), "lengths": list(lv)} if nt and len(dom.samples) < 3 else None)
        for f in fails:
            ctx.fail(f["klass"], f["what"], f["case"], domain=dom)
    return skipped


def usable(t):
    """trees the combiner domain ranges over.  Trees of the C01/C05 finding class (a one-element
    wrapper as a non-first operand) are rejected as splits on the unchanged tree, so there is nothing
    to combine; they are probed and come back into the domain as soon as pydra accepts them."""
    if not H.singleton_nonfirst(t):
        return True
    fs = SP.fields_of(t)
    return not H.state_run(t, {f: H.values_for(f, 1) for f in fs})["rejected"]


def deductive(ctx):
    """engine D: Task.combine stores exactly the combiner that was given (a single name wrapped in a list) on a COPY of the
    task, and only if its own field names are fields of the task -- contracts/combine_validation.py.  The grouping itself
    (State.combine algebra, LazyOutField grouping) is bounded only."""
    from contracts import combine_validation as CV
    from pyvc.verify import verify, summarize

    summarize(ctx, verify(ctx, CV.contract("property:C02")))


def run(ctx):
    try:
        deductive(ctx)
        _run(ctx)
    finally:
        H.close_pool()


def _run(ctx):
    ph = H.Phases(ctx)
    ctx.level = "other"
    ctx.explanation = (
        "bounded (engine B): State.final_combined_ind_mapping (group order and member order) of the real State is compared with a "
        "reference partition written from the property text (axes = classes of fields linked by inner products; combined axes = "
        "classes touching the combiner; one group per assignment of the remaining axes in enumeration order, members in enumeration "
        "order); groups must be disjoint and cover every job. A sample is run end to end through Task.split().combine() -> Submitter "
        "-> LazyOutField._get_value (group_values) with a task that returns what it received. Requests that are rejected as splits "
        "(unequal inner shapes) belong to C01 and are skipped here."
    )
    rnd = random.Random(ctx.seed)
    all_trees = SP.splitter_trees(H.FIELDS, 4, max_wrappers=1, labellings="ordered")
    trees = [t for t in all_trees if usable(t)]
    n_skipped_trees = len(all_trees) - len(trees)

    if ctx.thorough:
        dom = ctx.domain(
            "state/full",
            bound="every splitter tree over <= 4 of the fields a,b,c,d (leaves alphabetical, list/tuple nodes of arity >= 2 nested arbitrarily, <= 1 "
            "one-element wrapper; trees of the C01/C05 class 'singleton-operand-not-first' excluded while pydra rejects them as splits) x every length vector in {1,2,3}^k for which "
            "the split is well shaped x every non-empty subset of its fields as combiner -- the quantifier of the property",
            rule="one State.prepare_states per (tree, lengths, combiner); non-trivial = >= 2 fields and some length >= 2",
            exhaustive=True,
        )
        tasks = [(SP.to_json(t), H.all_lens(SP.fields_of(t), 1, 3)) for t in trees]
        skipped = _collect(ctx, dom, H.pmap(_w_state, tasks, chunksize=8))
        ph.mark('state-1')
        dom2 = ctx.domain(
            "state/all-labellings",
            bound="every wrapper-free tree over <= 4 fields with every injective labelling of its leaves by a,b,c,d (the alphabetical ones are in state/full) x {1,2,3}^k (well shaped) x every "
            "non-empty combiner subset",
            rule="as state/full",
            exhaustive=True,
        )
        seen = {SP.canon(t) for t in trees}
        extra = [t for t in SP.splitter_trees(H.FIELDS, 4, max_wrappers=0, labellings="all") if SP.canon(t) not in seen]
        tasks = [(SP.to_json(t), H.all_lens(SP.fields_of(t), 1, 3)) for t in extra]
        skipped += _collect(ctx, dom2, H.pmap(_w_state, tasks, chunksize=8))
        ph.mark('state-2')
    else:
        dom = ctx.domain(
            "state/core",
            bound="every splitter tree over <= 4 fields (as in thorough: leaves alphabetical, <= 1 one-element wrapper, class 'singleton-operand-not-first' "
            "excluded while pydra rejects them as splits) x every length vector in {1,2}^k for which the split is well shaped x every non-empty combiner subset",
            rule="one State.prepare_states per (tree, lengths, combiner); non-trivial = >= 2 fields and some length >= 2",
            exhaustive=True,
        )
        tasks = [(SP.to_json(t), H.all_lens(SP.fields_of(t), 1, 2)) for t in trees]
        skipped = _collect(ctx, dom, H.pmap(_w_state, tasks, serial=True))
        ph.mark('state-3')
        per_tree = 2
        dom2 = ctx.domain(
            "state/sampled",
            bound=f"every tree as above x {per_tree} length vectors containing a 3, drawn from {{1,2,3}}^k by seed {ctx.seed} x every non-empty combiner subset",
            rule="as state/core",
            exhaustive=False,
        )
        tasks = []
        for t in trees:
            lv = [v for v in H.all_lens(SP.fields_of(t), 1, 3) if max(v.values()) == 3 and SP.well_shaped(t, v)]
            tasks.append((SP.to_json(t), lv if len(lv) <= per_tree else rnd.sample(lv, per_tree)))
        skipped += _collect(ctx, dom2, H.pmap(_w_state, tasks, serial=True))
        ph.mark('state-4')
    ctx.note(f"{n_skipped_trees} trees of class singleton-operand-not-first excluded (pydra rejects them as splits); {skipped} (tree, lengths) pairs skipped because the split itself is ill shaped (C01)")

    # ---- end to end, fixed lengths: every combiner on every tree shape
    fixed_trees = [t for t in SP.splitter_trees(H.FIELDS, 4 if ctx.thorough else 2, max_wrappers=0, labellings="ordered")]
    if not ctx.thorough:
        fixed_trees += [["a", ("b", "c")], [("a", "b"), "c"], ["a", "b", "c"], ["a", ("b", "c", "d")], ["a", ["b", ("c", "d")]], (["a", "b"], ["c", "d"])]
    else:
        fixed_trees += [SP.relabel((["a", "b"], ["c", "d"]), dict(zip("abcd", p))) for p in (("b", "a", "d", "c"), ("c", "d", "a", "b"), ("a", "c", "b", "d"), ("d", "b", "c", "a"))]
    fixed_trees = [t for t in fixed_trees if SP.well_shaped(t, {f: 2 for f in H.FIELDS})]
    dom_f = ctx.domain(
        "e2e/lengths-2",
        bound=("every wrapper-free splitter tree over <= 4 fields (leaves alphabetical) that is well shaped, plus four other labellings of ([a,b],[c,d])" if ctx.thorough
               else "every wrapper-free splitter tree over <= 2 fields plus [a,(b,c)], [(a,b),c], [a,b,c], [a,(b,c,d)], [a,[b,(c,d)]], ([a,b],[c,d])")
        + " x every non-empty combiner subset, all lists of length 2",
        rule="one real submission F.split(tree).combine(combiner)(cache_root=tmp, worker='debug'); key = (tree, combiner); non-trivial = >= 2 fields",
        exhaustive=True,
    )
    cases = []
    for t in fixed_trees:
        fs = SP.fields_of(t)
        for comb in SP.nonempty_subsets(fs):
            cases.append((SP.to_json(t), comb, {f: 2 for f in fs}))
    for part in H.pmap(_w_e2e, H.chunks(cases, H.NPROCS * 3), serial=not ctx.thorough, chunksize=1):
        for tj, comb, lens, f in part:
            s = SP.from_json(tj)
            fs = SP.fields_of(s)
            dom_f.case((SP.canon(s), tuple(comb)), nontrivial=len(fs) >= 2, sample={"splitter": repr(s), "combiner": comb, "lengths": lens})
            if f:
                ctx.fail(f["klass"], f["what"], f["case"], domain=dom_f)
    ph.mark("e2e/lengths-2")
    dom_m = ctx.domain(
        "e2e/two-output-fields",
        bound="the e2e/lengths-2 requests on the same task with TWO output fields (o1, o2 carry a field tag)",
        rule="one real submission per (tree, combiner); every output field's (nested) list must be the expected partition of that field's values; requests pydra rejects are not counted here; non-trivial = some split field is left uncombined",
        exhaustive=True,
    )
    for part in H.pmap(_w_e2e2, H.chunks(cases, H.NPROCS * 3), serial=not ctx.thorough, chunksize=1):
        for tj, comb, lens, fails in part:
            s = SP.from_json(tj)
            if fails is None:
                continue
            dom_m.case((SP.canon(s), tuple(comb)), nontrivial=bool(SP.remaining_fields(s, comb)), sample={"splitter": repr(s), "combiner": comb, "lengths": lens})
            for f in fails:
                ctx.fail(f["klass"], f["what"], f["case"], domain=dom_m)
    ph.mark("e2e/two-output-fields")

    # ---- end to end, sampled
    n_e2e = ctx.pick(40, 1500)
    max_jobs = ctx.pick(18, 81)
    dom_e = ctx.domain(
        "e2e/sampled",
        bound=f"{n_e2e} (tree, lengths in {{1,2,3}}^k, combiner) triples (<= {max_jobs} jobs each) drawn by seed {ctx.seed} from the state domain (half from wrapper-free "
        "trees with arbitrary labellings)",
        rule="one real submission F.split(tree).combine(combiner)(cache_root=tmp, worker='debug'); non-trivial = >= 2 fields and some length >= 2",
        exhaustive=False,
    )
    cases = []
    perm_trees = SP.splitter_trees(H.FIELDS, 4, max_wrappers=0, labellings="all")
    tries = 0
    while len(cases) < n_e2e and tries < 100000:
        tries += 1
        t = rnd.choice(perm_trees if tries % 2 else trees)
        fs = SP.fields_of(t)
        lens = {f: rnd.randint(1, 3) for f in fs}
        if not SP.well_shaped(t, lens) or len(SP.expand(t, lens)) > max_jobs:
            continue
        comb = rnd.choice(list(SP.nonempty_subsets(fs)))
        cases.append((SP.to_json(t), comb, lens))
    for part in H.pmap(_w_e2e, H.chunks(cases, H.NPROCS * 3), serial=not ctx.thorough, chunksize=1):
        for tj, comb, lens, f in part:
            s = SP.from_json(tj)
            fs = SP.fields_of(s)
            dom_e.case((SP.canon(s), tuple(lens[x] for x in fs), tuple(comb)), nontrivial=nontrivial(fs, lens), sample={"splitter": repr(s), "combiner": comb, "lengths": lens})
            if f:
                ctx.fail(f["klass"], f["what"], f["case"], domain=dom_e)
    ph.mark('e2e')
    ph.done()


def replay(rec):
    case = rec["case"]
    s = SP.from_json(case["splitter"])
    comb, lens = case["combiner"], case["lens"]
    if case.get("layer") == "e2e-two-outputs":
        e2e = H.E2E()
        try:
            fails = check_e2e_two_outputs(e2e, SP.from_json(case["splitter"]), case["combiner"], case["lens"]) or []
        finally:
            e2e.close()
        print(f"replay C02: {[f['what'] for f in fails] or 'as expected'}")
        if fails:
            print(f"VIOLATION property=C02 replay={rec.get('_path', '')}")
            return 1
        return 0
    if case.get("layer") == "e2e":
        e2e = H.E2E()
        try:
            f = check_e2e_case(e2e, s, comb, lens)
        finally:
            e2e.close()
    else:
        f = check_state_case(s, comb, lens)
    print(f"replay C02: layer={case.get('layer')} splitter={s!r} combiner={comb} lens={lens} -> {'FAILS: ' + f['what'] if f else 'ok'}")
    if f:
        print(f"VIOLATION property=C02 replay={rec.get('_path', '')}")
        return 1
    return 0
