"""C03 -- workflow state propagation matches a nested-loop reference evaluation (engine B).

Generated small workflow graphs are built with the public API (workflow.define /
workflow.add / Task.split / Task.combine), run through the real submission path
(Submitter -> Job.run -> expand_workflow -> NodeExecution.start -> State.prepare_states /
prepare_inputs -> LazyOutField._get_value) with the debug worker on a temp cache root, and
EVERY node output (each node's `out` is also a workflow output) is compared structurally
with the nested-loop reference interpreter spec/wf_ref.py.
"""

from __future__ import annotations

import itertools
import json
import os
import random
import shutil
import tempfile
import traceback

from pydra.compose import python, workflow

import spec.wf_ref as REF

# --------------------------------------------------------------------------- tasks


@python.define
def P1(a, tag):
    return (tag, a)


@python.define
def P2(a, b, tag):
    return (tag, a, b)


def _build(nodes, inputs, prefix):
    """add the nodes of a graph spec to the workflow under construction"""
    outs = {}
    for nd in nodes:
        name, kind = nd["name"], nd["kind"]
        kw = {}
        for f in REF.FIELDS[kind]:
            src = nd["args"].get(f)
            if src is None:
                continue
            if src[0] == "in":
                kw[f] = inputs[src[1]]
            elif src[0] == "const":
                kw[f] = src[1]
            else:
                kw[f] = outs[src[1]].out
        sp = nd.get("split")
        if not sp:
            sfields, splitter = [], None
        elif isinstance(sp, str):
            sfields, splitter = [sp], sp
        else:
            sfields = list(sp[1:])
            splitter = list(sfields) if sp[0] == "*" else tuple(sfields)
        plain = {f: v for f, v in kw.items() if f not in sfields}
        if kind == "P1":
            t = P1(tag=prefix + name, **plain)
        elif kind == "P2":
            t = P2(tag=prefix + name, **plain)
        else:
            t = SubWf(spec=json.dumps(nd["sub"], sort_keys=True), prefix=prefix + name + ".", **plain)
        if splitter:
            t = t.split(splitter, **{f: kw[f] for f in sfields})
        if nd.get("combine"):
            t = t.combine(list(nd["combine"]))
        outs[name] = workflow.add(t, name=name)
    return outs


@workflow.define(outputs=["out"])
def SubWf(spec, prefix, p=None, q=None):
    sub = json.loads(spec)
    outs = _build(sub["nodes"], {"p": p, "q": q}, prefix)
    return outs[sub["out"]].out


def _gen_constructor(spec, x=None, y=None, z=None, c=None):
    g = json.loads(spec)
    outs = _build(g["nodes"], {"x": x, "y": y, "z": z, "c": c}, "")
    res = tuple(outs[nd["name"]].out for nd in g["nodes"])
    return res if len(res) > 1 else res[0]


GENWF = {
    k: workflow.define(_gen_constructor, outputs=[f"o{i}" for i in range(k)], name=f"GenWf{k}")
    for k in range(1, 6)
}


def make_task(graph):
    k = len(graph["nodes"])
    return GENWF[k](spec=json.dumps({"nodes": graph["nodes"]}, sort_keys=True), **graph["inputs"])


# --------------------------------------------------------------------------- one case


def _jsonable(v):
    if isinstance(v, (list, tuple)):
        return [_jsonable(i) for i in v]
    return v


def run_real(graph):
    """build + run the graph with real pydra.  Returns a dict:
    {"stage": "ok", "out": {node: value}} | {"stage": "build"|"run", "error": type, "msg": .., "where": ..}"""
    from pydra.engine.workflow import Workflow

    tmp = tempfile.mkdtemp(prefix="vf_c03_")
    cwd0 = os.getcwd()
    try:
        try:
            task = make_task(graph)
            Workflow.construct(task)
        except Exception as e:  # noqa
            return {"stage": "build", "error": type(e).__name__, "msg": str(e)[:300], "where": _where(e)}
        try:
            outputs = task(worker="debug", cache_root=tmp)
        except Exception as e:  # noqa
            return {"stage": "run", "error": type(e).__name__, "msg": str(e)[:300], "where": _where(e)}
        out = {nd["name"]: _jsonable(getattr(outputs, f"o{i}")) for i, nd in enumerate(graph["nodes"])}
        return {"stage": "ok", "out": out}
    finally:
        os.chdir(cwd0)
        try:
            Workflow.clear_cache()
        except Exception:
            pass
        shutil.rmtree(tmp, ignore_errors=True)


def _where(e):
    tb = traceback.extract_tb(e.__traceback__)
    for fr in reversed(tb):
        if "/pydra/" in fr.filename:
            return f"{fr.filename.split('/pydra/')[-1]}:{fr.name}"
    return ""


# --------------------------------------------------------------------------- generator

NAMES = ["A", "B", "C", "D", "E"]
LISTS = ["x", "y", "z"]
LVALS = {"x": [1, 2, 3], "y": [10, 20, 30], "z": [100, 200, 300]}
CONST = 7

# sub-workflow menu for the single nested-workflow node: (id, sub spec, p kind, q kind)
#   p/q kind: "any" = one value per job (upstream output, const or split element); "list" = whole list; None = unused
SUBS = {
    "s1": ({"nodes": [{"name": "S", "kind": "P1", "args": {"a": ["in", "p"]}, "split": None, "combine": []}], "out": "S"}, "any", None),
    "s2": ({"nodes": [{"name": "S", "kind": "P2", "args": {"a": ["in", "p"], "b": ["in", "q"]}, "split": "b", "combine": []}], "out": "S"}, "any", "list"),
    "s3": (
        {
            "nodes": [
                {"name": "S", "kind": "P2", "args": {"a": ["in", "p"], "b": ["in", "q"]}, "split": "b", "combine": []},
                {"name": "T", "kind": "P1", "args": {"a": ["node", "S"]}, "split": None, "combine": ["S.b"]},
            ],
            "out": "T",
        },
        "any",
        "list",
    ),
    "s4": (
        {
            "nodes": [
                {"name": "S", "kind": "P1", "args": {"a": ["in", "p"]}, "split": None, "combine": []},
                {"name": "T", "kind": "P2", "args": {"a": ["node", "S"], "b": ["in", "q"]}, "split": None, "combine": []},
            ],
            "out": "T",
        },
        "any",
        "any",
    ),
}


def _node_options(i, prev_nodes, used_lists, has_wf, allow_wf, rich):
    """all (node-without-combiner, lists_used) for the i-th node.  Sources per field:
    upstream node, fresh split list (L), const (K)."""
    name = NAMES[i]
    ups = [["node", p["name"]] for p in prev_nodes]
    free = [l for l in LISTS if l not in used_lists]
    out = []

    def srcs(allow_list=True):
        s = list(ups) + [["const", CONST]]
        if allow_list and free:
            s.append("L")
        return s

    # P1
    for a in srcs():
        if a == "L":
            out.append(({"name": name, "kind": "P1", "args": {"a": ["in", free[0]]}, "split": "a"}, [free[0]]))
        else:
            out.append(({"name": name, "kind": "P1", "args": {"a": a}, "split": None}, []))
    # P2
    for a in srcs():
        for b in srcs():
            if a == "L" and b == "L":
                if len(free) < 2:
                    continue
                args = {"a": ["in", free[0]], "b": ["in", free[1]]}
                sps = [["*", "a", "b"], [".", "a", "b"]] + ([["*", "b", "a"]] if rich else [])
                for sp in sps:
                    out.append(({"name": name, "kind": "P2", "args": dict(args), "split": sp}, free[:2]))
            elif a == "L":
                out.append(({"name": name, "kind": "P2", "args": {"a": ["in", free[0]], "b": b}, "split": "a"}, [free[0]]))
            elif b == "L":
                out.append(({"name": name, "kind": "P2", "args": {"a": a, "b": ["in", free[0]]}, "split": "b"}, [free[0]]))
            else:
                if a[0] == "const" and b[0] == "const":
                    continue  # stateless constant node: covered by P1(const)
                out.append(({"name": name, "kind": "P2", "args": {"a": a, "b": b}, "split": None}, []))
    # nested workflow (at most one per graph)
    if allow_wf and not has_wf:
        for sid, (sub, pk, qk) in SUBS.items():
            for p in srcs():
                fr = list(free)
                pl = []
                if p == "L":
                    pa, sp = ["in", fr[0]], "p"
                    pl = [fr.pop(0)]
                else:
                    pa, sp = p, None
                if qk is None:
                    out.append(({"name": name, "kind": "wf", "args": {"p": pa}, "split": sp, "sub": sub, "subid": sid}, pl))
                elif qk == "list":
                    if not fr:
                        continue
                    out.append(({"name": name, "kind": "wf", "args": {"p": pa, "q": ["in", fr[0]]}, "split": sp, "sub": sub, "subid": sid}, pl + [fr[0]]))
                else:
                    for q in ups + [["const", CONST]]:
                        if pa[0] == "const" and q[0] == "const":
                            continue
                        out.append(({"name": name, "kind": "wf", "args": {"p": pa, "q": q}, "split": sp, "sub": sub, "subid": sid}, pl))
    return out


def _combiner_options(node, axes, rich):
    """[] + every single axis + all axes (+ every pair when rich); axes named by their first field
    (rich: also by the second field of an inner group)"""

    def nm(ax, k=0):
        nd, flds = ax
        f = flds[min(k, len(flds) - 1)]
        return f if nd == node["name"] else f"{nd}.{f}"

    ids = [a for a, _n in axes]
    opts = [[]]
    for a in ids:
        opts.append([nm(a)])
        if rich and len(a[1]) > 1:
            opts.append([nm(a, 1)])
    if len(ids) > 1:
        opts.append([nm(a) for a in ids])
    if rich and len(ids) > 2:
        for pr in itertools.combinations(ids, 2):
            opts.append([nm(a) for a in pr])
    return opts


def gen_graphs(k, lens, rich, allow_wf=True):
    """every graph with exactly k nodes under the generator's grammar (see run() for the
    stated bound); `lens` = {list name: length}.  Yields graph dicts."""
    inputs_all = {l: LVALS[l][: lens[l]] for l in LISTS}

    def rec(nodes, used, has_wf):
        i = len(nodes)
        if i == k:
            g = {"inputs": {l: inputs_all[l] for l in used}, "nodes": nodes}
            yield g
            return
        for nd, ls in _node_options(i, nodes, used, has_wf, allow_wf, rich):
            nd = dict(nd)
            nd["combine"] = []
            partial = {"inputs": inputs_all, "nodes": nodes + [nd]}
            try:
                res = REF.eval_graph(partial)
            except REF.Rejected:
                # inner split over unequal lengths: keep as an expected-rejection case (no combiner)
                if i == k - 1:
                    yield {"inputs": {l: inputs_all[l] for l in used + ls}, "nodes": nodes + [nd]}
                continue
            axes = res[nd["name"]].all_axes
            for comb in _combiner_options(nd, axes, rich):
                nd2 = dict(nd)
                nd2["combine"] = comb
                yield from rec(nodes + [nd2], used + ls, has_wf or nd["kind"] == "wf")

    yield from rec([], [], False)


def useful(graph):
    """prune graphs that add nothing: every node except sources must have an upstream arg
    (guaranteed by construction) and at most 2 nodes may be unconsumed constants"""
    consumed = {s[1] for nd in graph["nodes"] for s in nd["args"].values() if s[0] == "node"}
    dangling_stateless = [
        nd for nd in graph["nodes"][:-1] if nd["name"] not in consumed and not nd.get("split") and all(s[0] != "node" for s in nd["args"].values())
    ]
    return not dangling_stateless


def graph_key(graph):
    return json.dumps({"i": graph["inputs"], "n": [{k: v for k, v in nd.items() if k != "sub"} for nd in graph["nodes"]]}, sort_keys=True)


def random_graph(rng, k, lens, rich, allow_wf=True):
    """random walk through the generator's grammar (same node / combiner options as gen_graphs)"""
    inputs_all = {l: LVALS[l][: lens[l]] for l in LISTS}
    for _attempt in range(50):
        nodes, used, has_wf = [], [], False
        ok = True
        for i in range(k):
            opts = _node_options(i, nodes, used, has_wf, allow_wf, rich)
            # prefer nodes that consume an upstream output (graphs, not forests)
            w = [3 if any(s[0] == "node" for s in nd["args"].values()) else 1 for nd, _ in opts]
            nd, ls = rng.choices(opts, weights=w)[0]
            nd = dict(nd)
            nd["combine"] = []
            try:
                res = REF.eval_graph({"inputs": inputs_all, "nodes": nodes + [nd]})
            except REF.Rejected:
                if i == k - 1:
                    nodes, used = nodes + [nd], used + ls
                    break
                ok = False
                break
            copts = _combiner_options(nd, res[nd["name"]].all_axes, rich)
            cw = [3] + [1] * (len(copts) - 1)
            nd["combine"] = rng.choices(copts, weights=cw)[0]
            nodes, used, has_wf = nodes + [nd], used + ls, has_wf or nd["kind"] == "wf"
        if not ok or len(nodes) != k:
            continue
        g = {"inputs": {l: inputs_all[l] for l in used}, "nodes": nodes}
        if useful(g):
            return g
    return None


# --------------------------------------------------------------------------- compare


def evaluate(graph):
    """run one graph through real pydra and through the reference.  Returns a verdict dict:
    {"verdict": "agree"|"rejected"|"mismatch"|"error", ...}"""
    try:
        exp_all = [REF.to_jsonable(r) for r in REF.readings(graph)]
        exp_err = None
    except REF.Rejected as e:
        exp_all, exp_err = None, str(e)
    real = run_real(graph)
    if exp_all is None:
        # the reference rejects the construction (inner split over unequal lengths):
        # pydra must raise, at build or run time, before producing outputs
        if real["stage"] == "ok":
            return {"verdict": "mismatch", "kind": "accepted-invalid", "expected": f"error ({exp_err})", "got": real["out"]}
        return {"verdict": "rejected", "stage": real["stage"], "error": real["error"], "expected_rejection": True}
    if real["stage"] == "build":
        return {"verdict": "rejected", "stage": "build", "error": real["error"], "msg": real["msg"], "where": real["where"], "expected": exp_all[0]}
    if real["stage"] == "run":
        return {"verdict": "error", "error": real["error"], "msg": real["msg"], "where": real["where"], "expected": exp_all[0]}
    for i, exp in enumerate(exp_all):
        if real["out"] == exp:
            return {"verdict": "agree", "reading": i}
    exp = exp_all[0]
    bad = [n for n in exp if real["out"].get(n) != exp[n]]
    return {"verdict": "mismatch", "kind": "output", "nodes": bad, "expected": {n: exp[n] for n in bad}, "got": {n: real["out"].get(n) for n in bad}}


def _pool_eval(graph):
    try:
        v = evaluate(graph)
        if v["verdict"] in ("mismatch", "error") and v.get("kind") != "accepted-invalid":
            klass, node, feats, sym = classify(graph, v)  # re-runs the failing node's ancestor slice: a finding must reproduce
            if sym == "not-reproduced":
                return graph, {"verdict": "flaky", "first": {k: v.get(k) for k in ("verdict", "error", "msg")}, "second": "agree"}
            v.update({"class": klass, "failing_node": node, "features": feats, "symptom": sym})
        return graph, v
    except Exception as e:  # noqa  harness failure, reported as checker error by the parent
        return graph, {"verdict": "harness-crash", "error": f"{type(e).__name__}: {e}", "tb": traceback.format_exc()[-1500:]}


def _pool_init():
    import logging
    from vf.core import assert_repo_import

    assert_repo_import()
    logging.getLogger("pydra").setLevel(logging.CRITICAL)


# --------------------------------------------------------------------------- triage: class predicates


def _ups(node):
    out = []
    for f in REF.FIELDS[node["kind"]]:
        s = node["args"].get(f)
        if s and s[0] == "node" and s[1] not in out:
            out.append(s[1])
    return out


def node_features(graph, name):
    """structural features of one node (computed with the reference's axis bookkeeping only)"""
    res = REF.eval_graph(graph)
    nodes = {n["name"]: n for n in graph["nodes"]}
    node = nodes[name]
    ups = _ups(node)
    feats = {}
    # (1) an upstream whose inner (zip) split group was combined by naming only some of its fields
    zp = []
    for u in ups:
        un = nodes[u]
        comb = un.get("combine") or []
        if not comb:
            continue
        named = {}
        for c in comb:
            nd, fld = c.split(".", 1) if "." in c else (u, c)
            named.setdefault(nd, set()).add(fld)
        for ax, _n in res[u].all_axes:
            if len(ax[1]) > 1 and named.get(ax[0]) and (named[ax[0]] & set(ax[1])) and not set(ax[1]) <= named[ax[0]]:
                zp.append((u, "no-axes-left" if not res[u].axes else "axes-left"))
    if zp:
        feats["zip-partially-named-combine-upstream"] = sorted(set(k for _u, k in zp))
    # (2) own splitter + combiner that removes every upstream axis
    up_axes = []
    for u in ups:
        for ax in res[u].axes:
            if ax not in up_axes:
                up_axes.append(ax)
    own = [ax for ax, _n in res[name].all_axes if ax[0] == name]
    remaining = [ax for ax, _n in res[name].axes]
    if own and up_axes and node.get("combine") and not any(ax in remaining for ax, _n in up_axes):
        feats["own-split+combiner-removes-all-upstream-axes"] = True
    # (3) one originating split reaching the node through two different upstream nodes
    def stateful_ups(u):
        return [w for w in _ups(nodes[u]) if res[w].axes]

    kinds = []
    for ax, _n in up_axes:
        contributors = [u for u in ups if any(a == ax for a, _m in res[u].axes)]
        if len(contributors) < 2:
            continue
        origin = [u for u in contributors if ax[0] == u]
        others = [u for u in contributors if ax[0] != u]
        if not origin:
            kinds.append("only-via-descendants")  # the diamond: no contributor is the originating node
            continue
        for u in others:
            un = nodes[u]
            if stateful_ups(origin[0]):
                # the originating node itself sits on top of upstream state (it re-split, and combined
                # the inherited axes away -- otherwise those axes are shared "only-via-descendants")
                kinds.append("direct(resplit-origin)+descendant")
            elif ax[0] not in _ups(un):
                kinds.append("direct+indirect-descendant")
            elif len(stateful_ups(u)) >= 2:
                kinds.append("direct+fan-in-child")
            elif un.get("split"):
                kinds.append("direct+resplit-child")
            elif un.get("combine"):
                kinds.append("direct+combining-child")
            elif nodes[origin[0]].get("combine"):
                kinds.append("direct(partially-combined)+child")
            else:
                kinds.append("direct+child")
    if kinds:
        order = [
            "only-via-descendants",
            "direct(resplit-origin)+descendant",
            "direct+indirect-descendant",
            "direct+fan-in-child",
            "direct+resplit-child",
            "direct+combining-child",
            "direct(partially-combined)+child",
            "direct+child",
        ]
        feats["shared-origin"] = sorted(set(kinds), key=order.index)
    # (4) a stateful direct upstream that also feeds another direct upstream which is a fan-in of
    #     >= 2 stateful nodes (whether or not an axis is still shared after combiners)
    st_ups = [u for u in ups if res[u].axes]
    for u2 in st_ups:
        inner = stateful_ups(u2)
        if len(inner) >= 2 and any(u1 in inner for u1 in st_ups if u1 != u2):
            feats["direct-upstream-also-feeds-fan-in-upstream"] = True
    # (5) a stateful direct upstream u1 that also feeds another direct upstream u2 which adds its own
    #     splitter and has combined all of u1's axes away (so nothing is shared any more: the expected
    #     iteration space is the plain outer product of u1's axes and u2's remaining axes)
    for u2 in st_ups:
        if not nodes[u2].get("split") or not nodes[u2].get("combine"):
            continue
        rem2 = [a for a, _m in res[u2].axes]
        for u1 in st_ups:
            if u1 != u2 and u1 in _ups(nodes[u2]) and not any(a in rem2 for a, _m in res[u1].axes):
                feats["direct-upstream-also-feeds-resplit-upstream-that-combined-it"] = True
    return feats


def slice_to(graph, name):
    """the sub graph of `name` and its ancestors (names kept)"""
    nodes = {n["name"]: n for n in graph["nodes"]}
    keep, todo = set(), [name]
    while todo:
        n = todo.pop()
        if n in keep:
            continue
        keep.add(n)
        todo += _ups(nodes[n])
    ns = [n for n in graph["nodes"] if n["name"] in keep]
    used = {s[1] for n in ns for s in n["args"].values() if s[0] == "in"}
    return {"inputs": {k: v for k, v in graph["inputs"].items() if k in used}, "nodes": ns}


def locate(graph, verdict):
    """failing node and the verdict of its ancestor sub graph (which doubles as the reproduction run).
    mismatch: the first mismatching node.  error: the first node whose ancestor slice fails, trying
    nodes that show one of the structural features first.  Returns (node, slice verdict) or
    (None, verdict of a full re-run) when no ancestor slice fails."""
    names = [n["name"] for n in graph["nodes"]]
    if verdict["verdict"] == "mismatch" and verdict.get("kind") == "output":
        cands = [[n for n in names if n in verdict["nodes"]][0]]
    else:
        withf = [n for n in names if _safe_features(graph, n)]
        nodes = {m["name"]: m for m in graph["nodes"]}
        rest = [n for n in names if n not in withf]
        cands = withf + [n for n in rest if _ups(nodes[n])] + [n for n in rest if not _ups(nodes[n])]
    for n in cands:
        sub = slice_to(graph, n)
        v = evaluate(sub)
        if v["verdict"] in ("mismatch", "error"):
            if v["verdict"] == "mismatch" and v.get("kind") == "output" and v["nodes"][0] != n:
                n = v["nodes"][0]  # an ancestor already differs
                sub = slice_to(graph, n)
                v = evaluate(sub)
                if v["verdict"] not in ("mismatch", "error"):
                    continue
            return n, v
    return None, evaluate(graph)


def _safe_features(graph, n):
    try:
        return node_features(slice_to(graph, n), n)
    except REF.Rejected:
        return {}


def symptom(v):
    if v["verdict"] == "error":
        return f"{v['error']}@{v['where'].split(':')[-1]}"
    if v["verdict"] == "mismatch" and v.get("kind") == "output":
        n = v["nodes"][0]
        exp, got = v["expected"][n], v["got"][n]
        if isinstance(exp, list) and isinstance(got, list):
            if len(got) > len(exp):
                return "more-jobs"
            if len(got) < len(exp):
                return "fewer-jobs"
        return "wrong-elements"
    return v["verdict"]


def classify(graph, verdict):
    """(class or None, failing node, features, symptom).  The class is a STRUCTURAL predicate on the
    failing node of the minimal failing sub graph; None (-> VIOLATION) when the failure shows none of
    the known structures or only appears on the whole graph; symptom 'not-reproduced' = flaky."""
    node, v2 = locate(graph, verdict)
    if node is None:
        if v2["verdict"] not in ("mismatch", "error"):
            return None, None, {}, "not-reproduced"
        return None, None, {}, "only-on-whole-graph:" + symptom(v2)
    sub = slice_to(graph, node)
    feats = node_features(sub, node)
    sym = symptom(v2)
    if "no-axes-left" in feats.get("zip-partially-named-combine-upstream", ()):
        # (fixed in /repo by f032687d: a hit is a regression) the zip-combined upstream has no state left,
        # but Workflow._create_graph still wired it as a stateful upstream
        return "consumer-of-zip-split-combined-by-one-field", node, feats, sym
    if "own-split+combiner-removes-all-upstream-axes" in feats and sym == "ValueError@_add_current_groups":
        return "own-split+combiner-removes-all-upstream-axes", node, feats, sym
    if "shared-origin" in feats and feats["shared-origin"][0] not in ("direct+child", "direct(partially-combined)+child"):
        # "direct+child" (A -> B -> C plus A -> C, B a plain pass-through) is the one shared-origin
        # structure pydra aligns correctly; a failure there is a new finding
        return "shared-origin:" + feats["shared-origin"][0], node, feats, sym
    if "direct-upstream-also-feeds-fan-in-upstream" in feats:
        return "direct-upstream-also-feeds-fan-in-upstream", node, feats, sym
    if "direct-upstream-also-feeds-resplit-upstream-that-combined-it" in feats:
        return "direct-upstream-also-feeds-resplit-upstream-that-combined-it", node, feats, sym
    own_comb = bool({n["name"]: n for n in sub["nodes"]}[node].get("combine"))
    if "axes-left" in feats.get("zip-partially-named-combine-upstream", ()) and own_comb and sym == "KeyError@combine_final_groups":
        # the node combines, and one of its upstreams (still stateful) combined a zip group by naming
        # only one of the linked fields
        return "combiner-after-upstream-combined-zip-split-by-one-field", node, feats, sym
    return None, node, feats, sym


# --------------------------------------------------------------------------- named shapes (always run)


def _n(name, kind, args, split=None, combine=(), sub=None):
    d = {"name": name, "kind": kind, "args": args, "split": split, "combine": list(combine)}
    if sub:
        d["sub"], d["subid"] = SUBS[sub][0], sub
    return d


def _N(u):
    return ["node", u]


def _I(x):
    return ["in", x]


K = ["const", CONST]


def shapes():
    """the graph shapes the property names, as (label, nodes) -- instantiated for every length vector"""
    A = _n("A", "P1", {"a": _I("x")}, "a")
    A2 = _n("A", "P2", {"a": _I("x"), "b": _I("y")}, ["*", "a", "b"])
    Az = _n("A", "P2", {"a": _I("x"), "b": _I("y")}, [".", "a", "b"])
    Bind = _n("B", "P1", {"a": _I("y")}, "a")
    out = [
        ("chain", [A, _n("B", "P1", {"a": _N("A")}), _n("C", "P1", {"a": _N("B")})]),
        ("chain-outer2", [A2, _n("B", "P1", {"a": _N("A")}), _n("C", "P2", {"a": _N("B"), "b": K})]),
        ("chain-zip", [Az, _n("B", "P1", {"a": _N("A")})]),
        ("chain-own-split", [A, _n("B", "P2", {"a": _N("A"), "b": _I("y")}, "b"), _n("C", "P1", {"a": _N("B")})]),
        ("chain-own-split-first-field", [A, _n("B", "P2", {"a": _I("y"), "b": _N("A")}, "a"), _n("C", "P1", {"a": _N("B")})]),
        ("fan-in", [A, Bind, _n("C", "P2", {"a": _N("A"), "b": _N("B")})]),
        ("fan-in-swapped", [A, Bind, _n("C", "P2", {"a": _N("B"), "b": _N("A")})]),
        ("fan-in-then-chain", [A, Bind, _n("C", "P2", {"a": _N("A"), "b": _N("B")}), _n("D", "P1", {"a": _N("C")})]),
        ("fan-in-combine-first", [A, Bind, _n("C", "P2", {"a": _N("A"), "b": _N("B")}, combine=["A.a"])]),
        ("fan-in-combine-second", [A, Bind, _n("C", "P2", {"a": _N("A"), "b": _N("B")}, combine=["B.a"])]),
        ("fan-in-combine-both", [A, Bind, _n("C", "P2", {"a": _N("A"), "b": _N("B")}, combine=["A.a", "B.a"])]),
        ("fan-in-stateless+split", [A, _n("B", "P1", {"a": K}), _n("C", "P2", {"a": _N("B"), "b": _N("A")})]),
        ("fan-out", [A, _n("B", "P1", {"a": _N("A")}), _n("C", "P2", {"a": _N("A"), "b": K})]),
        ("same-node-twice", [A, _n("B", "P2", {"a": _N("A"), "b": _N("A")})]),
        ("triangle", [A, _n("B", "P1", {"a": _N("A")}), _n("C", "P2", {"a": _N("A"), "b": _N("B")})]),
        ("triangle-swapped", [A, _n("B", "P1", {"a": _N("A")}), _n("C", "P2", {"a": _N("B"), "b": _N("A")})]),
        ("triangle-resplit", [A, _n("B", "P2", {"a": _N("A"), "b": _I("y")}, "b"), _n("C", "P2", {"a": _N("A"), "b": _N("B")})]),
        ("diamond", [A, _n("B", "P1", {"a": _N("A")}), _n("C", "P1", {"a": _N("A")}), _n("D", "P2", {"a": _N("B"), "b": _N("C")})]),
        ("diamond-outer2", [A2, _n("B", "P1", {"a": _N("A")}), _n("C", "P1", {"a": _N("A")}), _n("D", "P2", {"a": _N("B"), "b": _N("C")})]),
        ("diamond-resplit-branch", [A, _n("B", "P2", {"a": _N("A"), "b": _I("y")}, "b"), _n("C", "P1", {"a": _N("A")}), _n("D", "P2", {"a": _N("B"), "b": _N("C")})]),
        ("diamond-combined-branch", [A2, _n("B", "P1", {"a": _N("A")}, combine=["A.a"]), _n("C", "P1", {"a": _N("A")}), _n("D", "P2", {"a": _N("B"), "b": _N("C")})]),
        ("diamond-final-combine", [A, _n("B", "P1", {"a": _N("A")}), _n("C", "P1", {"a": _N("A")}), _n("D", "P2", {"a": _N("B"), "b": _N("C")}, combine=["A.a"])]),
        ("combine-at-source", [_n("A", "P1", {"a": _I("x")}, "a", ["a"]), _n("B", "P1", {"a": _N("A")})]),
        ("combine-partial-at-source", [_n("A", "P2", {"a": _I("x"), "b": _I("y")}, ["*", "a", "b"], ["a"]), _n("B", "P1", {"a": _N("A")})]),
        ("combine-intermediate", [A2, _n("B", "P1", {"a": _N("A")}, combine=["A.a"]), _n("C", "P1", {"a": _N("B")})]),
        ("combine-intermediate-then-final", [A2, _n("B", "P1", {"a": _N("A")}, combine=["A.a"]), _n("C", "P1", {"a": _N("B")}, combine=["A.b"])]),
        ("combine-final", [A2, _n("B", "P1", {"a": _N("A")}), _n("C", "P1", {"a": _N("B")}, combine=["A.b"])]),
        ("combine-zip-final", [Az, _n("B", "P1", {"a": _N("A")}, combine=["A.a", "A.b"])]),
        ("own-split-combine-own", [A, _n("B", "P2", {"a": _N("A"), "b": _I("y")}, "b", ["b"]), _n("C", "P1", {"a": _N("B")})]),
        ("own-split-combine-upstream", [A, _n("B", "P2", {"a": _N("A"), "b": _I("y")}, "b", ["A.a"]), _n("C", "P1", {"a": _N("B")})]),
        ("own-split-two-upstreams-combine-one", [A, Bind, _n("C", "wf", {"p": _N("A"), "q": _N("B")}, sub="s4"), _n("D", "P2", {"a": _N("C"), "b": _I("z")}, "b", ["A.a"])]),
        ("nested-wf-after-split", [A, _n("B", "wf", {"p": _N("A")}, sub="s1"), _n("C", "P1", {"a": _N("B")})]),
        ("nested-wf-split-inside", [A, _n("B", "wf", {"p": _N("A"), "q": _I("y")}, sub="s2"), _n("C", "P1", {"a": _N("B")}, combine=["A.a"])]),
        ("nested-wf-is-split", [_n("A", "wf", {"p": _I("x"), "q": _I("y")}, "p", sub="s3"), _n("B", "P1", {"a": _N("A")})]),
        ("nested-wf-fan-in", [A, Bind, _n("C", "wf", {"p": _N("A"), "q": _N("B")}, sub="s4")]),
    ]
    return out


def shape_graphs(maxlen, all_vectors=True):
    """all_vectors: every length vector in 1..maxlen; else only the uniform and the alternating ones"""
    for label, nodes in shapes():
        used = sorted({s[1] for n in nodes for s in n["args"].values() if s[0] == "in"})
        vecs = list(itertools.product(range(1, maxlen + 1), repeat=len(used)))
        if not all_vectors:
            keep = {tuple([2] * len(used)), tuple([1] * len(used)), tuple([1, 2, 1][: len(used)]), tuple([2, 1, 2][: len(used)])}
            vecs = [v for v in vecs if v in keep]
        for lens in vecs:
            yield label, {"inputs": {l: LVALS[l][:n] for l, n in zip(used, lens)}, "nodes": [dict(n) for n in nodes]}


# --------------------------------------------------------------------------- run / replay


def short(g):
    s = []
    for nd in g["nodes"]:
        a = ",".join(f"{f}={'%s.out' % v[1] if v[0] == 'node' else (v[1] if v[0] == 'in' else 'K')}" for f, v in nd["args"].items())
        s.append(
            f"{nd['name']}={nd['kind']}{'[' + nd.get('subid', '?') + ']' if nd['kind'] == 'wf' else ''}({a})"
            + (f".split({nd['split']})" if nd.get("split") else "")
            + (f".combine({nd['combine']})" if nd.get("combine") else "")
        )
    return "; ".join(s) + " | " + ",".join(f"{k}={v}" for k, v in g["inputs"].items())


def _run_domain(ctx, dom, graphs, ex, abort_s, stats):
    """evaluate ALL `graphs` (a fixed list that depends only on seed and tier).  `abort_s` is a
    last-resort guard: when it is exceeded the rest is NOT silently dropped, the run is UNDECIDED."""
    import time
    from vf.core import CheckerError

    done = 0
    CH = 48
    for i in range(0, len(graphs), CH):
        if time.time() - ctx.t0 > abort_s:
            dom.exhaustive = False
            ctx.undecide(
                f"domain:{dom.name}",
                f"time guard ({abort_s}s) hit after {done}/{len(graphs)} cases of this domain (machine overloaded?); the case list is fixed, re-run on a less loaded machine",
            )
            break
        chunk = graphs[i : i + CH]
        for g, v in ex.map(_pool_eval, chunk, chunksize=4):
            done += 1
            if v["verdict"] == "harness-crash":
                raise CheckerError(f"harness crashed on {short(g)}: {v['error']}\n{v.get('tb', '')}")
            stats[v["verdict"]] = stats.get(v["verdict"], 0) + 1
            if v["verdict"] == "flaky":
                # a failure that did not reproduce on an immediate re-run is not a finding (and not counted)
                ctx.note(f"not reproducible, not counted: {short(g)} first={v['first']} second={v['second']}")
                continue
            if v["verdict"] == "agree" and v.get("reading"):
                stats["agree-under-alternative-fan-in-order"] = stats.get("agree-under-alternative-fan-in-order", 0) + 1
            try:
                nt = REF.nontrivial(g)
            except REF.Rejected:
                nt = True
            dom.case(graph_key(g), nontrivial=nt, sample={"graph": short(g), "verdict": v["verdict"]})
            if v["verdict"] == "rejected":
                k = "expected-rejection" if v.get("expected_rejection") else f"build-rejection:{v.get('error')}"
                stats[k] = stats.get(k, 0) + 1
                if not v.get("expected_rejection"):
                    stats.setdefault("build-rejection-examples", [])
                    if len(stats["build-rejection-examples"]) < 5:
                        stats["build-rejection-examples"].append(f"{short(g)} -> {v.get('error')}: {v.get('msg', '')[:120]}")
            if v["verdict"] in ("mismatch", "error"):
                if v.get("kind") == "accepted-invalid":
                    what = f"pydra produced outputs for a construction the property makes meaningless ({v['expected']}): {short(g)}"
                    ctx.fail("accepted-inner-split-of-unequal-lengths", what, {"graph_json": json.dumps(g), "got": json.dumps(v["got"])}, domain=dom)
                    continue
                what = (
                    f"{short(g)} :: node {v['failing_node']} {v['symptom']}"
                    + (f" ({v.get('msg', '')[:80]})" if v["verdict"] == "error" else "")
                    + f" features={v['features']}"
                )
                # graph / values as JSON text: vf.core.json_safe truncates nesting deeper than 8
                case = {"graph_json": json.dumps(g), "graph": short(g), "failing_node": v["failing_node"], "symptom": v["symptom"], "features": v["features"]}
                if v["verdict"] == "mismatch":
                    n0 = v["nodes"][0]
                    case["expected"], case["got"] = json.dumps({n0: v["expected"][n0]})[:4000], json.dumps({n0: v["got"][n0]})[:4000]
                else:
                    case["error"] = f"{v['error']}: {v['msg'][:200]} @ {v['where']}"
                ctx.fail(v["class"], what, case, domain=dom)
    return done


def case_lists(thorough, seed):
    """the three fixed case lists of a tier (a pure function of tier and seed)"""
    rng = random.Random(seed)
    maxlen = 3 if thorough else 2
    # 1. named shapes
    sg = [g for _l, g in shape_graphs(maxlen, all_vectors=thorough)]
    # 2. every graph with <= 2 nodes (grammar of gen_graphs), lists of length 2
    small = []
    for k in (1, 2):
        small += [g for g in gen_graphs(k, {"x": 2, "y": 2, "z": 2}, rich=False, allow_wf=thorough) if useful(g)]
    # 3. seeded random walk over the same grammar, 3..4 (thorough 5) nodes, lengths 1..maxlen
    plan = {3: 600, 4: 900, 5: 500} if thorough else {3: 160, 4: 240}
    sampled, seen = [], set()
    for k, cnt in plan.items():
        got, tries = 0, 0
        while got < cnt and tries < cnt * 20:
            tries += 1
            lens = {l: rng.randint(1, maxlen) if rng.random() < 0.3 else 2 for l in LISTS}
            g = random_graph(rng, k, lens, rich=thorough, allow_wf=True)
            if g is None:
                continue
            key = graph_key(g)
            if key in seen:
                continue
            seen.add(key)
            sampled.append(g)
            got += 1
    rng.shuffle(sampled)
    return sg, small, sampled, plan


def deductive(ctx):
    """engine D: on every path of the real Node._set_state the node's state is set exactly once, is None only when there is
    nothing to split over, nothing to combine and no split upstream node, and otherwise is State(<node name>, ...) built from
    deep copies of the task's own splitter / combiner (prefixed with the node name) and from what _get_upstream_states()
    returned in this call -- contracts/node_state.py.  The merging algebra inside State is bounded only."""
    from contracts import node_state as NS
    from pyvc.verify import verify, summarize

    summarize(ctx, verify(ctx, NS.contract()))
    # Node._get_upstream_states: per input, the split upstream node is recorded under its name with the connecting field
    summarize(ctx, verify(ctx, NS.upstream_contract()))


def run(ctx):
    import concurrent.futures as cf
    import multiprocessing as mp

    deductive(ctx)
    ctx.level = "other"
    ctx.explanation = (
        "generated small workflow graphs (python tasks returning provenance tuples; chains, fan-in, fan-out, diamonds, "
        "own splitters on top of upstream state, combiners on any node, one nested workflow) are built with the public API, "
        "run through the real submission path with the debug worker on a temp cache root, and every node output (all are "
        "workflow outputs) is compared structurally with a nested-loop reference interpreter written from the property text "
        "(spec/wf_ref.py); the order of axes contributed by different upstream nodes is treated as open (every permutation accepted); "
        "failing cases are reduced to the failing node's ancestor sub graph and classified by a structural predicate"
    )
    maxlen = ctx.pick(2, 3)
    stats = {}
    # The case lists are FIXED by (tier, seed): count-bounded, never time-bounded.  `abort` is a
    # last-resort guard only (-> UNDECIDED, exit 2), sized well above the expected run time
    # (quick: ~25 s idle / ~100 s at 4x load; thorough: ~2 min idle / ~8 min at 4x load).
    abort = float(os.environ.get("VF_C03_ABORT_S") or ctx.pick(300, 870))  # env override: development aid on an overloaded machine
    sg, small, sampled, plan = case_lists(ctx.thorough, ctx.seed)

    with cf.ProcessPoolExecutor(max_workers=12, mp_context=mp.get_context("spawn"), initializer=_pool_init) as ex:
        d1 = ctx.domain(
            "named-shapes",
            bound=f"{len(shapes())} hand-named graph shapes (chain, fan-in, fan-out, triangle, diamond, re-split, combiners on source/intermediate/final nodes, nested workflow) x "
            + (f"every split-list length vector in 1..{maxlen}" if ctx.thorough else "the uniform (1.., 2..) and alternating (1,2,1 / 2,1,2) split-list length vectors"),
            rule="distinct by (graph, input lists); non-trivial = a split upstream node feeds a downstream node",
            exhaustive=True,
        )
        n1 = _run_domain(ctx, d1, sg, ex, abort, stats)
        d2 = ctx.domain(
            "all-graphs-up-to-2-nodes",
            bound="every graph of <= 2 nodes of the generator grammar (node = P1 | P2"
            + (" | one nested workflow" if ctx.thorough else "")
            + "; each input = earlier node output | fresh split list | constant; own splitter single/outer/inner; combiner = none, each single axis, all axes), lists of length 2",
            rule="distinct by canonical JSON of (nodes, inputs); non-trivial = a split upstream node feeds a downstream node",
            exhaustive=True,
        )
        n2 = _run_domain(ctx, d2, small, ex, abort, stats)
        d3 = ctx.domain(
            "sampled-graphs-3-to-%d-nodes" % max(plan),
            bound=f"a fixed list of {len(sampled)} distinct graphs drawn by a seeded random walk (seed {ctx.seed}) over the same grammar: "
            + ", ".join(f"{c} with {k} nodes" for k, c in plan.items())
            + f"; at most one nested workflow, split lists of length 1..{maxlen}",
            rule="distinct by canonical JSON of (nodes, inputs); non-trivial = a split upstream node feeds a downstream node",
            exhaustive=False,
        )
        n3 = _run_domain(ctx, d3, sampled, ex, abort, stats)
    ctx.note(f"evaluated: shapes {n1}/{len(sg)}, <=2 nodes {n2}/{len(small)}, sampled {n3}/{len(sampled)}")
    ctx.note(f"verdict counts: { {k: v for k, v in stats.items()} }")


def replay(rec):
    case = rec["case"]
    g = json.loads(case["graph_json"]) if "graph_json" in case else case["graph"]
    v = evaluate(g)
    print(f"replay C03: {short(g)}\n  verdict={v['verdict']}")
    if v["verdict"] in ("mismatch", "error"):
        for k in ("nodes", "expected", "got", "error", "msg", "where"):
            if k in v:
                print(f"  {k}: {json.dumps(v[k])[:600]}")
        print(f"VIOLATION property=C03 replay={rec.get('_path', '')}")
        return 1
    return 0


def _pool_eval_noclass(graph):
    """development aid (used from .scratch experiments against a patched tree): verdict only"""
    return graph, evaluate(graph)
