"""C04 -- splitting nested containers visits every inner element.

Engine B only (level "other").

  state/alone     State(N, "x", container_ndim={N.x: n}).prepare_states({N.x: v}) for every
                  nested list v of depth <= 3 (inner lengths 0..3, regular and ragged) and
                  n in 1..depth: the state values must be flatten_depth(v, n), in order.
  state/in-split  the same field inside the 2-field splitters [x, y], [y, x], (x, y), (y, x)
                  (depth <= 2 on both sides): product / positional pairing of the two
                  depth-n element lists.
  e2e             G(x, y, k1).split(..., container_ndim=...)(cache_root=tmp) on a sample.
"""

from __future__ import annotations

import itertools
import random

import spec.splits as SP
from props import C01 as H

KLASS = "ragged-below-container-ndim"


def _shift(v, base):
    if isinstance(v, list):
        return [_shift(x, base) for x in v]
    return v + base


def max_len(v):
    if not isinstance(v, list):
        return 0
    return max([len(v)] + [max_len(x) for x in v])


def renumber(v, c=None):
    """leaves -> 1, 2, 3, ... depth first (distinct sentinels)"""
    c = c if c is not None else [0]
    if isinstance(v, list):
        return [renumber(x, c) for x in v]
    c[0] += 1
    return c[0]


# ------------------------------------------------------------------ single field


def check_alone(v, n):
    exp = SP.flatten_depth(v, n)
    r = H.state_run("x", {"x": v}, container_ndim={"x": n})
    got = None if r["rejected"] else [d["x"] for d in r["val"]]
    if got == exp and not r["rejected"] and len(r["ind"]) == len(exp):
        return None
    why = f"raised {r['exc']}" if r["rejected"] else f"{len(got)} states {got}"
    return {
        "klass": KLASS if SP.ragged_below(v, n) else None,
        "what": f"split x={v} container_ndim={n}: expected the {len(exp)} elements {exp} at depth {n}, {why}",
        "case": {"layer": "alone", "v": v, "n": n, "got": got, "expected": exp, "exc": r["exc"]},
    }


def _w_alone(task):
    """task = (depth, maxlen, prefix) : all values of `depth` whose first children are `prefix`
    (indices into the list of depth-1 values), or an explicit list of index tuples"""
    depth, maxlen, spec = task
    subs = [None] if depth == 1 else list(SP.nested_lists(depth - 1, maxlen))
    fails = []

    def values():
        if spec[0] == "explicit":
            for idx in spec[1]:
                yield idx
        else:
            k, first = spec[1], spec[2]
            if k == 0:
                yield ()
            else:
                for rest in itertools.product(range(len(subs)), repeat=k - 1):
                    yield (first,) + rest

    keys = []
    skip_small = len(spec) > 2 and spec[0] == "explicit" and spec[2]
    for idx in values():
        v = renumber([subs[i] if depth > 1 else 0 for i in idx])
        if skip_small and max_len(v) <= spec[2]:
            continue  # already in the exhaustive core domain
        for n in range(1, depth + 1):
            nt = len(SP.flatten_depth(v, n)) >= 2 and n >= 2
            keys.append((depth, idx, n, nt))
            f = check_alone(v, n)
            if f:
                fails.append(f)
    return keys, fails


# ------------------------------------------------------------------ inside a 2-field splitter


def expected_pair(form, vx, nx, vy, ny):
    """admissible outcomes (list of REJECT / list of [x_elem, y_elem]) for the splitter `form`"""
    X, Y = SP.flatten_depth(vx, nx), SP.flatten_depth(vy, ny)
    if form == "[x,y]":
        return [[[a, b] for a in X for b in Y]]
    if form == "[y,x]":
        return [[[a, b] for b in Y for a in X]]
    # inner product (x,y) / (y,x): positional pairing
    pair = [[a, b] for a, b in zip(X, Y)]
    sx, sy = SP.rect_shape(vx, nx), SP.rect_shape(vy, ny)
    if len(X) != len(Y):
        return [SP.REJECT]
    if sx is not None and sx == sy:
        return [pair]
    if sx is None or sy is None:
        # ragged operand: the property promises one job per element, so pairing is the answer
        return [pair]
    return [pair, SP.REJECT]  # same count, different (rectangular) shapes: open in the text


def check_pair(form, vx, nx, vy, ny):
    splitter = {"[x,y]": ["x", "y"], "[y,x]": ["y", "x"], "(x,y)": ("x", "y"), "(y,x)": ("y", "x")}[form]
    oc = expected_pair(form, vx, nx, vy, ny)
    r = H.state_run(splitter, {"x": vx, "y": vy}, container_ndim={"x": nx, "y": ny})
    got = SP.REJECT if r["rejected"] else [[d["x"], d["y"]] for d in r["val"]]
    if got in oc:
        return None
    ragged = SP.ragged_below(vx, nx) or SP.ragged_below(vy, ny)
    return {
        "klass": KLASS if ragged else None,
        "what": f"split {form} x={vx} (ndim {nx}) y={vy} (ndim {ny}): got {got if got != SP.REJECT else r['exc']}, admissible {oc}",
        "case": {"layer": "pair", "form": form, "vx": vx, "nx": nx, "vy": vy, "ny": ny, "got": got, "admissible": oc, "exc": r["exc"]},
    }


FORMS = ["[x,y]", "[y,x]", "(x,y)", "(y,x)"]


def pair_operands(maxlen, base):
    out = []
    for v in SP.nested_lists(1, maxlen):
        out.append((_shift(v, base), 1))
    for v in SP.nested_lists(2, maxlen):
        for n in (1, 2):
            out.append((_shift(v, base), n))
    return out


def _w_pair(task):
    xs, ys = task
    keys, fails = [], []
    for (vx, nx), (vy, ny) in itertools.product(xs, ys):
        for form in FORMS:
            nt = len(SP.flatten_depth(vx, nx)) >= 2 and max(nx, ny) >= 2
            keys.append((form, repr(vx), nx, repr(vy), ny, nt))
            f = check_pair(form, vx, nx, vy, ny)
            if f:
                fails.append(f)
    return keys, fails


# ------------------------------------------------------------------ end to end


def build_G(splitter, values, ndims):
    init = {f: H.unsplit_value(f) for f in "xy" if f not in values}
    nd = {f: n for f, n in ndims.items() if n != 1}
    return H.G(k1=H.K1, **init).split(splitter, container_ndim=nd or None, **{f: [x for x in v] for f, v in values.items()})


def check_e2e(e2e, case):
    if case["layer"] == "alone":
        v, n = case["v"], case["n"]
        oc = [[[e, H.unsplit_value("y"), H.K1] for e in SP.flatten_depth(v, n)]]
        r = e2e.run(lambda: build_G("x", {"x": v}, {"x": n}))
        ragged = SP.ragged_below(v, n)
        desc = f"G.split('x', x={v}, container_ndim={{'x': {n}}})"
    else:
        form, vx, nx, vy, ny = case["form"], case["vx"], case["nx"], case["vy"], case["ny"]
        splitter = {"[x,y]": ["x", "y"], "[y,x]": ["y", "x"], "(x,y)": ("x", "y"), "(y,x)": ("y", "x")}[form]
        oc = [o if o == SP.REJECT else [[a, b, H.K1] for a, b in o] for o in expected_pair(form, vx, nx, vy, ny)]
        r = e2e.run(lambda: build_G(splitter, {"x": vx, "y": vy}, {"x": nx, "y": ny}))
        ragged = SP.ragged_below(vx, nx) or SP.ragged_below(vy, ny)
        desc = f"G.split({form}, x={vx} ndim {nx}, y={vy} ndim {ny})"
    if r["exc"] is not None:
        got = SP.REJECT
        ok = SP.REJECT in oc and not r["body_calls"] and not r["job_dirs"]
    else:
        got = H.plain(r["out"])
        ok = got in oc
    if ok:
        return None
    return {
        "klass": KLASS if ragged else None,
        "what": f"{desc}: got {got if got != SP.REJECT else r['exc']}, admissible {oc}",
        "case": dict(case, e2e=True, got=got, admissible=oc, run={k: r[k] for k in ("stage", "exc", "body_calls", "job_dirs")}),
    }


def check_ndim_sequence(e2e, v, dims):
    """the same task with the same nested value split several times, each time with another container_ndim, into ONE cache
    root in one process: every submission must flatten to its own depth, whatever the earlier ones left behind"""
    rs = H.run_sequence(e2e, [(lambda n=n: build_G("x", {"x": v}, {"x": n})) for n in dims])
    fails = []
    for i, (n, r) in enumerate(zip(dims, rs)):
        exp = [[e, H.unsplit_value("y"), H.K1] for e in SP.flatten_depth(v, n)]
        got = SP.REJECT if r["exc"] is not None else H.plain(r["out"])
        if got != exp:
            fails.append(
                {
                    "klass": KLASS if SP.ragged_below(v, n) else None,
                    "what": f"G.split('x', x={v}) submitted with container_ndim {list(dims)} one after the other into one cache root: submission {i + 1} (container_ndim={n}) gave {got if got != SP.REJECT else r['exc']}, expected {exp}",
                    "case": {"layer": "ndim-sequence", "v": v, "dims": list(dims), "index": i, "got": got, "expected": exp},
                }
            )
    return fails


def _w_seq(cases):
    e2e = H.E2E()
    try:
        return [(v, dims, check_ndim_sequence(e2e, v, dims)) for v, dims in cases]
    finally:
        e2e.close()


def _w_e2e(cases):
    e2e = H.E2E()
    try:
        return [(c, check_e2e(e2e, c)) for c in cases]
    finally:
        e2e.close()


# ------------------------------------------------------------------ run


def _collect(ctx, dom, results, mk_sample):
    for keys, fails in results:
        for k in keys:
            dom.case(k[:-1], nontrivial=k[-1], sample=mk_sample(k) if k[-1] and len(dom.samples) < 3 else None)
        for f in fails:
            ctx.fail(f["klass"], f["what"], f["case"], domain=dom)


def deductive(ctx):
    """engine D: State.container_ndim_all -- the effective container dimension of a field is the user's (default 1) plus the
    inner dimension, computed on a deep copy of the user's dict -- contracts/container_ndim.py.  Which elements become jobs
    (input_shape / flatten / map_splits) is bounded only."""
    from contracts import container_ndim as CN
    from pyvc.verify import verify, summarize

    summarize(ctx, verify(ctx, CN.contract()))


def run(ctx):
    try:
        deductive(ctx)
        _run(ctx)
    finally:
        H.close_pool()


def _run(ctx):
    ph = H.Phases(ctx)
    ctx.level = "other"
    ctx.explanation = (
        "bounded (engine B): for a field split with container_ndim = n the real State (input_shape, splits, flatten, map_splits) must "
        "produce one state per element found at depth n of the value, depth first -- compared with flatten_depth(v, n) for every nested "
        "list in the bound, alone and inside the four 2-field outer/inner splitters; a sample is run end to end through "
        "Task.split(container_ndim=...) and the debug worker. Inner products of operands with the same element count but different "
        "rectangular shapes may be rejected or paired (open in the text)."
    )
    rnd = random.Random(ctx.seed)
    n2 = len(list(SP.nested_lists(2, 3)))  # 85

    def sample_alone(k):
        return {"depth": k[0], "children (indices of depth-1 values)": list(k[1]), "container_ndim": k[2]}

    # depth 1 and 2: always exhaustive
    dom12 = ctx.domain(
        "alone/depth<=2",
        bound="every nested list of depth 1 or 2 with inner lengths 0..3 (4 + 85 values, regular and ragged) x container_ndim 1..depth",
        rule="one State.prepare_states per (value, n); non-trivial = n >= 2 and >= 2 elements at depth n",
        exhaustive=True,
    )
    tasks = [(1, 3, ("prefix", k, 0)) for k in range(4)]
    tasks += [(2, 3, ("prefix", 0, 0))] + [(2, 3, ("prefix", k, first)) for k in (1, 2, 3) for first in range(4)]
    _collect(ctx, dom12, H.pmap(_w_alone, tasks, serial=True), sample_alone)
    ph.mark('state-1')

    if ctx.thorough:
        dom3 = ctx.domain(
            "alone/depth3",
            bound="every nested list of depth 3 with inner lengths 0..3 (621436 values, regular and ragged) x container_ndim 1..3 -- the quantifier of the property",
            rule="as alone/depth<=2",
            exhaustive=True,
        )
        tasks = [(3, 3, ("prefix", 0, 0))] + [(3, 3, ("prefix", k, first)) for k in (1, 2, 3) for first in range(n2)]
        _collect(ctx, dom3, H.pmap(_w_alone, tasks, chunksize=1, lazy=True), sample_alone)
        ph.mark('state-2')
    else:
        dom3 = ctx.domain(
            "alone/depth3-core",
            bound="every nested list of depth 3 with inner lengths 0..2 (183 values) x container_ndim 1..3",
            rule="as alone/depth<=2",
            exhaustive=True,
        )
        n2s = len(list(SP.nested_lists(2, 2)))  # 13
        tasks = [(3, 2, ("prefix", 0, 0))] + [(3, 2, ("prefix", k, first)) for k in (1, 2) for first in range(n2s)]
        _collect(ctx, dom3, H.pmap(_w_alone, tasks, serial=True), sample_alone)
        ph.mark('state-3')
        n_s = 6000
        dom3s = ctx.domain(
            "alone/depth3-sampled",
            bound=f"{n_s} nested lists of depth 3 with 1..3 children, each child drawn uniformly from the 85 depth-2 lists (inner lengths 0..3) by seed {ctx.seed} "
            "(values already in alone/depth3-core dropped) x container_ndim 1..3",
            rule="as alone/depth<=2",
            exhaustive=False,
        )
        idxs = sorted({tuple(rnd.randrange(n2) for _ in range(rnd.randint(1, 3))) for _ in range(n_s)})
        _collect(ctx, dom3s, [_w_alone((3, 3, ("explicit", idxs, 2)))], sample_alone)
        ph.mark('state-4')

    # inside 2-field splitters
    xs = pair_operands(3, 0)
    ys = pair_operands(ctx.pick(2, 3), 1000)
    domp = ctx.domain(
        "in-split",
        bound=f"x: every nested list of depth <= 2 with inner lengths 0..3 x container_ndim 1..depth ({len(xs)} operands); y: the same with inner lengths "
        f"0..{ctx.pick(2, 3)} ({len(ys)} operands); splitters [x,y], [y,x], (x,y), (y,x)",
        rule="one State.prepare_states per (splitter, x, n_x, y, n_y); non-trivial = some container_ndim >= 2 and >= 2 elements of x",
        exhaustive=True,
    )
    res = H.pmap(_w_pair, [(c, ys) for c in H.chunks(xs, 24)], serial=not ctx.thorough, chunksize=1)
    _collect(ctx, domp, res, lambda k: {"splitter": k[0], "x": k[1], "n_x": k[2], "y": k[3], "n_y": k[4]})
    ph.mark('state-5')

    # end to end
    n_e = ctx.pick(70, 1500)
    dome = ctx.domain(
        "e2e",
        bound=f"{n_e} requests drawn by seed {ctx.seed}: half single-field (depth <= 3, inner lengths 0..3, <= 30 leaves), half from the in-split domain; "
        "plus the fixed witnesses [[1,2],[3,4]] n=2, [[1,2],[3]] n=2, [[],[0]] n=2, [[[1],[2,3]],[[4],[5,6]]] n=3",
        rule="one real submission G.split(..., container_ndim=...)(cache_root=tmp, worker='debug'); non-trivial = some container_ndim >= 2",
        exhaustive=False,
    )
    cases = [
        {"layer": "alone", "v": [[1, 2], [3, 4]], "n": 2},
        {"layer": "alone", "v": [[1, 2], [3]], "n": 2},
        {"layer": "alone", "v": [[], [0]], "n": 2},
        {"layer": "alone", "v": [[[1], [2, 3]], [[4], [5, 6]]], "n": 3},
    ]
    d2 = list(SP.nested_lists(2, 3))
    while len(cases) < n_e + 4:
        if len(cases) % 2:
            depth = rnd.choice((2, 3, 3))
            v = renumber([rnd.choice(d2) for _ in range(rnd.randint(0, 3))]) if depth == 3 else renumber(rnd.choice(d2))
            if len(SP.flatten_depth(v, depth)) > 30:
                continue
            cases.append({"layer": "alone", "v": v, "n": rnd.randint(1, depth)})
        else:
            (vx, nx), (vy, ny) = rnd.choice(xs), rnd.choice(ys)
            if len(SP.flatten_depth(vx, nx)) * max(1, len(SP.flatten_depth(vy, ny))) > 40:
                continue
            cases.append({"layer": "pair", "form": rnd.choice(FORMS), "vx": vx, "nx": nx, "vy": vy, "ny": ny})
    for part in H.pmap(_w_e2e, H.chunks(cases, H.NPROCS * 3), serial=not ctx.thorough, chunksize=1):
        for c, f in part:
            nd = max(c.get("n", 1), c.get("nx", 1), c.get("ny", 1))
            dome.case(repr(sorted(c.items())), nontrivial=nd >= 2, sample=c)
            if f:
                ctx.fail(f["klass"], f["what"], f["case"], domain=dome)
    ph.mark('e2e')
    # the same value under different container dimensions, one cache root
    import itertools as _it

    seq_vals = [[[1, 2, 3], [4, 5, 6]], [[1, 2], [3, 4]], [[[1], [2]], [[3], [4]]], [[[1, 2]], [[3, 4]]]]
    scases = []
    for v in seq_vals:
        depth = 3 if isinstance(v[0][0], list) else 2
        for dims in _it.permutations(range(1, depth + 1), 2):
            scases.append((v, dims))
        if depth == 3:
            scases += [(v, (3, 2, 1)), (v, (1, 2, 3))]
    doms = ctx.domain(
        "same value, different container_ndim, one cache root",
        bound=f"{len(seq_vals)} rectangular nested values (depth 2 and 3) x every ordered pair of different container dimensions (and the two monotone triples for depth 3): the same task with the same value is submitted once per dimension into one cache root in one process",
        rule="one case per (value, sequence of dimensions); every submission must give the elements at its own depth; non-trivial always",
        exhaustive=True,
    )
    for part in H.pmap(_w_seq, H.chunks(scases, 8), serial=not ctx.thorough, chunksize=1):
        for v, dims, fails in part:
            doms.case((repr(v), tuple(dims)), sample={"value": v, "dims": list(dims)})
            for f in fails:
                ctx.fail(f["klass"], f["what"], f["case"], domain=doms)
    ph.mark('ndim-sequences')
    ph.done()


def replay(rec):
    case = rec["case"]
    if case.get("layer") == "ndim-sequence":
        e2e = H.E2E()
        try:
            fails = check_ndim_sequence(e2e, case["v"], tuple(case["dims"]))
        finally:
            e2e.close()
        print(f"replay C04: value {case['v']} dims {case['dims']}: {[f['what'] for f in fails] or 'as expected'}")
        if fails:
            print(f"VIOLATION property=C04 replay={rec.get('_path', '')}")
            return 1
        return 0
    if case.get("e2e"):
        e2e = H.E2E()
        try:
            f = check_e2e(e2e, {k: v for k, v in case.items() if k in ("layer", "v", "n", "form", "vx", "nx", "vy", "ny")})
        finally:
            e2e.close()
    elif case["layer"] == "alone":
        f = check_alone(case["v"], case["n"])
    else:
        f = check_pair(case["form"], case["vx"], case["nx"], case["vy"], case["ny"])
    print(f"replay C04: {case.get('layer')} -> {'FAILS: ' + f['what'] if f else 'ok'}")
    if f:
        print(f"VIOLATION property=C04 replay={rec.get('_path', '')}")
        return 1
    return 0
