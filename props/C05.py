"""C05 -- equivalent splitter spellings agree; ill-formed split/combine is rejected early.

Engine B only (level "other").

 (a) spellings   every tree t in the bound is compared with the normal-form representative
                 nf(t) of its equivalence class (one-element wrappers removed, list-in-list /
                 tuple-in-tuple spliced): same outcome = both rejected before any job, or
                 identical states_ind AND states_val in the same order.  Equality with the
                 representative is transitive, so all pairs inside a class agree.
                 A sample of pairs is also run end to end (identical output lists).
 (b) rejection   every valid request (tree, values, optional combiner) is perturbed by ONE step
                 into each kind of ill-formed request named by the property; the perturbed
                 request must raise, the task body must never run and no python-* job directory
                 may appear under the cache root.  The unperturbed request is run as a control.
"""

from __future__ import annotations

import random

import spec.splits as SP
from props import C01 as H

KLASS_A = "singleton-operand-not-first"


# ------------------------------------------------------------------ (a) equivalent spellings


def outcome(splitter, lens):
    fs = SP.fields_of(splitter)
    inputs = {f: H.values_for(f, lens[f]) for f in fs}
    r = H.state_run(splitter, inputs)
    if r["rejected"]:
        return SP.REJECT, r["exc"]
    return {"ind": r["ind"], "val": r["val"]}, None


def check_equiv_state(t, nf, lens, nf_cache):
    key = tuple(sorted(lens.items()))
    if key not in nf_cache:
        nf_cache[key] = outcome(nf, lens)
    (o1, e1), (o2, e2) = outcome(t, lens), nf_cache[key]
    if o1 == o2:
        return None
    klass = KLASS_A if (o1 == SP.REJECT and o2 != SP.REJECT and H.singleton_nonfirst(t)) else None
    d1 = f"rejected ({e1})" if o1 == SP.REJECT else f"{len(o1['ind'])} states"
    d2 = f"rejected ({e2})" if o2 == SP.REJECT else f"{len(o2['ind'])} states"
    return {
        "klass": klass,
        "what": f"equivalent spellings disagree for lengths {lens}: {t!r} -> {d1}; {nf!r} -> {d2}",
        "case": {"kind": "equiv-state", "t": SP.to_json(t), "nf": SP.to_json(nf), "lens": lens, "t_outcome": o1, "nf_outcome": o2},
    }


def _w_equiv(task):
    tj, lens_list = task
    t = SP.from_json(tj)
    nf = SP.normal_form(t)
    fs = SP.fields_of(t)
    keys, fails, cache = [], [], {}
    for lens in lens_list:
        keys.append((tuple(lens[x] for x in fs), len(fs) >= 2 and max(lens.values()) >= 2))
        f = check_equiv_state(t, nf, lens, cache)
        if f:
            fails.append(f)
    return tj, keys, fails


def check_equiv_e2e(e2e, t, nf, lens):
    fs = SP.fields_of(t)
    inputs = {f: H.values_for(f, lens[f]) for f in fs}
    res = []
    for s in (t, nf):
        r = e2e.run(lambda: H.build_F(s, inputs))
        if r["exc"] is not None:
            res.append((SP.REJECT, r))
        else:
            res.append((H.plain(r["out"]), r))
    (o1, r1), (o2, r2) = res
    bad_late = [r for o, r in res if o == SP.REJECT and (r["body_calls"] or r["job_dirs"])]
    if o1 == o2 and not bad_late:
        return None
    klass = KLASS_A if (o1 == SP.REJECT and o2 != SP.REJECT and H.singleton_nonfirst(t) and not bad_late) else None
    return {
        "klass": klass,
        "what": f"equivalent spellings disagree end to end for lengths {lens}: {t!r} -> {o1 if o1 == SP.REJECT else str(len(o1)) + ' outputs'} ({r1['exc']}); {nf!r} -> {o2 if o2 == SP.REJECT else str(len(o2)) + ' outputs'} ({r2['exc']})",
        "case": {"kind": "equiv-e2e", "t": SP.to_json(t), "nf": SP.to_json(nf), "lens": lens, "t_out": o1, "nf_out": o2},
    }


def _w_equiv_e2e(cases):
    e2e = H.E2E()
    try:
        return [(tj, lens, check_equiv_e2e(e2e, SP.from_json(tj), SP.normal_form(SP.from_json(tj)), lens)) for tj, lens in cases]
    finally:
        e2e.close()


def spelling_trees(max_fields, wrappers):
    """trees that have a different normal form (i.e. a non-trivial equivalent spelling)"""
    out = []
    for t in SP.splitter_trees(H.FIELDS, max_fields, max_wrappers=wrappers, labellings="ordered"):
        if SP.canon(SP.normal_form(t)) != SP.canon(t):
            out.append(t)
    return out


# ------------------------------------------------------------------ (b) early rejection

OTHER_FIELDS = ["k1", "k2"]  # task fields that are never split in a valid request here
UNKNOWN = "zz"  # not a field of the task at all


def perturbations(tree, combiner):
    """single-step perturbations of the valid request (tree, values for its fields, combiner);
    each item: (kind, description, dict(splitter=, drop=, extra=, combiner=, no_split=))"""
    fs = SP.fields_of(tree)
    unused = [f for f in H.FIELDS if f not in fs]
    out = []
    base = {"splitter": tree, "drop": None, "extra": None, "combiner": combiner, "no_split": False, "presplit": None}
    # a field split twice
    for f in fs:
        for name, s in (("outer-right", [tree, f]), ("inner-right", (tree, f)), ("outer-left", [f, tree])):
            out.append(("split-twice", f"{f} added again ({name})", dict(base, splitter=s)))
    # splitter field without a value
    for f in fs:
        out.append(("missing-value", f"no value for {f}", dict(base, drop=f)))
    # ... also when the TASK OBJECT has a history: it was split over that field before and is split again with
    # overwrite=True (the old values are still stored on it), or the field holds a value set in the constructor
    for f in fs:
        out.append(("missing-value", f"no value for {f} in a re-split (overwrite=True) of a task already split over {f}", dict(base, drop=f, presplit=f)))
    # value for a field not in the splitter
    for g in unused + OTHER_FIELDS + [UNKNOWN]:
        out.append(("extra-value", f"value for {g} which is not in the splitter", dict(base, extra=g)))
    # a misspelt / renamed keyword: the value meant for splitter field f arrives under another name g, so ONE splitter field
    # has no value and ONE non-splitter field has one (the name counts still agree) -- seeded change C05-2
    for f in fs:
        for g in (unused + OTHER_FIELDS)[:2]:
            out.append(("renamed-keyword", f"value for {f} given as {g}", dict(base, drop=f, extra=g)))
            out.append(("renamed-keyword", f"value for {f} given as {g} in a re-split (overwrite=True) of a task already split over {f}", dict(base, drop=f, extra=g, presplit=f)))
    # combiner field that is not split
    for g in unused + OTHER_FIELDS + [UNKNOWN]:
        out.append(("combiner-not-split", f"combine({g!r})", dict(base, combiner=[g])))
        out.append(("combiner-not-split", f"combine([{fs[0]!r}, {g!r}])", dict(base, combiner=[fs[0], g])))
    # combining without splitting
    for g in [fs[0]] + OTHER_FIELDS[:1]:
        out.append(("combine-without-split", f"combine({g!r}) on an unsplit task", dict(base, no_split=True, combiner=[g])))
    return out


def build_request(req, n=2):
    tree = req["splitter"]
    fs = SP.fields_of(tree)
    valued = [f for f in dict.fromkeys(fs) if f != req["drop"]]
    inputs = {f: H.values_for(f, n) for f in valued}
    if req["extra"]:
        inputs[req["extra"]] = [901, 902][:n]
    init = {f: H.unsplit_value(f) for f in H.FIELDS if f not in inputs}
    init.update({k: v for k, v in (("k1", H.K1), ("k2", list(H.K2))) if k not in inputs})
    if req["no_split"]:
        t = H.F(**init)
    elif req.get("presplit"):
        from copy import deepcopy

        g = req["presplit"]
        init.pop(g, None)
        t = H.F(**init).split(g, **{g: H.values_for(g, n)}).split(deepcopy(tree), overwrite=True, **inputs)
    else:
        from copy import deepcopy

        t = H.F(**init).split(deepcopy(tree), **inputs)
    if req["combiner"]:
        t = t.combine(list(req["combiner"]))
    return t


def check_malformed(e2e, kind, desc, req):
    r = e2e.run(lambda: build_request(req))
    problems = []
    if r["exc"] is None:
        problems.append(f"accepted: returned {len(r['out']) if hasattr(r['out'], '__len__') else r['out']} outputs")
    if r["body_calls"]:
        problems.append(f"task body ran {r['body_calls']} times")
    if r["job_dirs"]:
        problems.append(f"{r['job_dirs']} job directories created")
    info = {"stage": r["stage"], "wf_dir": r["wf_dirs"], "exc": (r["exc"] or "").split(":")[0]}
    if not problems:
        return None, info
    return (
        {
            "klass": None,
            "what": f"ill-formed request [{kind}: {desc}] on splitter {req['splitter']!r}: " + "; ".join(problems) + f" (stage={r['stage']}, exc={r['exc']})",
            "case": {"kind": "malformed", "perturbation": kind, "desc": desc, "req": dict(req, splitter=SP.to_json(req["splitter"])), "run": {k: r[k] for k in ("stage", "exc", "body_calls", "job_dirs", "wf_dirs")}},
        },
        info,
    )


def check_control(e2e, tree, combiner):
    req = {"splitter": tree, "drop": None, "extra": None, "combiner": combiner, "no_split": False, "presplit": None}
    r = e2e.run(lambda: build_request(req))
    return r["exc"] is None and r["body_calls"] > 0, r


def _w_malformed(task):
    e2e = H.E2E()
    out = []
    try:
        for tj, comb in task:
            tree = SP.from_json(tj)
            ok, r = check_control(e2e, tree, comb)
            items = []
            if ok:
                for kind, desc, req in perturbations(tree, comb):
                    f, info = check_malformed(e2e, kind, desc, req)
                    items.append((kind, desc, f, info))
            out.append((tj, comb, ok, r["exc"], items))
    finally:
        e2e.close()
    return out


# ------------------------------------------------------------------ run


def _native_split_counterexample():
    """native replay of a refuted Task.split obligation: ill-formed requests whose NAME COUNTS agree (k splitter fields without a
    value, k values for fields that are not in the splitter) must be rejected by the real Task.split"""
    from pydra.compose import python

    @python.define
    def VfSplitProbe(a=None, b=None, c=None):  # untyped on purpose: the fields hold lists already
        return a

    requests = [
        ("a", {"b": [3, 4]}),
        (["a", "b"], {"a": [1, 2], "c": [5, 6]}),
        (("a", "b"), {"b": [1, 2], "c": [5, 6]}),
        (["a", "b"], {"c": [1, 2], "b": [3, 4]}),
    ]
    for splitter, kwargs in requests:
        try:
            VfSplitProbe(a=[1, 2], b=[3, 4], c=[5, 6]).split(splitter, **kwargs)
        except (ValueError, TypeError):
            continue
        return {"kind": "split-request", "splitter": repr(splitter), "values_given_for": sorted(kwargs), "accepted": True}
    return None


def _replay_split_request(rec):
    cex = _native_split_counterexample()
    return cex, cex is not None


def deductive(ctx):
    """engine D: Submitter.__call__ — combining without splitting ends in an error before any Job is
    constructed, and the rule check precedes Job construction, on every path"""
    from contracts import submitter_call as SC
    from pyvc.verify import verify, summarize

    res = verify(ctx, SC.contract())
    summarize(ctx, res)
    from contracts import state_validation as SV

    summarize(ctx, verify(ctx, SV.contract()))
    # Task.split: accepted only if values are given for exactly the splitter's fields (both guards, on every path)
    from contracts import split_validation as TS

    summarize(ctx, verify(ctx, TS.contract()), replay=_replay_split_request)
    # Task.combine: accepted only if every own combiner field is a field of the task; stored on a copy
    from contracts import combine_validation as CV

    summarize(ctx, verify(ctx, CV.contract("property:C05")))


def run(ctx):
    try:
        deductive(ctx)
        _run(ctx)
    finally:
        H.close_pool()


def _run(ctx):
    ph = H.Phases(ctx)
    ctx.level = "other"
    ctx.explanation = (
        "bounded (engine B): (a) every splitter tree that has an equivalent spelling (one-element list/tuple wrappers, re-bracketed pure "
        "outer or pure inner chains) is run through the real State next to the normal-form representative of its class and must give the "
        "same states_ind/states_val in the same order, or be rejected alike; a sample of pairs is compared end to end. (b) every valid "
        "split/combine request in the bound is turned, by one step, into each kind of ill-formed request named by the property; the real "
        "Task.split / Task.combine / submission must raise, the task body must not have run and no job directory of the task may exist. "
        "The directory of the implicit 'Split' wrapper workflow is not counted as a job of the user's task (reported in a note)."
    )
    rnd = random.Random(ctx.seed)

    # ---- (a) State level
    trees = spelling_trees(4, 1)
    if ctx.thorough:
        seen = {SP.canon(x) for x in trees}
        trees += [t for t in spelling_trees(3, 2) if SP.canon(t) not in seen]
        dom = ctx.domain(
            "spellings/state",
            bound="every splitter tree over <= 4 fields (leaves alphabetical, <= 1 one-element wrapper) plus every tree over <= 3 fields with <= 2 wrappers "
            "that differs from its normal form, paired with that normal form x every length vector in {0..3}^k",
            rule="two State.prepare_states per case (tree, normal form); key = (canonical tree, lengths); non-trivial = >= 2 fields and some length >= 2",
            exhaustive=True,
        )
        tasks = [(SP.to_json(t), H.all_lens(SP.fields_of(t), 0, 3)) for t in trees]
        results = H.pmap(_w_equiv, tasks, chunksize=8, lazy=True)
    else:
        per_tree = 10
        dom = ctx.domain(
            "spellings/state",
            bound=f"every splitter tree over <= 4 fields (leaves alphabetical, <= 1 one-element wrapper) that differs from its normal form, paired with that "
            f"normal form x all length vectors in {{0..2}}^k for <= 2 fields and {per_tree} vectors drawn from {{0..3}}^k by seed {ctx.seed} otherwise",
            rule="two State.prepare_states per case (tree, normal form); key = (canonical tree, lengths); non-trivial = >= 2 fields and some length >= 2",
            exhaustive=False,
        )
        tasks = []
        for t in trees:
            fs = SP.fields_of(t)
            tasks.append((SP.to_json(t), H.all_lens(fs, 0, 2) if len(fs) <= 2 else rnd.sample(H.all_lens(fs, 0, 3), per_tree)))
        results = H.pmap(_w_equiv, tasks, serial=True, lazy=True)
    n_classes = set()
    for tj, keys, fails in results:
        t = SP.from_json(tj)
        ck = SP.canon(t)
        n_classes.add(SP.canon(SP.normal_form(t)))
        for lv, nt in keys:
            dom.case((ck, lv), nontrivial=nt, sample={"tree": repr(t), "normal_form": repr(SP.normal_form(t)), "lengths": list(lv)} if nt and len(dom.samples) < 3 else None)
        for f in fails:
            ctx.fail(f["klass"], f["what"], f["case"], domain=dom)
    ctx.note(f"(a) {len(trees)} non-normal spellings in {len(n_classes)} equivalence classes")
    ph.mark("spellings/state")

    # ---- (a) end to end
    n_e = ctx.pick(40, 800)
    dom_e = ctx.domain(
        "spellings/e2e",
        bound=f"{n_e} (tree, lengths in {{0..3}}^k with <= {ctx.pick(16, 81)} jobs) pairs drawn by seed {ctx.seed} from the spellings domain, plus a/[a]/(a,), [a,[b,c]]/[[a,b],c], (a,(b,c))/((a,b),c), [[a],b] with lengths 2",
        rule="two real submissions per case (tree and its normal form), outputs compared; non-trivial = >= 2 fields and some length >= 2",
        exhaustive=False,
    )
    cases = [(SP.to_json(t), {f: 2 for f in SP.fields_of(t)}) for t in (["a"], ("a",), ["a", ["b", "c"]], [["a", "b"], "c"], ("a", ("b", "c")), (("a", "b"), "c"), [["a"], "b"])]
    max_jobs = ctx.pick(16, 81)
    while len(cases) < n_e + 7:
        t = rnd.choice(trees)
        fs = SP.fields_of(t)
        lens = {f: rnd.randint(0, 3) for f in fs}
        nj = 1
        for f in fs:
            nj *= max(1, lens[f])
        if nj > max_jobs:
            continue
        cases.append((SP.to_json(t), lens))
    for part in H.pmap(_w_equiv_e2e, H.chunks(cases, H.NPROCS * 3), serial=not ctx.thorough, chunksize=1):
        for tj, lens, f in part:
            t = SP.from_json(tj)
            fs = SP.fields_of(t)
            dom_e.case((SP.canon(t), tuple(lens[x] for x in fs)), nontrivial=len(fs) >= 2 and max(lens.values()) >= 2, sample={"tree": repr(t), "normal_form": repr(SP.normal_form(t)), "lengths": lens})
            if f:
                ctx.fail(f["klass"], f["what"], f["case"], domain=dom_e)
    ph.mark("spellings/e2e")

    # ---- (b) malformed requests
    plain = [t for t in SP.splitter_trees(H.FIELDS, 4, max_wrappers=0, labellings="ordered") if SP.well_shaped(t, {f: 2 for f in H.FIELDS})]
    if not ctx.thorough:
        small = [t for t in plain if len(SP.fields_of(t)) <= 2]
        big = [t for t in plain if len(SP.fields_of(t)) > 2]
        plain = small + rnd.sample(big, min(len(big), 10))
    reqs = []
    for t in plain:
        fs = SP.fields_of(t)
        reqs.append((SP.to_json(t), None))
        reqs.append((SP.to_json(t), [fs[-1]]))
    dom_b = ctx.domain(
        "malformed",
        bound=("every" if ctx.thorough else f"every <= 2-field and 10 (seed {ctx.seed}) of the 3/4-field")
        + " wrapper-free splitter tree(s) over a,b,c,d that are well shaped with all lists of length 2, without and with a valid combiner (the last field), x "
        "every single-step perturbation: each split field added once more (3 positions); each value dropped; a value added for each other task field and for an "
        "unknown name; combine of each non-split task field / unknown name alone and next to a valid one; combine on the unsplit task",
        rule="one real build + submission per perturbed request (debug worker, fresh cache root); key = (tree, combiner, perturbation); all non-trivial; the "
        "unperturbed request must run (control)",
        exhaustive=bool(ctx.thorough),
    )
    stages = {}
    for part in H.pmap(_w_malformed, H.chunks(reqs, H.NPROCS * 3), serial=not ctx.thorough, chunksize=1):
        for tj, comb, ok, exc, items in part:
            t = SP.from_json(tj)
            if not ok:
                ctx.fail(None, f"control request split({t!r}).combine({comb}) with lists of length 2 did not run: {exc}", {"kind": "control", "t": tj, "combiner": comb}, domain=dom_b)
                continue
            for kind, desc, f, info in items:
                dom_b.case((SP.canon(t), tuple(comb or ()), kind, desc), nontrivial=True, sample={"splitter": repr(t), "combiner": comb, "perturbation": kind, "what": desc, "rejected_at": info})
                k = (kind, info["stage"], info["exc"], "wrapper-workflow-dir" if info["wf_dir"] else "no-dir")
                stages[k] = stages.get(k, 0) + 1
                if f:
                    ctx.fail(f["klass"], f["what"], f["case"], domain=dom_b)
    ctx.note("(b) where ill-formed requests are rejected (kind, stage, exception, cache-root content): " + "; ".join(f"{k}: {v}" for k, v in sorted(stages.items())))
    ph.mark("malformed")
    ph.done()


def replay(rec):
    case = rec["case"]
    f = None
    if case.get("kind") == "split-request":
        cex = _native_split_counterexample()
        print(f"replay C05: ill-formed split requests with matching name counts against the real Task.split: {'accepted: ' + str(cex) if cex else 'all rejected'}")
        if cex:
            print(f"VIOLATION property=C05 replay={rec.get('_path', '')}")
            return 1
        return 0
    if case["kind"] == "equiv-state":
        f = check_equiv_state(SP.from_json(case["t"]), SP.from_json(case["nf"]), case["lens"], {})
    elif case["kind"] in ("equiv-e2e", "malformed", "control"):
        e2e = H.E2E()
        try:
            if case["kind"] == "equiv-e2e":
                f = check_equiv_e2e(e2e, SP.from_json(case["t"]), SP.from_json(case["nf"]), case["lens"])
            elif case["kind"] == "malformed":
                req = dict(case["req"], splitter=SP.from_json(case["req"]["splitter"]))
                f, _ = check_malformed(e2e, case["perturbation"], case["desc"], req)
            else:
                ok, r = check_control(e2e, SP.from_json(case["t"]), case["combiner"])
                f = None if ok else {"what": f"control did not run: {r['exc']}"}
        finally:
            e2e.close()
    print(f"replay C05: {case['kind']} -> {'FAILS: ' + f['what'] if f else 'ok'}")
    if f:
        print(f"VIOLATION property=C05 replay={rec.get('_path', '')}")
        return 1
    return 0
