"""C06 - a cache hit returns what executing the task now would return.

Engine B: pairs of deterministic tasks that differ in exactly ONE semantically relevant aspect
(python function body / default / closure cell / referenced global / lambda body; shell executable /
argstr / position / sep / formatter; input value content / type / shape / dtype) are submitted as
histories over {t1, t2} into ONE cache root through the real Submitter (debug worker), with an
execution counter (task hooks).  Oracle (property text): every submission returns the outputs that
executing that task in a FRESH cache root returns now, and the two tasks never share a cache
directory (equivalently their `_checksum` differ).
A second domain decides `_checksum` separation for every pair of a value universe by bucketing and
confirms each kind of collision through the real submission path.
"""

from __future__ import annotations

import itertools
import os
import shutil
import tempfile
from pathlib import Path

import spec.hashing as S


def r1(v):
    """one-line repr"""
    return " ".join(repr(v).split())


def outputs_of(res):
    o = res.outputs
    out = {}
    for f in ("out", "stdout", "return_code"):
        if hasattr(o, f):
            v = getattr(o, f)
            out[f] = v if isinstance(v, (int, str, float, bool, type(None))) else repr(v)
    return out


def submit_history(makers, history):
    """one cache root, the real submission path; returns per submission {which, outputs, cache_dir, executed}"""
    from pydra.engine.submitter import Submitter
    from pydra.engine.hooks import TaskHooks

    root = tempfile.mkdtemp(prefix="vf_c06_")
    cwd = os.getcwd()
    trace = []
    try:
        with Submitter(cache_root=root, worker="debug") as sub:
            for which in history:
                task = makers[which]()
                ran = []
                res = sub(task, hooks=TaskHooks(pre_run_task=lambda *a, **k: ran.append(1)))
                trace.append({"which": which, "checksum": task._checksum, "outputs": outputs_of(res), "cache_dir": Path(res.cache_dir).name, "executed": bool(ran)})
    finally:
        os.chdir(cwd)
        shutil.rmtree(root, ignore_errors=True)
    return trace


def histories(ctx):
    hs = [(0, 1), (1, 0)]
    if ctx.thorough:
        hs += [h for h in itertools.product((0, 1), repeat=3) if len(set(h)) == 2]
    return hs


def check_pair(ctx, dom, makers, klass, label, case, hs):
    """the oracle for one pair under every history"""
    fresh = [submit_history(makers, (i,))[0] for i in (0, 1)]
    n_fail = 0
    for h in hs:
        trace = submit_history(makers, h)
        dom.case((label, h), nontrivial=True, sample={"pair": label, "history": list(h), "trace": trace, "fresh": fresh})
        problems = []
        for t in trace:
            if t["outputs"] != fresh[t["which"]]["outputs"]:
                problems.append(f"submission of t{t['which'] + 1} returned {t['outputs']} (executed={t['executed']}), executing it now returns {fresh[t['which']]['outputs']}")
        dirs = {t["which"]: t["cache_dir"] for t in trace}
        if dirs[0] == dirs[1]:
            problems.append(f"t1 and t2 share the cache directory {dirs[0]}")
        if problems:
            n_fail += 1
            ctx.fail(klass, f"{label}, history {['t%d' % (i + 1) for i in h]}: " + "; ".join(problems[:2]), dict(case, history=list(h), trace=trace, fresh=fresh), domain=dom)
    return n_fail


def program_pairs(ctx):
    pairs = S.c06_program_pairs()
    hs = histories(ctx)
    dom = ctx.domain(
        "task-pairs-one-aspect",
        bound=f"{len(pairs)} program pairs (python body/default/closure cell/referenced global/lambda body, workflow constructor, shell executable/argstr/position/sep/formatter/value) + "
        f"{len(S.c06_value_pairs())} input-value pairs (content/type/shape/dtype, classes and functions as values) x histories {hs} over {{t1,t2}} into one cache root, debug worker",
        rule="one case per (pair, history); each submission's outputs are compared with a fresh-cache execution of the same task and the cache directories of t1 and t2 must differ",
        exhaustive=True,
    )
    for i, p in enumerate(pairs):
        klass = S.C06_PROGRAM_CLASSES.get(p["aspect"])
        check_pair(ctx, dom, p["make"], klass, f"{p['aspect']}: {p['label']}", {"kind": "program", "index": i, "aspect": p["aspect"], "label": p["label"]}, hs)
    from pydra.compose import python

    Describe = python.define(S.describe_fn)
    for aspect, d1, d2 in S.c06_value_pairs():
        makers = ((lambda d=d1: Describe(x=S.build(d))), (lambda d=d2: Describe(x=S.build(d))))
        check_pair(ctx, dom, makers, S.c06_value_class(aspect, d1, d2), f"{aspect}: {r1(S.build(d1))} / {r1(S.build(d2))}"[:160], {"kind": "value", "aspect": aspect, "d1": d1, "d2": d2}, hs)
    return dom


def checksum_of(Describe, d, order):
    try:
        return "ok", Describe(x=S.build(d, order))._checksum
    except Exception as e:  # noqa
        return "raise", type(e).__name__


def value_universe(ctx):
    from pydra.compose import python

    Describe = python.define(S.describe_fn)
    leaves = S.leaf_pool(ctx.pick(5, 8))
    universe = (
        S.scalar_values(ctx.pick("a=", "a:=,"), ctx.pick(2, 3))
        + S.level1(leaves, 2)
        + S.object_values()
        + S.type_values()
        + [d for d in S.func_values() if not d[1].startswith("CLOSURE")]
        + S.array_values(dtypes=("int32", "float32", "int64"), nmax=4, layouts=("C", "F"))
    )
    dom = ctx.domain(
        "input-value-checksums",
        bound=f"{len(universe)} input values (scalars, short str/bytes, depth-1 containers, objects, types, functions, numpy arrays of <= 4 elements x 3 dtypes in C and Fortran memory layout) given to one python task",
        rule="one evaluation of Task._checksum per (value, insertion order); every unordered pair of values of different type/content/shape/dtype must get different checksums "
        "(decided by bucketing); up to 2 pairs of each collision class are additionally confirmed through the real submission path; non-trivial = a checksum was produced",
        exhaustive=True,
    )
    by_strict = {}
    for d in universe:
        ent = by_strict.setdefault(S.strict_key(d), {"desc": d, "res": set()})
        for o in range(S.n_orders(d)):
            r = checksum_of(Describe, d, o)
            dom.case(S.strict_key(d), nontrivial=r[0] == "ok", sample={"value": d, "order": o, "checksum": r[1]})
            ent["res"].add(r)
    buckets = {}
    for ent in by_strict.values():
        d, res = ent["desc"], ent["res"]
        if any(r[0] == "raise" for r in res):
            if not (len(res) == 1 and S.has_unorderable_collection(S.build(d))):
                ctx.fail("unexpected-refusal", f"no checksum for input {S.build(d)!r}: {sorted(res)}"[:300], {"kind": "refusal", "desc": d}, domain=dom)
            continue
        if len(res) > 1:
            ctx.fail(S.instability_class(d), f"checksum depends on insertion order for input {S.build(d)!r}"[:300], {"kind": "instability", "desc": d}, domain=dom)
        for _, cs in res:
            buckets.setdefault(cs, {}).setdefault(S.loose_key(d), d)
    confirmed = {}
    hs = [(0, 1)]
    for cs, members in buckets.items():
        if len(members) < 2:
            continue
        for (k1, d1), (k2, d2) in itertools.combinations(sorted(members.items(), key=lambda kv: repr(kv[0])), 2):
            c = S.collision_class(d1, d2)
            klass = f"input-{c}" if c else None
            label = f"{r1(S.build(d1))} / {r1(S.build(d2))}"[:160]
            if confirmed.get(klass, 0) < 2:
                confirmed[klass] = confirmed.get(klass, 0) + 1
                makers = ((lambda d=d1: Describe(x=S.build(d))), (lambda d=d2: Describe(x=S.build(d))))
                n = check_pair(ctx, dom, makers, klass, f"same checksum {cs}: {label}", {"kind": "value", "aspect": "input-value", "d1": d1, "d2": d2}, hs)
                if n:
                    continue
            ctx.fail(klass, f"inputs of different type/content/shape/dtype share the cache entry {cs}: {label}", {"kind": "value", "aspect": "input-value", "d1": d1, "d2": d2, "checksum": cs}, domain=dom)
    n = len(by_strict)
    ctx.note(f"input-value-checksums: {n} distinct values = {n * (n - 1) // 2} unordered pairs decided")
    return dom


def deductive(ctx):
    """engine D: every path of one arbitrary iteration of Task._compute_hashes enters the field's own current value under its
    own name into the hashed dict unless the field is an output / unset / container-path field; the Outputs class is entered;
    the returned digest is hash_function(sorted(per-field digests.items())) -- contracts/compute_hashes.py"""
    from contracts import compute_hashes as CH
    from pyvc.verify import verify, summarize

    summarize(ctx, verify(ctx, CH.contract()))


def run(ctx):
    deductive(ctx)
    ctx.level = "other"
    ctx.explanation = (
        "pairs of deterministic python / shell / workflow tasks differing in exactly one semantically relevant aspect are submitted as histories into one cache root through the real "
        "Submitter; each submission must return what a fresh-cache execution of that task returns now, and the two tasks must not share a cache directory; checksum separation is "
        "additionally decided for every pair of a bounded universe of input values. Bounded evidence, not a proof."
    )
    ctx.assume("engine B/C06: 'executing now' is observed by running the same task in a fresh, empty cache root in the same process and environment")
    with S.isolated_hash_cache():
        program_pairs(ctx)
        value_universe(ctx)


def replay(rec):
    case = rec["case"]
    with S.isolated_hash_cache():
        if case.get("kind") == "program":
            p = S.c06_program_pairs()[case["index"]]
            makers, label = p["make"], f"{p['aspect']}: {p['label']}"
        elif case.get("kind") == "value":
            from pydra.compose import python

            Describe = python.define(S.describe_fn)
            makers = ((lambda: Describe(x=S.build(case["d1"]))), (lambda: Describe(x=S.build(case["d2"]))))
            label = f"{r1(S.build(case['d1']))} / {r1(S.build(case['d2']))}"
        else:
            print("replay C06: case kind without a native pair:", case.get("kind"))
            return 0
        h = tuple(case.get("history", (0, 1)))
        fresh = [submit_history(makers, (i,))[0] for i in (0, 1)]
        trace = submit_history(makers, h)
        bad = any(t["outputs"] != fresh[t["which"]]["outputs"] for t in trace) or len({t["cache_dir"] for t in trace}) < len({t["which"] for t in trace})
        print(f"replay C06: {label} history={h} trace={trace} fresh={[f['outputs'] for f in fresh]}")
        if bad:
            print(f"VIOLATION property=C06 replay={rec.get('_path', '')}")
            return 1
        return 0
