"""C07 - identical computations map to the same cache identity in every session.

Engine B: the REAL hash_function / Task._checksum / Job.cache_dir are evaluated on every value of
the property's grammar in SEPARATE interpreter processes started with different PYTHONHASHSEED
values, for 3 insertion orders of every dict / set, before and after a cloudpickle round trip
(in the same and in another session), under two cache roots and under different workers.
Oracle (property text): all of these identities are equal for one abstract value.
"""

from __future__ import annotations

import json
import os
import subprocess
import sys
import tempfile
import shutil
from concurrent.futures import ThreadPoolExecutor
from pathlib import Path

import spec.hashing as S
from vf.core import REPO, VERIF, CheckerError

OBS_VALUE = ("hash", "hash_pickled")
OBS_TASK = ("checksum", "checksum_pickled", "self_checksum", "self_checksum_pickled")


def session(seed, payload, hash_cache):
    env = dict(os.environ)
    env.update({"PYTHONHASHSEED": str(seed), "PYTHONPATH": f"{REPO}:{VERIF}", "PYDRA_HASH_CACHE": str(hash_cache), "PYTHONPYCACHEPREFIX": str(Path(hash_cache).parent / "pyc")})
    env.pop("PYTHONDONTWRITEBYTECODE", None)  # byte code goes to the temp dir, never next to the sources
    p = subprocess.run([sys.executable, "-c", "import spec.hashing as S; S.c07_worker()"], input=json.dumps(payload), capture_output=True, text=True, env=env, cwd=str(VERIF), timeout=840)
    if p.returncode != 0:
        raise CheckerError(f"session with PYTHONHASHSEED={seed} crashed: {p.stderr[-800:]}")
    out = json.loads(p.stdout)
    if not str(Path(out["pydra"]).resolve()).startswith(str(REPO)):
        raise CheckerError(f"session imported pydra from {out['pydra']}")
    if out["hashseed"] != str(seed):
        raise CheckerError("session did not receive its hash seed")
    return out


def observe(values, seeds, workers, tmp):
    base = tmp / "files"
    base.mkdir()
    for d in values:
        for f in S.file_descs(d):
            (base / f[1]).write_text(f[2])
    roots = [str(tmp / "cache_root_A"), str(tmp / "some" / "other" / "root_B")]
    for r in roots:
        Path(r).mkdir(parents=True)
    payload = {"values": values, "base": str(base), "roots": roots, "workers": workers, "dump": None, "load": None}
    dump = str(tmp / "tasks_from_first_session.json")
    jobs = [(s, dict(payload, dump=dump if i == 0 else None)) for i, s in enumerate(seeds)]
    with ThreadPoolExecutor(max_workers=min(16, len(jobs))) as ex:
        outs = list(ex.map(lambda j: session(j[0], j[1], tmp / "hashcache"), jobs))
    # a later session with another seed loads the tasks pickled by the first session
    later = session(987654321, dict(payload, values=[], load=dump), tmp / "hashcache")
    return outs, later["loaded"]


def deductive(ctx):
    """engine D (syntactic call-site obligations): every sorted() in the hashing code sorts elements
    with a total order, so its result is a function of the multiset of elements, not of their order"""
    from contracts import sorted_sites as SS

    ctx.trust("`<` is a total order on bytes, on str, on PurePath objects of one flavour, and on (str, bytes) pairs with distinct first components")
    for oid, goal, ok, detail in SS.obligations():
        ctx.add_function({"function": f"{detail['file']}:{detail['function']}", "line": detail["line"], "source_sha256": "", "lines": 0})
        ctx.add_obligation({"id": oid, "function": f"{detail['file']}:{detail['function']}", "clause": "callee-pre.sorted.total-order", "role": "property:C07", "status": "discharged" if ok else "refuted", "backend": "syntactic call-site check", "time_s": 0.0, "goal": goal, "path": ""})
        if not ok:
            klass = "mapping-keys-not-totally-ordered" if detail["function"] == "bytes_repr_mapping_contents" else None
            ctx.fail(klass, f"obligation {oid} refuted: {goal}", detail, obligation=oid, solver_output=None, found_input=False)


def _key_obligations(ctx, pid):
    """syntactic dependency obligations on the persistent-cache keys (contracts/fileset_key.py)"""
    from contracts import fileset_key as FK

    for oid, prop, ok, detail in FK.obligations():
        if prop != pid:
            continue
        ctx.add_function({"function": f"{FK.FILE}:{oid.split('.')[0]}", "line": 0, "source_sha256": "", "lines": 0})
        ctx.add_obligation({"id": oid, "function": f"{FK.FILE}:{oid.split('.')[0]}", "clause": oid.split(".", 1)[1], "role": f"property:{pid}", "status": "discharged" if ok else "refuted", "backend": "syntactic dependency check", "time_s": 0.0, "goal": detail[:200], "path": ""})
        if not ok:
            ctx.fail(None, f"obligation {oid} refuted: {detail[:200]}", {"obligation": oid, "detail": detail}, obligation=oid, found_input=False)


def bounded_hash_cache_history(ctx):
    """the identity of a value must not depend on what the per-user persistent hash cache has seen
    before: the same unmodified file wrapped in class X hashes equally with a fresh hash cache and with
    one in which the same path was hashed earlier as another file class Y (and task checksums follow)"""
    import subprocess, sys, json, tempfile, shutil, itertools
    from pathlib import Path

    classes = ["fileformats.generic.File", "fileformats.generic.BinaryFile", "fileformats.generic.UnicodeFile"] + (["fileformats.generic.FsObject"] if ctx.thorough else [])
    child = r"""
import sys, json, importlib
sys.path.insert(0, '/verif')
from pydra.utils.hash import hash_function
path, order = sys.argv[1], sys.argv[2:]
out = {}
for name in order:
    mod, cls = name.rsplit('.', 1)
    K = getattr(importlib.import_module(mod), cls)
    out[name] = str(hash_function(K(path)))
print(json.dumps(out))
"""
    tmp = Path(tempfile.mkdtemp(prefix="vf_c07h_"))
    dom = ctx.domain(
        "hash-cache-history",
        bound=f"one text file x ordered pairs of {len(classes)} file classes: hash as X in a session whose persistent hash cache first hashed the same path as Y, against X with a fresh hash cache",
        rule="one case per ordered pair (Y, X), Y != X; separate interpreter and PYDRA_HASH_CACHE per session; non-trivial: all",
        exhaustive=True,
    )
    try:
        f = tmp / "data.txt"
        f.write_text("hello\nworld\n")

        def session(order, cache):
            env = dict(os.environ, PYDRA_HASH_CACHE=str(cache))
            r = subprocess.run([sys.executable, "-c", child, str(f)] + list(order), env=env, capture_output=True, text=True, timeout=300)
            return json.loads(r.stdout.strip().splitlines()[-1])

        fresh = {}
        for i, x in enumerate(classes):
            fresh[x] = session([x], tmp / f"fresh{i}")[x]
        for n, (y, x) in enumerate(itertools.permutations(classes, 2)):
            got = session([y, x], tmp / f"hist{n}")[x]
            case = {"file_class": x, "hashed_before_as": y, "fresh": fresh[x], "after_history": got}
            dom.case((y, x), sample=case)
            if got != fresh[x]:
                ctx.fail(None, f"hash of the same file as {x} depends on the hash-cache history: {got} after the path was hashed as {y}, {fresh[x]} with a fresh hash cache", dict(case, kind="hash-cache-history"), domain=dom)
    finally:
        shutil.rmtree(tmp, ignore_errors=True)


def run(ctx):
    deductive(ctx)
    _key_obligations(ctx, "C07")
    bounded_hash_cache_history(ctx)
    _run_bounded(ctx)


def _run_bounded(ctx):
    ctx.level = "other"
    ctx.explanation = (
        "every value of the property's grammar (nested dicts/lists/tuples/sets, frozensets of frozensets, numbers, strings, bytes, paths, numpy arrays, files, objects, "
        "tasks used as values) is hashed by the real hash_function and turned into a task checksum / job cache directory in separate interpreter sessions with different "
        "PYTHONHASHSEED values, 3 insertion orders, a cloudpickle round trip inside and across sessions, two cache roots and several workers; all identities of one "
        "abstract value must coincide. Bounded evidence, not a proof."
    )
    values = S.c07_values(ctx.thorough)
    seeds = ctx.pick([0, 1, 2, 3], [0, 1, 2, 3, 4, 5, 6, 7, 11, 42, 12345, 4294967295])
    workers = ctx.pick(["debug"], ["debug", "cf"])
    tmp = Path(tempfile.mkdtemp(prefix="vf_c07_"))
    try:
        outs, loaded = observe(values, seeds, workers, tmp)
        dom = ctx.domain(
            "sessions",
            bound=f"{len(values)} values of the C07 grammar x PYTHONHASHSEED in {seeds} (one interpreter process each) x 3 insertion orders of every unordered collection x "
            f"(direct | cloudpickle round trip) x cache roots (2 paths) x workers {workers}; plus one later session loading the tasks pickled by the first",
            rule="one case per (abstract value, seed, insertion order); orders other than 0 are only generated when they change the construction; "
            "non-trivial = the value was hashed (a TypeError refusal of an unorderable collection is an allowed outcome but must be the same in every session)",
            exhaustive=True,
        )
        per_value = {}
        for seed, out in zip(seeds, outs):
            for rec in out["records"]:
                d = values[rec["i"]]
                dom.case((S.strict_key(d), seed, rec["order"]), nontrivial=not str(rec["hash"]).startswith("raise:"), sample={"value": d, "seed": seed, **rec})
                ent = per_value.setdefault(rec["i"], {"value": {}, "task": {}})
                for k in OBS_VALUE:
                    ent["value"].setdefault(rec[k], []).append((seed, rec["order"], k))
                for k in OBS_TASK:
                    if k in rec:
                        grp = "task" if k.startswith("checksum") else "self"
                        ent.setdefault(grp, {}).setdefault(rec[k], []).append((seed, rec["order"], k))
                for n, jd in enumerate(rec.get("job_dirs", [])):
                    ent["task"].setdefault(jd, []).append((seed, rec["order"], f"job_dir[{n}]"))
        for i, cs in enumerate(loaded or []):
            per_value[i]["task"].setdefault(cs, []).append(("later-session", 0, "checksum_of_task_pickled_by_first_session"))
        n_refused = 0
        for i, ent in sorted(per_value.items()):
            d = values[i]
            for grp in ("value", "task", "self"):
                obs = ent.get(grp)
                if not obs:
                    continue
                if len(obs) == 1:
                    only = next(iter(obs))
                    if str(only).startswith("raise:"):
                        n_refused += grp == "value"
                        v = S.build(d, 0, tmp / "files")
                        if not (only == "raise:TypeError" and S.has_unorderable_collection(v)):
                            ctx.fail("unexpected-refusal", f"{grp} identity of {v!r} is refused with {only}"[:300], {"desc": d, "group": grp, "observed": {only: obs[only][:4]}}, domain=dom)
                    continue
                klass = S.instability_class(d, tmp / "files")
                what = {"value": "hash_function", "task": "checksum / cache directory of Ident(x=value)", "self": "checksum of the task itself"}[grp]
                ctx.fail(
                    klass,
                    f"{what} takes {len(obs)} different values across sessions/insertion orders/pickling for {S.build(d, 0, tmp / 'files')!r}"[:400],
                    {"desc": d, "group": grp, "observed": {k: v[:4] for k, v in obs.items()}},
                    domain=dom,
                )
        ctx.note(f"{n_refused} value(s) refused identically in every session (unorderable set members: allowed)")
        ctx.note("the task checksum of a task with several xor groups is itself stable (its _xor is not part of _compute_hashes); the instability appears when the task is hashed as a VALUE (bytes_repr_task), e.g. as the input of another task")
    finally:
        shutil.rmtree(tmp, ignore_errors=True)


def replay(rec):
    case = rec["case"]
    d = case["desc"]
    tmp = Path(tempfile.mkdtemp(prefix="vf_c07_"))
    try:
        outs, loaded = observe([d], [0, 1, 2, 3, 4, 5], ["debug"], tmp)
        seen = {"value": set(), "task": set(), "self": set()}
        for out in outs:
            for r in out["records"]:
                seen["value"] |= {r["hash"], r["hash_pickled"]}
                seen["task"] |= {r["checksum"], r["checksum_pickled"], *r.get("job_dirs", [])}
                seen["self"] |= {r[k] for k in ("self_checksum", "self_checksum_pickled") if k in r}
        seen["task"] |= set(loaded or [])
        print(f"replay C07: value={d} identities: " + "; ".join(f"{k}: {sorted(v)}" for k, v in seen.items() if v))
        bad = any(len(v) > 1 for v in seen.values())
        if not bad:
            only = {x for v in seen.values() for x in v if str(x).startswith("raise:")}
            bad = bool(only) and not S.has_unorderable_collection(S.build(d, 0, tmp / "files"))
        if bad:
            print(f"VIOLATION property=C07 replay={rec.get('_path', '')}")
            return 1
        return 0
    finally:
        shutil.rmtree(tmp, ignore_errors=True)
