"""C08 - value hashing is deterministic, discriminating and context-free.

Engine B (bounded, exhaustive in the stated bound) of the REAL pydra.utils.hash.hash_function:

 * structural: the constant tag every registered bytes_repr_* serializer yields first is extracted
   with `ast` from /repo, resolved for sample classes, cross-checked against the real first chunk,
   and all tags must be pairwise distinct and prefix-free;
 * values: every value of the grammar in spec/hashing.py is hashed (each unordered collection in
   3 insertion orders); the oracle (from the property text) is a pair relation:
       same abstract value (strict key)            => same hash
       different type/content/nesting/shape/dtype  => different hash   (loose key differs)
       distinctions the text leaves open            => anything
   decided for ALL unordered pairs at once by bucketing (hash -> set of loose keys);
 * embedded: the same relation for every value placed inside [v] and {"k": v};
 * context: a value's hash does not depend on what was hashed before with the same Cache object,
   on object sharing, nor on the surrounding container being hashed with a warm memo.
"""

from __future__ import annotations

import itertools

import spec.hashing as S
from vf.core import REPO


def _hf():
    from pydra.utils.hash import hash_function, Cache

    return hash_function, Cache


def hash_of(desc, order=0):
    hash_function, _ = _hf()
    v = S.build(desc, order)
    try:
        return "ok", hash_function(v)
    except Exception as e:  # noqa: a refusal is an outcome, modelled below
        return "raise", type(e).__name__


# ------------------------------------------------------------------------------ structural part
def sample_classes():
    import pathlib
    import numpy as np
    from fileformats.generic import File, Directory

    return {
        "object": [S.PlainA, S.AttrsA, S.SlotsA],
        "os.PathLike": [pathlib.PosixPath, pathlib.PurePosixPath],
        "FileSet": [File, Directory],
        "list": [list],
        "tuple": [tuple],
        "set": [set],
        "frozenset": [frozenset],
        "numpy.ndarray": [np.ndarray],
        "numpy.generic": [np.int32, np.float32, np.float64],
    }


def sample_instance(cls, tmp):
    import pathlib
    import numpy as np
    from fileformats.generic import File, Directory

    if cls in (S.PlainA, S.AttrsA, S.SlotsA):
        return cls(x=1, y=2)
    if cls in (pathlib.PosixPath, pathlib.PurePosixPath):
        return cls("/a/b")
    if cls is File:
        p = pathlib.Path(tmp) / "f.txt"
        p.write_text("x")
        return File(p)
    if cls is Directory:
        d = pathlib.Path(tmp) / "d"
        d.mkdir(exist_ok=True)
        (d / "g.txt").write_text("y")
        return Directory(d)
    if cls is np.ndarray:
        return np.arange(3)
    if issubclass(cls, np.generic):
        return cls(1)
    return cls([1, 2])


def structural(ctx):
    import shutil
    import tempfile
    from pydra.utils.hash import bytes_repr, Cache

    rows = S.serializer_tags(REPO)
    if len(rows) < 20:
        from vf.core import CheckerError

        raise CheckerError(f"serializer tag extraction found only {len(rows)} rows: extraction broken")
    samples = sample_classes()
    resolved = []  # (tag, serializer, for)
    notes = []
    tmp = tempfile.mkdtemp(prefix="vf_c08_")
    try:
        for r in rows:
            if r["kind"] == "static":
                resolved.append((r["tag"], r["serializer"], "static"))
            elif r["kind"] == "template":
                if "{task_type}" in r["tag"]:
                    for tt in ("python", "shell", "workflow"):
                        resolved.append((r["tag"].replace("{task_type}", tt), r["serializer"], tt))
                    continue
                for reg in r["registered_for"]:
                    for cls in samples.get(reg, []):
                        tag = r["tag"].replace("{cls.module}", cls.__module__).replace("{cls.name}", cls.__name__)
                        # cross-check the extraction against the real first bytes chunk
                        inst = sample_instance(cls, tmp)
                        it = bytes_repr(inst, Cache())
                        first = next(it)
                        if isinstance(first, tuple):
                            first = next(it)
                        if not bytes(first).startswith(tag.encode()):
                            ctx.fail(None, f"extracted tag {tag!r} of {r['serializer']} is not a prefix of the real first chunk {bytes(first)[:40]!r}", {"kind": "tag-extraction", "row": r})
                        resolved.append((tag, r["serializer"], cls.__name__))
            elif r["kind"] == "dynamic":
                # repr()-based serializer of the builtin singletons / range: resolve natively
                for inst in (None, Ellipsis, True, False, range(3)):
                    first = next(bytes_repr(inst, Cache())).decode()
                    tag = first.split("(")[0] + "(" if "(" in first else first
                    resolved.append((tag, r["serializer"], type(inst).__name__))
            else:
                notes.append(f"{r['serializer']} delegates its first chunk (user-defined __bytes_repr__): not in the table")
    finally:
        shutil.rmtree(tmp, ignore_errors=True)
    table = sorted(set(resolved))
    dom = ctx.domain(
        "serializer-tags",
        bound=f"{len(rows)} first-yield sites of {len({r['serializer'] for r in rows})} registered serializers in pydra/utils/hash.py + compose/base/task.py, "
        f"class-name templates resolved for {sum(len(v) for v in samples.values())} sample classes and 3 task types",
        rule="one case per unordered pair of resolved tags of different (serializer, class); violated when one tag equals or is a prefix of the other",
        exhaustive=True,
    )
    for (t1, s1, c1), (t2, s2, c2) in itertools.combinations(table, 2):
        dom.case((t1, s1, c1, t2, s2, c2), nontrivial=True, sample={"tag1": t1, "serializer1": s1, "tag2": t2, "serializer2": s2})
        if t1 == t2 and s1 == s2:
            continue  # one serializer, one tag (e.g. registered for several types)
        if t1.startswith(t2) or t2.startswith(t1):
            ctx.fail(None, f"serializer tags not prefix-free: {t1!r} ({s1}/{c1}) vs {t2!r} ({s2}/{c2})", {"kind": "tags", "t1": t1, "t2": t2, "s1": s1, "s2": s2}, domain=dom)
    ctx.note("serializer tag table (tag <- serializer[class]): " + "; ".join(f"{t!r} <- {s}[{c}]" for t, s, c in table))
    for n in sorted(set(notes)):
        ctx.note(n)
    return table


# ------------------------------------------------------------------------------ value part
def analyse(ctx, dom, descs, wrap=None, label=""):
    """bucket analysis deciding the pair relation for every unordered pair of `descs`.
    wrap: optional function desc -> desc placing the value in a context (relation unchanged)."""
    by_strict = {}
    n_refused = 0
    for d0 in descs:
        d = wrap(d0) if wrap else d0
        sk = S.strict_key(d)
        ent = by_strict.setdefault(sk, {"desc": d, "results": set()})
        for o in range(S.n_orders(d)):
            r = hash_of(d, o)
            dom.case(key=(label, sk), nontrivial=(r[0] == "ok"), sample={"value": d, "order": o, "hash": r[1]})
            ent["results"].add(r)
    buckets = {}
    for sk, ent in by_strict.items():
        d = ent["desc"]
        res = ent["results"]
        if any(r[0] == "raise" for r in res):
            n_refused += 1
            v = S.build(d)
            if len(res) == 1 and S.has_unorderable_collection(v) and next(iter(res))[1] == "TypeError":
                continue  # allowed refusal: no canonical order exists for the members
            ctx.fail("unexpected-refusal", f"hash_function refused a value of the grammar or refused it only for some insertion orders: {sorted(res)}", {"kind": "refusal", "desc": d, "results": sorted(res)}, domain=dom)
            continue
        if len(res) > 1:
            ctx.fail(
                S.instability_class(d),
                f"one abstract value, {len(res)} different hashes depending on insertion order: {S.build(d)!r}"[:300],
                {"kind": "instability", "desc": d, "hashes": sorted(h for _, h in res)},
                domain=dom,
            )
        for _, h in res:
            buckets.setdefault(h, {}).setdefault(S.loose_key(d), d)
    n_coll = 0
    for h, members in buckets.items():
        if len(members) < 2:
            continue
        for (k1, d1), (k2, d2) in itertools.combinations(sorted(members.items(), key=lambda kv: repr(kv[0])), 2):
            n_coll += 1
            ctx.fail(
                S.collision_class(d1, d2),
                f"different values, same hash {h}: {S.build(d1)!r} vs {S.build(d2)!r}"[:400],
                {"kind": "collision", "d1": d1, "d2": d2, "hash": h},
                domain=dom,
            )
    n = len(by_strict)
    return {"values": n, "pairs": n * (n - 1) // 2, "refused": n_refused, "colliding_pairs": n_coll}


def universe(ctx):
    alphabet = ctx.pick("a:=,", "a:=,1")
    nleaves = ctx.pick(6, 8)
    scal = S.scalar_values(alphabet, 3)
    leaves = S.leaf_pool(nleaves)
    l1 = S.level1(leaves, 2)
    pool = [S.d_of(v) for v in leaves] + l1
    l2 = S.level2(pool, l1)
    objs = S.object_values()
    types_ = S.type_values()
    funcs = S.func_values()
    arrays = S.array_values(
        dtypes=ctx.pick(("int32", "float32", "int64"), ("int32", "float32", "int64", "float64", "uint8")),
        nmax=4,
        layouts=("C", "F", "strided"),
    )
    return {"scalars": scal, "depth1": l1, "depth2": l2, "objects": objs, "types": types_, "functions": funcs, "arrays": arrays}, alphabet, nleaves


def values(ctx):
    U, alphabet, nleaves = universe(ctx)
    allv = [d for part in U.values() for d in part]
    sizes = {k: len(v) for k, v in U.items()}
    dom = ctx.domain(
        "value-pairs",
        bound=f"scalars incl. 1/True/1.0, 0.0/-0.0, big ints, str and bytes of <= 3 chars over {alphabet!r} (+{len(S.ADVERSARIAL_STRINGS)} tag-like strings); "
        f"list/tuple/dict/set/frozenset nested to depth 2 over {nleaves} leaves, length <= 2 (sets <= 3); attrs/plain/slots objects of 5 classes; "
        f"{sizes['types']} types; {sizes['functions']} functions/lambdas/builtins; numpy arrays of every shape with <= 4 elements (ndim <= 3, plus empty shapes) x dtypes x {{0,1}} contents x C/F/strided layout, numpy scalars; sizes {sizes}",
        rule="one evaluation per (value, insertion order); distinct = distinct abstract values (strict key); non-trivial = pydra returned a hash (refusals of unorderable "
        "collections are modelled, not compared); every unordered pair of distinct values is decided by bucketing hash -> loose keys",
        exhaustive=True,
    )
    st = analyse(ctx, dom, allv)
    ctx.note(f"value-pairs: {st['values']} distinct values = {st['pairs']} unordered pairs decided; {st['refused']} values refused (unorderable collection members); {st['colliding_pairs']} colliding pairs")
    special = U["scalars"][:40] + U["depth1"][:: max(1, len(U["depth1"]) // 60)] + U["objects"] + U["types"] + U["functions"] + U["arrays"]
    dom2 = ctx.domain(
        "embedded-value-pairs",
        bound=f"{len(special)} values (all objects, types, functions, arrays; a sample of scalars and depth-1 containers) each embedded as [v], (v, None) and {{'k': v}}",
        rule="same pair relation as value-pairs on the embedding containers; one evaluation per (context, value, insertion order)",
        exhaustive=True,
    )
    tot = 0
    for label, wrap in (
        ("[v]", lambda d: ["list", [d]]),
        ("(v,None)", lambda d: ["tuple", [d, ["none"]]]),
        ("{'k':v}", lambda d: ["dict", [[["str", "k"], d]]]),
    ):
        st2 = analyse(ctx, dom2, special, wrap=wrap, label=label)
        tot += st2["pairs"]
    ctx.note(f"embedded-value-pairs: {tot} unordered pairs decided")
    return U


# ------------------------------------------------------------------------------ context part
def context(ctx, U):
    hash_function, Cache = _hf()
    step = ctx.pick(24, 8)
    pool = (
        U["scalars"][:: max(1, len(U["scalars"]) // (96 // step + 4))]
        + U["depth1"][:: max(1, len(U["depth1"]) // (192 // step))]
        + U["depth2"][:: max(1, len(U["depth2"]) // (192 // step))]
        + U["objects"][::step // 4]
        + U["types"][:: max(1, step // 4)]
        + U["functions"][:: max(1, step // 8)]
        + U["arrays"][:: max(1, len(U["arrays"]) // (240 // step))]
    )
    # only values pydra hashes and whose hash is order-stable (the other cases are reported by value-pairs)
    usable = []
    for d in pool:
        rs = {hash_of(d, o) for o in range(S.n_orders(d))}
        if len(rs) == 1 and next(iter(rs))[0] == "ok":
            usable.append((d, next(iter(rs))[1]))
    dom = ctx.domain(
        "context-freeness",
        bound=f"all ordered pairs (y, x) over {len(usable)} representative values of every kind of the grammar",
        rule="per pair 5 relations: x hashed after y with one shared Cache == x alone; [x, y] == [x', y'] built separately; [x, y] with a memo warmed by y and x == the same; "
        "[x, x] (one object twice) == [x, x'] ; {'k': [x], 'j': (y,)} == separately built; non-trivial = x and y are different abstract values",
        exhaustive=True,
    )
    for (dy, hy), (dx, hx) in itertools.product(usable, repeat=2):
        x, y = S.build(dx), S.build(dy)
        x2, y2 = S.build(dx), S.build(dy)
        dom.case((S.strict_key(dy), S.strict_key(dx)), nontrivial=S.strict_key(dx) != S.strict_key(dy), sample={"y": dy, "x": dx})
        c = Cache()
        hy_shared = hash_function(y, cache=c)
        hx_shared = hash_function(x, cache=c)
        problems = []
        if hx_shared != hx or hy_shared != hy:
            problems.append(f"hash of x after hashing y with the same Cache is {hx_shared}, alone {hx}")
        ref = hash_function([x2, y2])
        if hash_function([x, y]) != ref:
            problems.append("[x, y] hashes differently from a separately built equal list")
        if hash_function([x, y], cache=c) != ref:
            problems.append("[x, y] hashed with a memo that already holds x and y differs from the fresh hash")
        if hash_function([x, x]) != hash_function([x, x2]):
            problems.append("[x, x] (same object twice) differs from [x, x'] (equal objects)")
        if hash_function({"k": [x], "j": (y,)}) != hash_function({"j": (y2,), "k": [x2]}):
            problems.append("nested embedding differs from a separately built equal structure")
        for p in problems:
            ctx.fail(None, f"context dependence: {p}; x={x!r} y={y!r}"[:400], {"kind": "context", "dx": dx, "dy": dy, "problem": p}, domain=dom)
        del x, y, x2, y2


def deductive(ctx):
    """engine D: memo logic of hash_single (hit returns the memoised hash; the recursion placeholder is
    stored before serialising and replaced by the final hash, which is returned)"""
    from contracts import hash_single as HS
    from pyvc.verify import verify, summarize

    summarize(ctx, verify(ctx, HS.contract()))


def run(ctx):
    deductive(ctx)
    _run_bounded(ctx)


def _run_bounded(ctx):
    ctx.level = "other"
    ctx.explanation = (
        "hash_function of the working tree is executed on every value of a bounded grammar (scalars, short strings/bytes over an alphabet containing the "
        "separators the serializers use, containers to depth 2, attrs/plain/slots objects, types, functions, numpy arrays of <= 4 elements) and the property's pair "
        "relation (equal content => equal hash under every insertion order; different type/content/nesting/shape/dtype => different hash) is decided for every "
        "unordered pair, alone and embedded; context-freeness is checked on all ordered pairs of representatives with shared Cache objects; the serializer tag "
        "table is extracted from the source with ast and checked to be prefix-free. Bounded evidence, not a proof."
    )
    ctx.trust("blake2b collisions are not the cause of an observed equality (equal hashes are attributed to equal serializations)")
    ctx.note("C08 leaves open (accepts both): 0.0 vs -0.0, NaN payloads, functions with identical arguments+body but another name, two spellings of one typing construct, "
             "closure cell values (checked by C06, whose statement names them)")
    ctx.note("outside the grammar (not checked here): cyclic containers, modules, user __bytes_repr__; observed during triage: with a = []; b = [a]; a.append(b) "
             "hash_function(b, cache=c) after hash_function(a, cache=c) differs from hash_function(b) - the memo keeps a hash computed against the recursion placeholder")
    with S.isolated_hash_cache():
        structural(ctx)
        U = values(ctx)
        context(ctx, U)


def replay(rec):
    with S.isolated_hash_cache():
        return _replay(rec)


def _replay(rec):
    case = rec["case"]
    kind = case.get("kind")
    hash_function, Cache = _hf()
    bad = False
    if kind == "collision":
        r1, r2 = hash_of(case["d1"]), hash_of(case["d2"])
        print(f"replay C08 collision: {S.build(case['d1'])!r} -> {r1}; {S.build(case['d2'])!r} -> {r2}")
        bad = r1 == r2 and r1[0] == "ok" and S.loose_key(case["d1"]) != S.loose_key(case["d2"])
    elif kind == "instability":
        d = case["desc"]
        rs = {hash_of(d, o) for o in range(S.n_orders(d))}
        print(f"replay C08 instability: {S.build(d)!r} -> {sorted(rs)}")
        bad = len(rs) > 1
    elif kind == "refusal":
        d = case["desc"]
        rs = {hash_of(d, o) for o in range(S.n_orders(d))}
        print(f"replay C08 refusal: {S.build(d)!r} -> {sorted(rs)}")
        bad = any(r[0] == "raise" for r in rs) and not (len(rs) == 1 and S.has_unorderable_collection(S.build(d)))
    elif kind == "context":
        x, y = S.build(case["dx"]), S.build(case["dy"])
        c = Cache()
        hash_function(y, cache=c)
        a = hash_function(x, cache=c)
        b = hash_function(S.build(case["dx"]))
        l1 = hash_function([x, y], cache=c)
        l2 = hash_function([S.build(case["dx"]), S.build(case["dy"])])
        print(f"replay C08 context: shared={a} alone={b} list-warm={l1} list-fresh={l2} ({case.get('problem')})")
        bad = a != b or l1 != l2 or hash_function([x, x]) != hash_function([x, S.build(case["dx"])])
    elif kind in ("tags", "tag-extraction"):
        rows = S.serializer_tags(REPO)
        tags = [r["tag"] for r in rows if r["kind"] == "static"]
        conf = S.tag_conflicts(tags)
        print(f"replay C08 tags: static tag conflicts {conf}")
        bad = bool(conf) or kind == "tag-extraction"
    else:
        print("replay C08: unknown case kind", kind)
    if bad:
        print(f"VIOLATION property=C08 replay={rec.get('_path', '')}")
        return 1
    return 0
