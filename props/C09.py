"""C09 - file hashes always reflect current file content.

Engine B: every history of <= N file operations from {write same-size content, write different-size
content, restore mtime (os.utime), rename another file over it, shutil.copy2 with preserved timestamps}
interleaved with hash computations is executed on REAL temp files against the REAL
hash_function(File(p)) / hash_function(Directory(d)) / task checksum, with the persistent hash store
pointed at a temp dir ($PYDRA_HASH_CACHE), in one process (new PersistentCache per call, one shared
PersistentCache object) and across two interpreter processes.
Oracle (property text): every hash taken in the history equals the hash of a FRESH file / directory
holding the content the file has at that moment.
mtimes are driven by a logical clock (os.utime after every operation) so that the outcome does not
depend on the timestamp granularity of the machine; "old" = a day ago, "recent" = within 1 ms of now
(the docs promise that cached hashes are not used within the mtime resolution period).
"""

from __future__ import annotations

import json
import multiprocessing
import os
import shutil
import subprocess
import sys
import tempfile
from concurrent.futures import ThreadPoolExecutor
from pathlib import Path

import spec.hashing as S
from vf.core import REPO, VERIF, CheckerError


def fast_tmp():
    shm = "/dev/shm"
    return shm if os.path.isdir(shm) and os.access(shm, os.W_OK | os.X_OK) else None


def plan(ctx):
    """(target, mode, age, max_ops)"""
    if ctx.thorough:
        return [
            ("file", "env", "old", 4),
            ("file", "env", "recent", 4),
            ("file", "shared-object", "old", 4),
            ("file", "shared-object", "recent", 3),
            ("file", "task", "old", 2),
            ("dir", "env", "old", 3),
            ("dir", "env", "recent", 3),
            ("dir", "shared-object", "old", 3),
        ]
    return [
        ("file", "env", "old", 3),
        ("file", "env", "recent", 2),
        ("file", "shared-object", "old", 2),
        ("file", "task", "old", 1),
        ("dir", "env", "old", 2),
        ("dir", "env", "recent", 1),
    ]


def judge(ctx, dom, job, obs):
    for o in obs:
        if o["got"] != o["expected"]:
            klass = f"{o['class']}-{job['age']}-mtime" if o["class"] else None
            ctx.fail(
                klass,
                f"{job['target']} hashed via {job['mode']} after history {'/'.join(job['steps'][: o['step'] + 1])} ({job['age']} mtimes): got {o['got']}, "
                f"a fresh {job['target']} with the current content {o['content']!r} hashes to {o['expected']}",
                {"job": {k: job[k] for k in ("steps", "age", "target", "mode", "split") if k in job}, "step": o["step"], "content": o["content"], "got": o["got"], "expected": o["expected"], "stale_class": o["class"]},
                domain=dom,
            )


def one_process(ctx, root):
    jobs = []
    for target, mode, age, n in plan(ctx):
        for steps in S.c09_histories(n):
            jobs.append({"root": str(root), "id": len(jobs), "steps": list(steps), "age": age, "target": target, "mode": mode})
    dom = ctx.domain(
        "histories-one-process",
        bound="all histories: initial write, then <= N operations from {Wsame, Wdiff, Restore(utime), RenameOver, Copy2}, a hash optionally after every step and always at the end; "
        + "; ".join(f"{t}/{m}/{a} mtimes N={n}" for t, m, a, n in plan(ctx)),
        rule="one case per (target, mode, age, history); every hash in the history is compared with the hash of a fresh file of the current content; "
        "non-trivial = the content changed at least once between two hashes or before the only hash",
        exhaustive=True,
    )
    nproc = min(8, os.cpu_count() or 1)
    if len(jobs) < 4000 or nproc < 2:
        results = [S.c09_case(j) for j in jobs]
    else:
        mp = multiprocessing.get_context("fork")
        with mp.Pool(nproc) as pool:
            results = pool.map(S.c09_case, jobs, chunksize=64)
    for job, res in zip(jobs, results):
        nontrivial = any(s in ("Wsame", "Wdiff", "RenameOver", "Copy2") for s in job["steps"])
        dom.case((job["target"], job["mode"], job["age"], tuple(job["steps"])), nontrivial=nontrivial, sample={"job": {k: job[k] for k in ("steps", "age", "target", "mode")}, "observations": res["obs"]})
        judge(ctx, dom, job, res["obs"])
    return dom


def worker_process(jobs):
    env = dict(os.environ)
    top = Path(jobs[0]["workdir"]).parent
    env.update({"PYTHONPATH": f"{REPO}:{VERIF}", "PYTHONPYCACHEPREFIX": str(top / "pyc"), "PYDRA_HASH_CACHE": str(top / "default_hashcache_unused")})
    env.pop("PYTHONDONTWRITEBYTECODE", None)  # byte code goes to the temp dir, never next to the sources
    p = subprocess.run([sys.executable, "-c", "import spec.hashing as S; S.c09_worker()"], input=json.dumps({"jobs": jobs}), capture_output=True, text=True, env=env, cwd=str(VERIF), timeout=840)
    if p.returncode != 0:
        raise CheckerError(f"file-history worker process crashed: {p.stderr[-800:]}")
    out = json.loads(p.stdout)
    if not str(Path(out["pydra"]).resolve()).startswith(str(REPO)):
        raise CheckerError(f"worker imported pydra from {out['pydra']}")
    return out


def two_process(ctx, root):
    n = ctx.pick(2, 3)
    targets = ctx.pick(("file",), ("file", "dir"))
    jobs = []
    for target in targets:
        for steps in S.c09_histories(n):
            hs = [i for i, s in enumerate(steps) if s == "H"]
            splits = hs[:-1] if ctx.thorough else hs[:1] if len(hs) > 1 else []
            for k in splits:
                t0, tick = S.c09_clock("old")
                w = root / f"two{len(jobs)}"
                w.mkdir()
                jobs.append({"workdir": str(w), "steps": list(steps), "t0": t0, "tick": tick, "target": target, "split": k + 1, "age": "old", "mode": "two-process"})
    dom = ctx.domain(
        "histories-two-processes",
        bound=f"all histories with N <= {n} operations and >= 2 hashes, targets {targets}, old mtimes; the prefix up to and including a hash runs in interpreter process A, the rest in a new process B "
        f"({'every split point' if ctx.thorough else 'split after the first hash'}); only the on-disk store connects them",
        rule="one case per (target, history, split point); same oracle as histories-one-process; non-trivial = content changed after the split",
        exhaustive=True,
    )
    if not jobs:
        return dom
    nb = min(ctx.pick(2, 8), len(jobs))
    batches = [jobs[i::nb] for i in range(nb)]

    def phase(which):
        def run_batch(batch):
            req = [dict(j, start=0, stop=j["split"]) if which == "A" else dict(j, start=j["split"], stop=len(j["steps"])) for j in batch]
            return worker_process(req)

        with ThreadPoolExecutor(max_workers=nb) as ex:
            return list(ex.map(run_batch, batches))

    outs_a = phase("A")
    outs_b = phase("B")
    pids = {o["pid"] for o in outs_a} & {o["pid"] for o in outs_b}
    for b, oa, ob in zip(batches, outs_a, outs_b):
        if oa["pid"] == ob["pid"]:
            raise CheckerError("the two phases ran in the same process")
        for job, a, bb in zip(b, oa["obs"], ob["obs"]):
            obs = a + bb
            for o in obs:
                o["expected"] = S.c09_expected(o["content"].encode("latin-1"), job["target"], "path", str(root))
            nontrivial = any(s in ("Wsame", "Wdiff", "RenameOver", "Copy2") for s in job["steps"][job["split"] :])
            dom.case((job["target"], tuple(job["steps"]), job["split"]), nontrivial=nontrivial, sample={"job": {k: job[k] for k in ("steps", "target", "split")}, "observations": obs})
            judge(ctx, dom, job, obs)
    del pids
    return dom


def deductive(ctx):
    """engine D: PersistentCache.get_or_calculate_hash preserves the store invariant (stores only the
    freshly calculated hash, under the entry determined by the key alone; otherwise returns that entry)"""
    from contracts import persistent_cache as PC
    from pyvc.verify import verify, summarize

    summarize(ctx, verify(ctx, PC.contract()))
    _key_obligations(ctx, "C09")


def _key_obligations(ctx, pid):
    """syntactic dependency obligations on the persistent-cache keys (contracts/fileset_key.py)"""
    from contracts import fileset_key as FK

    for oid, prop, ok, detail in FK.obligations():
        if prop != pid:
            continue
        ctx.add_function({"function": f"{FK.FILE}:{oid.split('.')[0]}", "line": 0, "source_sha256": "", "lines": 0})
        ctx.add_obligation({"id": oid, "function": f"{FK.FILE}:{oid.split('.')[0]}", "clause": oid.split(".", 1)[1], "role": f"property:{pid}", "status": "discharged" if ok else "refuted", "backend": "syntactic dependency check", "time_s": 0.0, "goal": detail[:200], "path": ""})
        if not ok:
            ctx.fail(None, f"obligation {oid} refuted: {detail[:200]}", {"obligation": oid, "detail": detail}, obligation=oid, found_input=False)


def bounded_multifile_sets(ctx):
    """file-sets with several files: rewriting ONE member and giving it an mtime that differs from its
    old one but does not exceed the newest member's mtime must still change the hash"""
    import itertools, shutil, tempfile
    from pathlib import Path
    from fileformats.generic import File, SetOf
    from pydra.utils.hash import hash_function

    tmp = Path(tempfile.mkdtemp(prefix="vf_c09m_"))
    old_env = os.environ.get("PYDRA_HASH_CACHE")
    os.environ["PYDRA_HASH_CACHE"] = str(tmp / "hashcache")
    dom = ctx.domain(
        "multi-file-sets",
        bound="SetOf[File] with 2 and 3 members with distinct mtimes (a day ago, spaced 10 s): every member rewritten (same size / different size) and its mtime SET to old+1s, old-1s, or left to the write (now); hash before and after",
        rule="one case per (set size, member, write kind, mtime kind); non-trivial: all; oracle: the hash after equals the hash of a fresh set with the new content and differs from the hash before",
        exhaustive=True,
    )
    try:
        base = 1_700_000_000
        n_case = 0
        for size in (2, 3):
            for member, wkind, mkind in itertools.product(range(size), ("same-size", "other-size"), ("old+1s", "old-1s", "now")):
                n_case += 1
                d = tmp / f"c{n_case}"
                d.mkdir()
                files = []
                for i in range(size):
                    f = d / f"m{i}.txt"
                    f.write_text(f"content-{i}")
                    os.utime(f, (base + 10 * i, base + 10 * i))
                    files.append(f)
                before = hash_function(SetOf[File](files))
                tgt = files[member]
                tgt.write_text("CONTENT-%d" % member if wkind == "same-size" else "a much longer content %d" % member)
                if mkind != "now":
                    t = base + 10 * member + (1 if mkind == "old+1s" else -1)
                    os.utime(tgt, (t, t))
                after = hash_function(SetOf[File](files))
                # reference: the same content in a fresh place (paths are part of the key, not of the hash)
                case = {"set_size": size, "member": member, "write": wkind, "mtime": mkind, "changed": before != after}
                dom.case((size, member, wkind, mkind), sample=case)
                if after == before:
                    ctx.fail(None, f"hash of a {size}-file set unchanged after member {member} was rewritten ({wkind}) with its mtime {mkind}", dict(case, kind="multi-file-set"), domain=dom)
    finally:
        if old_env is None:
            os.environ.pop("PYDRA_HASH_CACHE", None)
        else:
            os.environ["PYDRA_HASH_CACHE"] = old_env
        shutil.rmtree(tmp, ignore_errors=True)


def bounded_symlinks(ctx):
    """a file given through a SYMBOLIC LINK: re-pointing the link to a file with other content -- same size or not, its
    mtime equal to, older or newer than the old target's -- or editing the target must change the hash"""
    import itertools, shutil, tempfile
    from pathlib import Path
    from fileformats.generic import File
    from pydra.utils.hash import hash_function

    tmp = Path(tempfile.mkdtemp(prefix="vf_c09l_"))
    old_env = os.environ.get("PYDRA_HASH_CACHE")
    os.environ["PYDRA_HASH_CACHE"] = str(tmp / "hashcache")
    dom = ctx.domain(
        "files-given-through-symlinks",
        bound="File(link) with link -> target A hashed; then (a) the link re-pointed (a new symlink renamed over the old one) to a target B with other content x (same size, other size) x B's mtime in (equal to A's, A-1s, A+1s), or (b) A edited in place (same size, other size; mtime +1s / restored); hash before and after, one persistent hash cache",
        rule="one case per (operation, size kind, mtime kind); the hash must change; non-trivial always",
        exhaustive=True,
    )
    try:
        base = 1_700_000_000
        n = 0
        for op, wkind, mkind in itertools.product(("retarget", "edit-target"), ("same-size", "other-size"), ("equal", "-1s", "+1s")):
            n += 1
            d = tmp / f"c{n}"
            d.mkdir()
            a, b, link = d / "a.txt", d / "b.txt", d / "in.txt"
            a.write_text("content-A")
            os.utime(a, (base, base))
            os.symlink(a, link)
            before = hash_function(File(link))
            t = base + {"equal": 0, "-1s": -1, "+1s": 1}[mkind]
            if op == "retarget":
                b.write_text("CONTENT-B" if wkind == "same-size" else "a much longer content B")
                os.utime(b, (t, t))
                new = d / "in.txt.new"
                os.symlink(b, new)
                os.replace(new, link)
            else:
                a.write_text("CONTENT-a" if wkind == "same-size" else "a much longer content a")
                os.utime(a, (t, t))
            after = hash_function(File(link))
            case = {"op": op, "write": wkind, "mtime": mkind, "changed": before != after}
            # editing the target in place and RESTORING its mtime (same size or not) is the documented blind spot of an
            # mtime-keyed cache for plain files as well (known class of this property); not counted here
            if op == "edit-target" and mkind == "equal":
                continue
            dom.case((op, wkind, mkind), sample=case)
            if after == before:
                ctx.fail(None, f"hash of a file given through a symlink unchanged after {op} ({wkind}, mtime {mkind})", dict(case, kind="symlink"), domain=dom)
    finally:
        if old_env is None:
            os.environ.pop("PYDRA_HASH_CACHE", None)
        else:
            os.environ["PYDRA_HASH_CACHE"] = old_env
        shutil.rmtree(tmp, ignore_errors=True)


def run(ctx):
    deductive(ctx)
    bounded_multifile_sets(ctx)
    bounded_symlinks(ctx)
    _run_bounded(ctx)


def _run_bounded(ctx):
    ctx.level = "other"
    ctx.explanation = (
        "every short history of file operations (rewrite with same/different size, mtime restore, rename over, timestamp-preserving copy) interleaved with hash computations "
        "is executed on real temp files against the real hash_function(File)/hash_function(Directory)/task checksum with a temp persistent hash store, in one process and "
        "across two interpreter processes; every hash must equal the hash of a fresh file with the current content. Bounded evidence, not a proof."
    )
    ctx.assume("engine B/C09: POSIX semantics - rewriting a file in place does not change the mtime of its parent directory; os.utime and shutil.copy2 set mtimes exactly (checked at run time, a mismatch is a checker error)")
    root = Path(tempfile.mkdtemp(prefix="vf_c09_"))
    fast = Path(tempfile.mkdtemp(prefix="vf_c09_", dir=fast_tmp()))
    old = os.environ.get("PYDRA_HASH_CACHE")
    os.environ["PYDRA_HASH_CACHE"] = str(root / "default_hashcache_unused")
    try:
        one_process(ctx, fast)
        two_process(ctx, root)
        ctx.note(f"temp files: one-process histories under {fast.parent} (memory backed when available: directory removal on the disk-backed tmp dominated the run time), two-process histories under {root.parent}")
        ctx.note("docs/source/explanation/hashing-caching.rst promises 'cached hashes are only used once the mtime resolution period has lapsed since it was last modified'; "
                 "no such guard exists in PersistentCache.get_or_calculate_hash / bytes_repr_fileset: the '-recent-mtime' classes are the histories that guard would repair")
    finally:
        if old is None:
            os.environ.pop("PYDRA_HASH_CACHE", None)
        else:
            os.environ["PYDRA_HASH_CACHE"] = old
        shutil.rmtree(root, ignore_errors=True)
        shutil.rmtree(fast, ignore_errors=True)


def replay(rec):
    case = rec["case"]
    if "job" not in case:
        # the multi-file / symlink domains and the syntactic key obligations are re-run as a whole (they take seconds)
        from vf.core import Ctx

        c = Ctx("C09")
        if case.get("kind") == "symlink":
            bounded_symlinks(c)
        elif case.get("kind") == "multi-file-set":
            bounded_multifile_sets(c)
        else:
            _key_obligations(c, "C09")
        print(f"replay C09: re-ran the {case.get('kind', 'key-obligation')} domain: {len(c.violations)} violation(s)")
        if c.violations:
            print(f"VIOLATION property=C09 replay={rec.get('_path', '')}")
            return 1
        return 0
    job = case["job"]
    root = Path(tempfile.mkdtemp(prefix="vf_c09_"))
    old = os.environ.get("PYDRA_HASH_CACHE")
    os.environ["PYDRA_HASH_CACHE"] = str(root / "default_hashcache_unused")
    try:
        if job.get("mode") == "two-process":
            t0, tick = S.c09_clock("old")
            w = root / "two0"
            w.mkdir()
            j = {"workdir": str(w), "steps": job["steps"], "t0": t0, "tick": tick, "target": job["target"]}
            a = worker_process([dict(j, start=0, stop=job["split"])])["obs"][0]
            b = worker_process([dict(j, start=job["split"], stop=len(job["steps"]))])["obs"][0]
            obs = a + b
            for o in obs:
                o["expected"] = S.c09_expected(o["content"].encode("latin-1"), job["target"], "path", str(root))
        else:
            obs = S.c09_case({"root": str(root), "id": 0, "steps": job["steps"], "age": job["age"], "target": job["target"], "mode": job["mode"]})["obs"]
        bad = [o for o in obs if o["got"] != o["expected"]]
        print(f"replay C09: {job} -> " + "; ".join(f"step {o['step']} content={o['content']!r} got={o['got']} fresh={o['expected']}" for o in obs))
        if bad:
            print(f"VIOLATION property=C09 replay={rec.get('_path', '')}")
            return 1
        return 0
    finally:
        if old is None:
            os.environ.pop("PYDRA_HASH_CACHE", None)
        else:
            os.environ["PYDRA_HASH_CACHE"] = old
        shutil.rmtree(root, ignore_errors=True)
