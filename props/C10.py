"""C10 — concurrent submitters of one job share a single execution.

A function-level argument (engine D) plus a bounded run with real processes (engine B):

D  (i) on every path of Job.run / Job.run_async the cache lookup that decides whether to execute, the
       execution and the saving of the result all happen while the job's lock is held
       (clause cache-decision-and-execution-under-the-job-lock);
   (ii) the early return happens only for a present, non-errored result, and an unerrored result is
       saved only after the task body and output collection returned;
   (iii) load_result returns None or the content of a COMPLETE result file (loop invariants).
   Together with the TRUSTED mutual exclusion of filelock.SoftFileLock on <cache_dir>.lock this gives,
   for submitters without rerun: the holder of the lock either finds the complete result of an earlier
   holder and returns it, or executes; so a successful body execution is followed only by cache hits,
   and nobody returns a partially written result.  The composition step itself (lock axiom + (i)-(iii)
   => exactly one execution) is an argument on paper, not a discharged obligation.
B  2..4 real processes submit the same slow python task into one cache root with start offsets and
   with/without an existing result: the body is executed exactly once (0 times with an existing
   result), every submitter returns the same outputs, none fails.
"""
import os
import shutil
import subprocess
import sys
import tempfile
import time
from concurrent.futures import ThreadPoolExecutor
from pathlib import Path

from contracts import job_run as JR
from contracts import load_result as LR
from pyvc.verify import verify, summarize
from props import _jobharness as H

CHILD = r'''
import os, sys, time
sys.path.insert(0, "/verif")
root, delay = sys.argv[1], float(sys.argv[2])
time.sleep(delay)
from props._c10task import Slow
out = Slow(a=5)(cache_root=root)
print("OUT", out.out)
'''


def history(n, offsets, precached):
    tmp = Path(tempfile.mkdtemp(prefix="vf_c10_"))
    try:
        env = dict(os.environ, VF_C10_LOG=str(tmp / "log"), VF_C10_SLEEP="1.2")
        if precached:
            subprocess.run([sys.executable, "-c", CHILD, str(tmp / "root"), "0"], env=env, capture_output=True, text=True, timeout=120)
            (tmp / "log").unlink(missing_ok=True)
        procs = [subprocess.Popen([sys.executable, "-c", CHILD, str(tmp / "root"), str(offsets[i])], env=env, stdout=subprocess.PIPE, stderr=subprocess.PIPE, text=True) for i in range(n)]
        outs = []
        for p in procs:
            try:
                o, e = p.communicate(timeout=180)
                val = [l[4:] for l in o.splitlines() if l.startswith("OUT ")]
                outs.append({"rc": p.returncode, "out": val[-1] if val else None, "err": e[-200:] if p.returncode else None})
            except subprocess.TimeoutExpired:
                p.kill()
                outs.append({"rc": "timeout", "out": None, "err": None})
        log = (tmp / "log").read_text().splitlines() if (tmp / "log").exists() else []
        return {"submitters": n, "offsets": list(offsets[:n]), "precached": precached, "results": outs, "body_executions": len(log)}
    finally:
        shutil.rmtree(tmp, ignore_errors=True)


def bounded(ctx):
    offs = [(0, 0, 0, 0), (0, 0.4, 0.8, 1.2), (0, 1.0, 1.0, 2.0)] + ([(0, 0.2, 0.2, 0.2), (0, 1.5, 1.6, 1.7)] if ctx.thorough else [])
    cases = [(n, o, pre) for n in (2, 3, 4) for o in offs for pre in (False, True)]
    if not ctx.thorough:
        cases = [c for c in cases if c[0] in (2, 4)]
    dom = ctx.domain(
        "concurrent-submitters",
        bound=f"{len(cases)} histories: 2..4 real processes x start offsets {offs} x with/without an existing result; task body sleeps 1.2 s",
        rule="one case per history; non-trivial = no existing result (the submitters really compete)",
        exhaustive=True,
    )
    with ThreadPoolExecutor(3) as ex:
        results = list(ex.map(lambda c: history(*c), cases))
    for c, o in zip(cases, results):
        dom.case(c, nontrivial=not c[2], sample=o)
        exp = 0 if c[2] else 1
        if any(r["rc"] != 0 for r in o["results"]):
            ctx.fail("submitter-failed", f"a concurrent submitter failed or timed out: {o['results']}", o, domain=dom)
        elif len({r["out"] for r in o["results"]}) != 1 or o["results"][0]["out"] != "10":
            ctx.fail("outputs-differ", f"submitters returned {[r['out'] for r in o['results']]}", o, domain=dom)
        elif o["body_executions"] != exp:
            ctx.fail("body-executed-more-than-once" if o["body_executions"] > exp else "body-not-executed", f"task body executed {o['body_executions']} times (expected {exp}) for {c}", o, domain=dom)


def run(ctx):
    ctx.level = "other"
    ctx.explanation = __doc__.split("\n\n", 1)[1][:1500]
    roles = {
        "cache-decision-and-execution-under-the-job-lock": "property:C10",
        "cache-hit-only-unerrored": "property:C10",
        "unerrored-result-only-after-successful-run": "property:C10",
        "lock-released": "property:C10",
    }
    for qual in ("Job.run", "Job.run_async"):
        res = verify(ctx, JR.contract(qual, roles))
        summarize(ctx, res, replay=H.replay_path)
    res = verify(ctx, LR.contract({"returns-first-complete-result-in-list-order": "property:C10", "none-only-if-no-listed-cache-is-complete": "auxiliary"}))
    summarize(ctx, res)
    ctx.trust("filelock.SoftFileLock gives mutual exclusion between live holders of <cache_dir>.lock (NOT verified; the composition lock axiom + contracts => exactly one execution is an argument on paper)")
    bounded(ctx)


def replay(rec):
    c = rec["case"]
    if "submitters" in c:
        o = history(c["submitters"], tuple(c["offsets"]) + (0, 0, 0), c["precached"])
        print("replay C10:", o)
        bad = any(r["rc"] != 0 for r in o["results"]) or o["body_executions"] != (0 if c["precached"] else 1)
        if bad:
            print("VIOLATION property=C10 replay=(replayed)")
        return 1 if bad else 0
    return H.replay_case("C10", rec)
