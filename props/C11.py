"""C11 — at-most-once execution per identity; rerun and read-only caches as documented.

D: load_result (loop invariants over the list of caches: first complete result in list order,
   None only if no listed cache is complete), Job.run / run_async (executes the task iff rerun or no
   usable result; cache hit only for a present non-errored result; every write goes to
   cache_dir = cache_root/checksum), Job.cache_dir.
B: Job.run / Task.__call__ on every combination of cache-directory states for cache_root and
   up to two read-only caches x rerun, with an execution counter and a before/after
   snapshot of the read-only trees; rerun propagation into workflows.
"""
import hashlib
import itertools
import os
import shutil
import tempfile
from pathlib import Path

from contracts import job_run as JR
from contracts import load_result as LR
from pyvc.verify import Contract, verify, summarize
from pyvc.engine import is_z3
from props import _jobharness as H

ROLES = {
    "cache-decision-and-execution-under-the-job-lock": "property:C11",
    "executes-iff-rerun-or-no-usable-result": "property:C11",
    "cache-hit-only-unerrored": "property:C11",
    "writes-only-under-cache-dir": "property:C11",
}
LR_ROLES = {"returns-first-complete-result-in-list-order": "property:C11", "none-only-if-no-listed-cache-is-complete": "property:C11"}


def cache_dir_contract():
    return Contract(
        file="pydra/engine/job.py",
        qualname="Job.cache_dir",
        params={"self": "U"},
        attrs={"cache_root": {"kind": "U"}, "checksum": {"kind": "U"}},
        ensures=[("cache-dir-is-cache-root-slash-checksum", "property:C11", "result == path_join(self.cache_root, self.checksum)")],
        allow_raise=False,
    )


STATES = ["absent", "empty-dir", "job-only", "zero-size-result", "truncated-result", "errored-result", "complete-result"]


def _materialise(loc, cs, state, blobs):
    loc.mkdir(parents=True, exist_ok=True)
    d = loc / cs
    if state == "absent":
        return
    d.mkdir()
    if state == "empty-dir":
        return
    (d / "_job.pklz").write_bytes(blobs["job"])
    if state == "job-only":
        return
    if state == "zero-size-result":
        (d / "_result.pklz").write_bytes(b"")
    elif state == "truncated-result":
        (d / "_result.pklz").write_bytes(blobs["ok"][: len(blobs["ok"]) // 2])
    elif state == "errored-result":
        (d / "_result.pklz").write_bytes(blobs["err"])
        (d / "_error.pklz").write_bytes(blobs["errfile"])
    elif state == "complete-result":
        (d / "_result.pklz").write_bytes(blobs["ok"])


def _snapshot(root):
    out = {}
    if root.exists():
        for p in sorted(root.rglob("*")):
            out[str(p.relative_to(root))] = hashlib.sha1(p.read_bytes()).hexdigest() if p.is_file() else "dir"
    return out


def _blobs():
    """real job/result files for the probe task, produced by real runs in a scratch cache"""
    from pydra.engine.submitter import Submitter
    from pydra.engine.job import Job

    tmp = Path(tempfile.mkdtemp(prefix="vf_c11b_"))
    os.environ["VF_BODY_LOG"] = str(tmp / "log")
    cwd = os.getcwd()
    try:
        blobs = {}
        for key, fail in (("ok", "0"), ("err", "1")):
            os.environ["VF_C11_FAIL"] = fail
            root = tmp / key
            sub = Submitter(cache_root=root, worker="debug")
            job = Job(Probe(a=5), submitter=sub, name="main")
            try:
                job.run()
            except Exception:
                pass
            d = root / job.checksum
            blobs[key] = (d / "_result.pklz").read_bytes()
            blobs["job"] = (d / "_job.pklz").read_bytes()
            if key == "err":
                blobs["errfile"] = (d / "_error.pklz").read_bytes()
            cs = job.checksum
        os.environ["VF_C11_FAIL"] = "0"
        return cs, blobs
    finally:
        os.chdir(cwd)
        shutil.rmtree(tmp, ignore_errors=True)


from pydra.compose import python, workflow  # noqa: E402


@python.define
def Probe(a: int) -> int:
    H.BODY_CALLS.append(a)
    if os.environ.get("VF_C11_FAIL") == "1":
        raise RuntimeError("probe failed")
    return a * 2


@workflow.define
def ProbeWf(a: int) -> int:
    n = workflow.add(Probe(a=a), name="n")
    m = workflow.add(Probe(a=n.out), name="m")
    return m.out


@workflow.define
def ProbeWf4(a: int) -> int:
    p = workflow.add(Probe(a=a), name="p")
    q = workflow.add(Probe(a=a + 1), name="q")
    r = workflow.add(Probe(a=a + 2), name="r")
    s = workflow.add(Probe(a=r.out), name="s")
    return s.out


def replay_load_result(res, rec):
    """turn the solver's model of the abstract file system into real cache directories and
    run the real load_result on them"""
    import z3
    from pyvc.engine import U, u_of_str, to_U
    from pydra.engine.result import load_result

    m = rec.get("model")
    if m is None:
        return None, False
    st = res.paths[0][0]
    entry = st.env["__entry__"]
    seq = st.heap[entry["readonly_caches"].n].seq
    cs_t = entry["checksum"]
    pj = z3.Function("path_join", U, U, U)
    ex = z3.Function("fn.exists", U, z3.BoolSort())
    stat = z3.Function("fn.stat", U, U)
    size = z3.Function("attr.st_size:Int", U, z3.IntSort())
    opn = z3.Function("fn.open", U, U, U)
    loadable = z3.Function("fn.loadable", U, z3.BoolSort())

    def ev(t):
        return m.eval(t, model_completion=True)

    n = ev(seq.length).as_long()
    states = []
    for i in range(max(0, min(n, 4))):
        loc = seq.get(i)
        d = pj(loc, cs_t)
        rf = pj(d, to_U("_result.pklz"))
        if not z3.is_true(ev(ex(d))):
            states.append("absent")
        elif not z3.is_true(ev(ex(rf))):
            states.append("job-only")
        elif ev(size(stat(rf))).as_long() <= 0:
            states.append("zero-size-result")
        elif not z3.is_true(ev(loadable(opn(rf, to_U("rb"))))):
            states.append("truncated-result")
        else:
            states.append("complete-result")
    cs, blobs = _blobs()
    tmp = Path(tempfile.mkdtemp(prefix="vf_c11m_"))
    try:
        locs = [tmp / f"loc{i}" for i in range(len(states))]
        for loc, s_ in zip(locs, states):
            _materialise(loc, cs, s_, blobs)
        got = load_result(cs, locs, retries=2, polling_interval=0)
        exp_complete = "complete-result" in states
        case = {"states": states, "load_result_returned": None if got is None else "Result", "a_listed_cache_is_complete": exp_complete}
        return case, (got is None) == exp_complete
    finally:
        shutil.rmtree(tmp, ignore_errors=True)


def bounded_states(ctx):
    from pydra.engine.submitter import Submitter
    from pydra.engine.job import Job

    cs, blobs = _blobs()
    n_ro = ctx.pick(1, 2)
    dom = ctx.domain(
        "cache-states",
        bound=f"{len(STATES)} directory states for cache_root x {len(STATES)} for each of <= {n_ro} read-only cache(s) x rerun in (False, True); thorough: 2 read-only caches",
        rule="real job/result files from real runs; non-trivial = at least one location is not 'absent'",
        exhaustive=True,
    )
    combos = []
    for k in range(0, n_ro + 1):
        combos += [(s0,) + ro for s0 in STATES for ro in itertools.product(STATES, repeat=k)]
    for combo in combos:
        for rerun in (False, True):
            tmp = Path(tempfile.mkdtemp(prefix="vf_c11_"))
            os.environ["VF_BODY_LOG"] = str(tmp / "log")
            os.environ["VF_C11_FAIL"] = "0"
            cwd = os.getcwd()
            try:
                root = tmp / "root"
                ros = [tmp / f"ro{i}" for i in range(len(combo) - 1)]
                for loc, state in zip([root] + ros, combo):
                    _materialise(loc, cs, state, blobs)
                before = [_snapshot(r) for r in ros]
                sub = Submitter(cache_root=root, worker="debug", readonly_caches=ros or None)
                job = Job(Probe(a=5), submitter=sub, name="main")
                assert job.checksum == cs
                H.BODY_CALLS.clear()
                err = None
                try:
                    res = job.run(rerun=rerun)
                except Exception as e:  # noqa
                    res, err = None, e
                execs = len(H.BODY_CALLS)
                after = [_snapshot(r) for r in ros]
                case = {"states": list(combo), "rerun": rerun, "executions": execs, "raised": repr(err)[:120] if err else None, "out": getattr(getattr(res, "outputs", None), "out", None)}
                dom.case((combo, rerun), nontrivial=any(s != "absent" for s in combo), sample=case)
                # ---- oracle (from the property text)
                first_complete = next((s for s in combo if s in ("complete-result", "errored-result")), None)
                if err is not None:
                    ctx.fail(f"raised:{combo}", f"Job.run raised {err!r} for cache states {combo} rerun={rerun}", case, domain=dom)
                    continue
                if rerun:
                    if execs != 1:
                        ctx.fail("rerun-not-executed-once", f"rerun=True executed the task {execs} times for cache states {combo}", case, domain=dom)
                elif first_complete == "complete-result":
                    if execs != 0:
                        klass = "complete-result-not-reused:" + ("shadowed-by-earlier-incomplete-dir" if combo.index("complete-result") > 0 else "in-cache-root")
                        ctx.fail(klass, f"a complete result is listed ({combo}) but the task was executed {execs} time(s)", case, domain=dom)
                elif first_complete is None:
                    if execs != 1:
                        ctx.fail("not-executed-without-result", f"no complete result listed ({combo}) but executions={execs}", case, domain=dom)
                # (first complete result errored: re-executing or reusing a later success are both accepted)
                if case["out"] != 10:
                    ctx.fail("wrong-output", f"outputs {case['out']!r} != 10 for cache states {combo} rerun={rerun}", case, domain=dom)
                if before != after:
                    ctx.fail("readonly-cache-modified", f"a read-only cache was modified for states {combo} rerun={rerun}", case, domain=dom)
                if execs and not (root / cs / "_result.pklz").exists():
                    ctx.fail("result-not-under-cache-root", f"executed but no result under cache_root for {combo}", case, domain=dom)
                stray = [p for p in tmp.iterdir() if p.name not in ("root", "log") and p not in ros]
                if stray:
                    ctx.fail("writes-outside-cache-root", f"unexpected files {stray}", case, domain=dom)
            finally:
                os.chdir(cwd)
                H.BODY_CALLS.clear()
                shutil.rmtree(tmp, ignore_errors=True)


RERUN_WFS = {"chain2": (lambda: ProbeWf(a=3), 2, 12), "three-independent-then-one": (lambda: ProbeWf4(a=3), 4, 20)}


def rerun_configs(ctx):
    """(workflow, worker, worker kwargs, max_concurrent)"""
    out = []
    for wf in RERUN_WFS:
        for mc in (None, 1, 2):
            out.append((wf, "debug", {}, mc))
    out.append(("three-independent-then-one", "cf", {"n_procs": 1}, None))
    out.append(("three-independent-then-one", "cf", {"n_procs": 2}, 1))
    if ctx.thorough:
        out += [("chain2", "cf", {"n_procs": 1}, None), ("three-independent-then-one", "cf", {"n_procs": 4}, 2), ("three-independent-then-one", "cf", {"n_procs": 2}, None)]
    return out


def rerun_case(wf, worker, wkw, mc, rerun, prop):
    """two submissions into one cache root; executions of the inner python task counted per submission"""
    from pydra.engine.submitter import Submitter

    make, njobs, expected_out = RERUN_WFS[wf]
    tmp = Path(tempfile.mkdtemp(prefix="vf_c11r_"))
    os.environ["VF_BODY_LOG"] = str(tmp / "log")
    os.environ["VF_C11_FAIL"] = "0"
    cwd = os.getcwd()
    try:
        counts = []
        for step in range(2):
            H.BODY_CALLS.clear()
            kw = dict(wkw)
            if mc is not None:
                kw["max_concurrent"] = mc
            with Submitter(cache_root=tmp / "root", worker=worker, propagate_rerun=prop, **kw) as sub:
                res = sub(make(), rerun=(rerun and step == 1))
            counts.append(len(H.BODY_CALLS))
        return {"workflow": wf, "worker": worker, "worker_kwargs": wkw, "max_concurrent": mc, "rerun_second": rerun, "propagate_rerun": prop, "inner_jobs": njobs, "inner_executions": counts, "out": res.outputs.out, "expected_out": expected_out}
    finally:
        os.chdir(cwd)
        H.BODY_CALLS.clear()
        shutil.rmtree(tmp, ignore_errors=True)


def judge_rerun_case(case):
    """-> list of (class, message)"""
    bad = []
    n, counts = case["inner_jobs"], case["inner_executions"]
    rerun, prop = case["rerun_second"], case["propagate_rerun"]
    exp_second = n if (rerun and prop) else 0
    where = f"{case['workflow']}, worker {case['worker']} {case['worker_kwargs']}, max_concurrent={case['max_concurrent']}"
    if counts[0] != n:
        bad.append(("first-run-count", f"{where}: first submission executed {counts[0]} inner tasks, expected {n}"))
    if counts[1] != exp_second:
        bad.append((f"rerun-propagation:{rerun}:{prop}", f"{where}: second submission (rerun={rerun}, propagate_rerun={prop}) executed {counts[1]} inner tasks, expected {exp_second}"))
    if case["out"] != case["expected_out"]:
        bad.append(("wrong-output", f"{where}: workflow output {case['out']}"))
    return bad


def bounded_rerun_propagation(ctx):
    cfgs = rerun_configs(ctx)
    dom = ctx.domain(
        "rerun-propagation",
        bound=f"workflows {list(RERUN_WFS)} x (rerun, propagate_rerun) in {{F,T}}^2 x submissions [first, second] into one cache root x (worker, max_concurrent) in {[(w, k, m) for _, w, k, m in cfgs]}",
        rule="executions of the inner python task counted per submission (file-based counter, also across worker processes); with rerun and propagation every inner task runs again exactly once, otherwise none; non-trivial: second submissions",
        exhaustive=True,
    )
    for wf, worker, wkw, mc in cfgs:
        for rerun in (False, True):
            for prop in (False, True):
                case = rerun_case(wf, worker, wkw, mc, rerun, prop)
                dom.case((wf, worker, str(wkw), mc, rerun, prop), sample=case)
                for klass, msg in judge_rerun_case(case):
                    ctx.fail(klass, msg, case, domain=dom)


def run(ctx):
    # the function-level clauses are discharged deductively; the step from them to the property over whole HISTORIES of
    # submissions (and the workflow-level parts) is bounded / an argument on paper: not claimed as a proof
    ctx.level = "other"
    ctx.explanation = (
        "load_result is verified with loop invariants over an arbitrary list of caches (returns the first complete result "
        "in list order; None only if no listed cache holds a complete result); Job.run/run_async execute the task iff rerun "
        "or no present non-errored result, return early only for a present non-errored result, and pass only cache_dir to "
        "save/record_error/chdir; Job.cache_dir == cache_root/checksum. Bounded: all combinations of 7 directory states over "
        "cache_root and read-only caches x rerun with an execution counter and read-only snapshots; rerun propagation."
    )
    res = verify(ctx, LR.contract(LR_ROLES))
    summarize(ctx, res, replay=lambda rec: replay_load_result(res, rec))
    for qual in ("Job.run", "Job.run_async"):
        res = verify(ctx, JR.contract(qual, ROLES))
        summarize(ctx, res, replay=H.replay_path)
    res = verify(ctx, cache_dir_contract())
    summarize(ctx, res)
    from contracts import frames as FR

    for c in (FR.populate_contract(), FR.save_contract(), FR.record_error_contract()):
        summarize(ctx, verify(ctx, c))
    bounded_states(ctx)
    bounded_rerun_propagation(ctx)


def replay(rec):
    case = rec["case"]
    if "states" in case:
        from vf.core import Ctx

        c = Ctx("C11")
        print("replay C11: re-running the cache-state enumeration (quick bound)")
        bounded_states(c)
        return 1 if c.violations else 0
    if "inner_executions" in case:
        c2 = rerun_case(case["workflow"], case["worker"], case["worker_kwargs"], case["max_concurrent"], case["rerun_second"], case["propagate_rerun"])
        bad = judge_rerun_case(c2)
        print(f"replay C11: {c2}\n  problems: {bad}")
        if bad:
            print(f"VIOLATION property=C11 replay={rec.get('_path', '')}")
            return 1
        return 0
    return H.replay_case("C11", rec)
