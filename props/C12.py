"""C12 — a crash at any point never yields a wrong result or a wedged cache.

D: load_result's contract (None or the content of a *complete* result file, verified with loop
   invariants) + Job.run's clause that an unerrored Result is saved only after the task body
   and output collection returned (prefix-closed over the effect trace, so it holds for the
   disk state left by a process dying at any point of any path).
B: (1) load_result on every truncation length of real result files; (2) a child process running
   the real Job.run is killed (os._exit) at every call site of the run path, including in
   the middle of writing the result file; the parent then resubmits the same task under a
   watchdog: correct outputs, no hang on the stale lock.
NOT decided here: liveness of filelock's stale-lock handling in general (trusted:
filelock.SoftFileLock breaks locks whose owner PID is dead).
"""
import os
import shutil
import signal
import subprocess
import sys
import tempfile
import time
from concurrent.futures import ThreadPoolExecutor
from pathlib import Path

from contracts import job_run as JR
from contracts import load_result as LR
from pyvc.verify import verify, summarize
from props import _jobharness as H

CRASH_SITES = [
    "hooks.pre_run",  # before the lock is taken
    "populate.enter",  # lock acquired, nothing written
    "populate.save",  # info file + directory exist, job record being written
    "hooks.pre_run_task",  # directory populated
    "audit.monitor",
    "task.body",  # inside the task body
    "Outputs._from_job",  # body left
    "hooks.post_run_task",
    "final.save.before",  # before the result file is opened
    "final.save.partial",  # inside save(): result file partially written, save lock held
    "final.save.jobrecord",  # inside save(): result complete, job record being rewritten, save lock held
    "final.save.after",  # result file complete, info file still there, lock held
    "hooks.post_run",  # after lock release
]

CHILD = r'''
import os, sys
sys.path.insert(0, "/verif")
site, root = sys.argv[1], sys.argv[2]
import pydra.engine.job as J
import pydra.engine.result as R
from props._jobharness import Body
from pydra.engine.submitter import Submitter
from pydra.engine.job import Job
from pydra.engine.hooks import TaskHooks
from pydra.compose.python import PythonOutputs as PO
def die(*a, **k):
    os._exit(9)
hooks = {}
for h in ("pre_run", "pre_run_task", "post_run_task", "post_run"):
    if site == "hooks." + h:
        hooks[h] = die
sub = Submitter(cache_root=root, worker="debug")
job = Job(Body(a=3), submitter=sub, name="main", hooks=TaskHooks(**hooks))
if site == "populate.enter":
    job._populate_filesystem = die
if site == "audit.monitor":
    job.audit.monitor = die
if site == "task.body":
    os.environ["VF_BODY_DIE"] = "1"
if site == "Outputs._from_job":
    PO._from_job = classmethod(lambda cls, job: die())
real_save = J.save
def save(task_path, result=None, job=None, **kw):
    if site == "populate.save" and result is None:
        # die inside the real save() of the job record (save lock held)
        def dump0(obj, fp, *a, **k):
            fp.write(b"\x80")
            fp.flush()
            os._exit(9)
        R.cp.dump = dump0
        real_save(task_path, result=result, job=job, **kw)
        os._exit(8)
    if result is not None and site.startswith("final.save"):
        if site == "final.save.before":
            os._exit(9)
        if site == "final.save.partial":
            # die INSIDE the real save(), i.e. while its <dir>_save.lock is held, with the
            # result file half written
            real_dump = R.cp.dump
            def dump(obj, fp, *a, **k):
                blob = R.cp.dumps(obj)
                fp.write(blob[: max(1, len(blob) // 2)])
                fp.flush()
                os._exit(9)
            R.cp.dump = dump
            real_save(task_path, result=result, job=job, **kw)
            os._exit(8)
        if site == "final.save.jobrecord":
            # result file complete, job record being rewritten, save lock still held
            real_dump = R.cp.dump
            state = {"n": 0}
            def dump(obj, fp, *a, **k):
                state["n"] += 1
                if state["n"] == 2:
                    os._exit(9)
                return real_dump(obj, fp, *a, **k)
            R.cp.dump = dump
            real_save(task_path, result=result, job=job, **kw)
            os._exit(8)
        real_save(task_path, result=result, job=job, **kw)
        os._exit(9)
    return real_save(task_path, result=result, job=job, **kw)
J.save = save
job.run()
os._exit(0)
'''


def crash_case(site, watchdog=150):
    """a 'hang' verdict must not be an artefact of a loaded machine: a resubmission that exceeds the
    watchdog is repeated once from scratch with a four times longer watchdog"""
    o = _crash_case(site, watchdog)
    if o["resubmission_hung"]:
        o2 = _crash_case(site, watchdog * 4)
        o2["first_attempt_exceeded_s"] = watchdog
        return o2
    return o


def _crash_case(site, watchdog):
    tmp = Path(tempfile.mkdtemp(prefix="vf_c12_"))
    try:
        env = dict(os.environ, PYTHONPATH=os.environ.get("PYTHONPATH", "/repo:/verif"), VF_BODY_LOG=str(tmp / "log"))
        env.pop("VF_BODY_DIE", None)
        r = subprocess.run([sys.executable, "-c", CHILD, site, str(tmp / "root")], env=env, capture_output=True, text=True, timeout=600)
        left = sorted(p.name for p in (tmp / "root").iterdir()) if (tmp / "root").exists() else []
        # resubmission in a second fresh process under a watchdog
        resub = (
            "import sys; sys.path.insert(0, '/verif')\n"
            "from props._jobharness import Body\n"
            f"out = Body(a=3)(cache_root={str(tmp / 'root')!r})\n"
            "print('OUT', out.out)\n"
        )
        t0 = time.time()
        try:
            r2 = subprocess.run([sys.executable, "-c", resub], env=env, capture_output=True, text=True, timeout=watchdog)
            hung = False
        except subprocess.TimeoutExpired:
            r2, hung = None, True
        dt = time.time() - t0
        out = None
        if r2 is not None:
            for line in r2.stdout.splitlines():
                if line.startswith("OUT "):
                    out = line[4:]
        log = (tmp / "log").read_text().splitlines() if (tmp / "log").exists() else []
        return {
            "site": site,
            "child_exit": r.returncode,
            "left_behind": left,
            "resubmission_hung": hung,
            "resubmission_s": round(dt, 2),
            "resubmission_out": out,
            "resubmission_err": (r2.stderr[-300:] if r2 is not None and r2.returncode else None),
            "body_executions_total": len(log),
        }
    finally:
        shutil.rmtree(tmp, ignore_errors=True)


def bounded_crashes(ctx):
    dom = ctx.domain(
        "crash-points",
        bound=f"{len(CRASH_SITES)} kill points (os._exit in a child process running the real Job.run of a python task) followed by a resubmission from a fresh process under a watchdog (150 s, repeated once with 600 s before a hang is reported)",
        rule="one child + one resubmission per kill point; non-trivial: all",
        exhaustive=True,
    )
    with ThreadPoolExecutor(4) as ex:
        results = list(ex.map(crash_case, CRASH_SITES))
    for o in results:
        dom.case(o["site"], sample=o)
        if o["child_exit"] not in (9,):
            ctx.note(f"kill point {o['site']} was not reached (child exit {o['child_exit']})")
            raise RuntimeError(f"crash harness broken: kill point {o['site']} not reached, child exit {o['child_exit']}")
        if o["resubmission_hung"]:
            ctx.fail(f"resubmission-hangs@{o['site']}", f"resubmission after a crash at {o['site']} did not finish within the watchdog (150 s, then 600 s on a second attempt) (files left: {o['left_behind']})", o, domain=dom)
        elif o["resubmission_out"] != "4":
            ctx.fail(f"wrong-or-no-result@{o['site']}", f"resubmission after a crash at {o['site']} returned {o['resubmission_out']!r} ({o['resubmission_err']})", o, domain=dom)


def _result_files():
    """real result files: python, shell, workflow"""
    from pydra.compose import shell
    from props._c13tasks import Raises, WfFail

    tmp = Path(tempfile.mkdtemp(prefix="vf_c12r_"))
    out = {}
    cwd = os.getcwd()
    try:
        for name, mk in (("python", lambda: Raises(x=1, good=True)), ("shell", lambda: shell.define("true")()), ("workflow", lambda: WfFail(x=1, good=True))):
            root = tmp / name
            mk()(cache_root=root)
            top = [d for d in root.iterdir() if d.is_dir() and (d / "_result.pklz").exists()]
            # the job that was submitted is the one whose name starts with the task type of `name`
            pick = [d for d in top if d.name.startswith({"python": "python", "shell": "shell", "workflow": "workflow"}[name])]
            d = pick[0]
            out[name] = (d.name, (d / "_result.pklz").read_bytes(), (d / "_job.pklz").read_bytes())
        return out
    finally:
        os.chdir(cwd)
        shutil.rmtree(tmp, ignore_errors=True)


def bounded_truncations(ctx):
    from pydra.engine.result import load_result

    files = _result_files()
    stride = ctx.pick(31, 1)
    dom = ctx.domain(
        "result-file-truncations",
        bound=f"every truncation length 0..len of real _result.pklz files of a python, a shell and a workflow job (quick: every length in the first and last 256 bytes and every {stride}th in between; thorough: every length)",
        rule="load_result(checksum, [cache], retries=1, polling_interval=0) on the truncated file; non-trivial: 0 < length < len",
        exhaustive=(stride == 1),
    )
    tmp = Path(tempfile.mkdtemp(prefix="vf_c12t_"))
    try:
        for name, (cs, blob, jobblob) in files.items():
            d = tmp / name / cs
            d.mkdir(parents=True)
            (d / "_job.pklz").write_bytes(jobblob)
            n = len(blob)
            lengths = [k for k in range(n + 1) if k < 256 or k > n - 256 or k % stride == 0]
            for k in lengths:
                (d / "_result.pklz").write_bytes(blob[:k])
                try:
                    r = load_result(cs, [tmp / name], retries=1, polling_interval=0)
                    exc = None
                except Exception as e:  # noqa
                    r, exc = None, e
                dom.case((name, k), nontrivial=0 < k < n, sample={"file": name, "length": k, "of": n, "loaded": r is not None})
                case = {"file": name, "length": k, "of": n}
                if exc is not None:
                    ctx.fail(f"load-result-raises:{type(exc).__name__}", f"load_result raised {exc!r} on a {name} result truncated to {k}/{n} bytes", case, domain=dom)
                elif k < n and r is not None:
                    ctx.fail("partial-result-returned", f"load_result returned a Result from a {name} result file truncated to {k}/{n} bytes", case, domain=dom)
                elif k == n and (r is None or r.errored or r.outputs is None):
                    ctx.fail("complete-result-not-loaded", f"complete {name} result file not loaded", case, domain=dom)
    finally:
        shutil.rmtree(tmp, ignore_errors=True)


def replay_stuck_load(rec):
    """a refuted termination obligation of load_result: try the obvious environment — a complete
    result next to every lock-like leftover file a dead writer can leave — under an alarm"""
    if not rec["clause"].startswith("terminates."):
        return None, False
    from pydra.engine.result import load_result

    files = _result_files()
    cs, blob, jobblob = files["python"]
    tmp = Path(tempfile.mkdtemp(prefix="vf_c12s_"))
    try:
        d = tmp / cs
        d.mkdir()
        (d / "_result.pklz").write_bytes(blob)
        (d / "_job.pklz").write_bytes(jobblob)
        for name in (f"{cs}_save.lock", f"{cs}.lock"):
            (tmp / name).write_text("")

        def on_alarm(*a):
            raise TimeoutError()

        old = signal.signal(signal.SIGALRM, on_alarm)
        signal.alarm(10)
        try:
            load_result(cs, [tmp], retries=1, polling_interval=0.01)
            hung = False
        except TimeoutError:
            hung = True
        finally:
            signal.alarm(0)
            signal.signal(signal.SIGALRM, old)
        return {"leftover_files": [f"{cs}_save.lock", f"{cs}.lock"], "complete_result_present": True, "load_result_hung_10s": hung}, hung
    finally:
        shutil.rmtree(tmp, ignore_errors=True)


def run(ctx):
    ctx.level = "other"
    ctx.explanation = (
        "D: load_result returns None or the content of a complete (loadable) result file, for any list of caches; Job.run saves "
        "an unerrored Result only after the task body and output collection returned — both clauses are prefix-closed, so they "
        "hold for the disk state a dying process leaves at any point. The step from 'process died while writing' to 'file is not "
        "loadable' is the trusted cloudpickle assumption, checked bounded: every truncation length of real result files; and 12 "
        "kill points of a real child process followed by a watched resubmission. The liveness part (no blocking on a dead "
        "process's lock) is only observed at those 12 points, not proved."
    )
    res = verify(ctx, LR.contract({"returns-first-complete-result-in-list-order": "property:C12", "none-only-if-no-listed-cache-is-complete": "auxiliary", "terminates": "property:C12"}))
    summarize(ctx, res, replay=lambda rec: replay_stuck_load(rec))
    for qual in ("Job.run", "Job.run_async"):
        res = verify(ctx, JR.contract(qual, {"unerrored-result-only-after-successful-run": "property:C12", "cache-hit-only-unerrored": "property:C12"}))
        summarize(ctx, res, replay=H.replay_path)
    ctx.trust("filelock.SoftFileLock (3.32.6) breaks a lock file whose recorded owner PID is dead")
    bounded_truncations(ctx)
    bounded_crashes(ctx)


def replay(rec):
    case = rec["case"]
    if "site" in case and case["site"] in CRASH_SITES:
        o = crash_case(case["site"])
        print(f"replay C12: {o}")
        if o["resubmission_hung"] or o["resubmission_out"] != "4":
            print("VIOLATION property=C12 replay=(replayed)")
            return 1
        return 0
    print("replay C12: re-run ./check C12 for truncation cases")
    return 0
