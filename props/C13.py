"""C13 — failures are reported and never cached as success.

D: Job.run / Job.run_async (failure clauses over the effect trace, exception injection at
   every call), Native.execute (raises iff return code != 0), Task.__call__ (raises whenever
   the result is errored).
B: a pool of failing python / shell / workflow tasks submitted in histories
   [fail, fail, ok-variant] through the real submission path with an execution counter,
   plus the native exception-injection harness.
"""
import os
import shutil
import tempfile
from pathlib import Path

import z3

from contracts import job_run as JR
from pyvc.verify import Contract, verify, summarize
from pyvc.engine import ExcV, is_z3, z3_not, NONE_U
from props import _jobharness as H

ROLES = {
    "failure-propagates": "property:C13",
    "failure-saved-as-errored": "property:C13",
    "unerrored-result-only-after-successful-run": "property:C13",
    "cache-hit-only-unerrored": "property:C13",
}


def native_contract():
    def raises_iff_nonzero(E, st, exc):
        # every raise exit of Native.execute that is a RuntimeError built here happens only with rc != 0
        rc = st.ghost.get("rc")
        if exc.cls != "RuntimeError":
            return True  # propagated from callees (opaque effects): unconstrained
        return rc != 0

    def post(E, st, ev):
        st.ghost["rc"] = ev.ret[0]

    return Contract(
        file="pydra/environments/native.py",
        qualname="Native.execute",
        params={"self": "U", "job": "U"},
        default_effects=True,
        callees={"base.execute": {"kind": "effect", "returns": ("Tup", "Int", "Str", "Str"), "post": post}},
        attrs={"name": {"kind": "U"}, "task": {"kind": "U"}, "inputs": {"kind": "U"}},
        ensures=[
            ("returns-only-with-zero-exit-code", "property:C13", lambda E, st, out: st.ghost["rc"] == 0),
            ("returns-the-process-outputs", "auxiliary", lambda E, st, out: E.getitem(st, out.val, "return_code", _n("output['return_code']"))[0][1] == st.ghost["rc"]),
        ],
        raises=[("RuntimeError-only-with-nonzero-exit-code", "property:C13", raises_iff_nonzero)],
        min_paths=3,
        trusted=["base.execute returns (return_code:int, stdout:str, stderr:str) or raises"],
    )


def _n(src):
    import ast

    return ast.parse(src, mode="eval").body


def call_contract():
    def errored_raises(E, st, out):
        # normal return only if the result of the submission is not errored
        subs = [e for e in st.trace if e.name == "sub" and not e.raised]
        if not subs:
            return False
        res = subs[-1].ret
        err = E.getattr_(st, res, "errored", _n("result.errored"))[0][1]
        return z3_not(E.truthy(st, err))

    return Contract(
        file="pydra/compose/base/task.py",
        qualname="Task.__call__",
        params={"self": "U", "cache_root": "U", "worker": "U", "environment": "U", "rerun": "U", "readonly_caches": "U", "audit_flags": "U", "messengers": "U", "messenger_args": "U", "hooks": "U", "kwargs": "U"},
        default_effects=True,
        callees={"Submitter": {"kind": "effect", "may_raise": True}},
        attrs={"errored": {"kind": "U"}, "errors": {"kind": "U"}, "outputs": {"kind": "U"}, "cache_dir": {"kind": "U"}, "__notes__": {"kind": "U"}},
        ensures=[("returns-outputs-only-if-not-errored", "property:C13", errored_raises)],
        min_paths=4,
    )


# ---------------------------------------------------------------- bounded histories


def bounded_histories(ctx):
    from pydra.compose import python, shell, workflow
    from props._c13tasks import POOL

    dom = ctx.domain(
        "failing-task-histories",
        bound=f"{len(POOL)} failing task kinds x history [fail, fail-again, successful variant] x worker in (debug{', cf' if ctx.thorough else ''})",
        rule="each history runs in one fresh cache root through Task.__call__; non-trivial: all (every task fails at least once)",
        exhaustive=True,
    )
    workers = ["debug"] + (["cf"] if ctx.thorough else [])
    for worker in workers:
        for name, mk in POOL.items():
            tmp = Path(tempfile.mkdtemp(prefix="vf_c13_"))
            log = tmp / "body.log"
            os.environ["VF_C13_LOG"] = str(log)
            cwd = os.getcwd()
            try:
                obs = []
                for step, good in enumerate([False, False, True]):
                    task = mk(good)
                    before = _count(log)
                    try:
                        kw = {"n_procs": 1} if worker == "cf" else {}
                        out = task(cache_root=tmp / "cache", worker=worker, **kw)
                        err = None
                    except BaseException as e:  # noqa (SystemExit / KeyboardInterrupt are failures too)
                        out, err = None, e
                    obs.append({"step": step, "good": good, "raised": type(err).__name__ if err else None, "msg": str(err)[:200] if err else None, "executions": _count(log) - before, "out": repr(out)[:120]})
                dom.case((name, worker), sample={"task": name, "worker": worker, "history": obs})
                case = {"task": name, "worker": worker, "history": obs}
                o0, o1, o2 = obs
                counted = name not in ("shell-nonzero-exit", "shell-missing-output")  # shell bodies are not counted by the log
                if o0["raised"] is None:
                    ctx.fail(f"failure-not-reported:{name}", f"failing task {name} returned {o0['out']} instead of reporting a failure", case, domain=dom)
                if o1["raised"] is None:
                    ctx.fail(f"failure-served-from-cache-as-success:{name}", f"second submission of failing task {name} returned {o1['out']}", case, domain=dom)
                elif counted and o1["executions"] < 1:
                    ctx.fail(f"failure-not-reexecuted:{name}", f"second submission of failing task {name} did not execute the task again", case, domain=dom)
                if o2["raised"] is not None:
                    ctx.fail(f"success-variant-fails:{name}", f"successful variant of {name} raised {o2['raised']}: {o2['msg']}", case, domain=dom)
            finally:
                os.chdir(cwd)
                shutil.rmtree(tmp, ignore_errors=True)


def bounded_same_task_recovers(ctx):
    """history [fail, succeed, succeed] of the SAME task identity (an external cause of the failure
    disappears): the failure is reported once, then the task is executed again and reported as a success"""
    from props._c13tasks import NeedsFile

    dom = ctx.domain(
        "same-identity-fails-then-succeeds",
        bound="one python task reading a file that is missing for the first submission and present afterwards; 3 submissions into one cache root; debug worker (thorough: also cf)",
        rule="non-trivial: all",
        exhaustive=True,
    )
    for worker in ["debug"] + (["cf"] if ctx.thorough else []):
        tmp = Path(tempfile.mkdtemp(prefix="vf_c13s_"))
        log = tmp / "body.log"
        os.environ["VF_C13_LOG"] = str(log)
        cwd = os.getcwd()
        try:
            f = tmp / "data.txt"
            obs = []
            for step in range(3):
                if step == 1:
                    f.write_text("hello")
                before = _count(log)
                try:
                    kw = {"n_procs": 1} if worker == "cf" else {}
                    out = NeedsFile(p=str(f))(cache_root=tmp / "cache", worker=worker, **kw)
                    err = None
                except BaseException as e:  # noqa
                    out, err = None, e
                obs.append({"step": step, "raised": type(err).__name__ if err else None, "executions": _count(log) - before, "out": getattr(out, "out", None)})
            case = {"task": "needs-file", "worker": worker, "history": obs}
            dom.case(("needs-file", worker), sample=case)
            if obs[0]["raised"] is None:
                ctx.fail("failure-not-reported:needs-file", "missing input file not reported as a failure", case, domain=dom)
            if obs[1]["raised"] is not None or obs[1]["out"] != 5:
                ctx.fail("recovered-task-reported-as-failed", f"second submission (cause of the failure gone) gave {obs[1]}", case, domain=dom)
            elif obs[1]["executions"] < 1:
                ctx.fail("failure-served-from-cache", "second submission did not execute the task again", case, domain=dom)
            if obs[2]["raised"] is not None or obs[2]["out"] != 5 or obs[2]["executions"] != 0:
                ctx.fail("successful-result-not-reused", f"third submission gave {obs[2]}", case, domain=dom)
        finally:
            os.chdir(cwd)
            shutil.rmtree(tmp, ignore_errors=True)


def _count(p):
    return len(p.read_text().splitlines()) if p.exists() else 0


def run(ctx):
    # the function-level clauses are discharged deductively; the step from them to the property over whole HISTORIES of
    # submissions (and the workflow-level parts) is bounded / an argument on paper: not claimed as a proof
    ctx.level = "other"
    ctx.explanation = (
        "Job.run/run_async: on every path where the task body or output collection raises, the exception propagates "
        "and any saved Result has errored=True; a Result saved with errored=False implies both returned normally; the "
        "early (cache) return requires a present, non-errored result. Native.execute raises iff the exit code is "
        "non-zero; Task.__call__ returns outputs only for a non-errored result. Bounded part: failing python/shell/"
        "workflow tasks in histories [fail, fail, ok] through the real submission path, and native exception injection."
    )
    for qual in ("Job.run", "Job.run_async"):
        res = verify(ctx, JR.contract(qual, ROLES))
        summarize(ctx, res, replay=H.replay_path)
    from contracts import python_run as PR

    for c in (native_contract(), call_contract(), PR.contract()):
        res = verify(ctx, c)
        summarize(ctx, res)
    H.bounded_injection(ctx, "C13")
    bounded_histories(ctx)
    bounded_same_task_recovers(ctx)


def replay(rec):
    case = rec["case"]
    if "task" in case:
        from props._c13tasks import POOL

        tmp = Path(tempfile.mkdtemp(prefix="vf_c13_"))
        os.environ["VF_C13_LOG"] = str(tmp / "body.log")
        try:
            bad = 0
            for good in (False, False):
                try:
                    out = POOL[case["task"]](good)(cache_root=tmp / "cache", worker=case.get("worker", "debug"))
                    print(f"replay C13: failing task {case['task']} returned {out!r}")
                    bad = 1
                except Exception as e:
                    print(f"replay C13: {case['task']} raised {type(e).__name__}")
            if bad:
                print("VIOLATION property=C13 replay=(replayed)")
            return bad
        finally:
            shutil.rmtree(tmp, ignore_errors=True)
    return H.replay_case("C13", rec)
