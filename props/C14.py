"""C14 -- a failing job never stops independent jobs (asynchronous execution loop).

Engine B on the scheduling decision functions (Submitter.get_runnable_tasks, NodeExecution.
get_runnable_tasks / update_status / done / has_errored / all_failed), the loop that calls them
(Submitter.expand_workflow_async) and the error aggregation (its `finally`, WorkflowOutputs._from_job).
The job-status observations are a scripted input, realised with the real lock / result / error files
(see props/_schedharness.py).  The asyncio scheduling of a process pool and its timing are NOT covered.

Contract (from the property text), per history = (workflow, completion order, subset of failing jobs,
lock-file visibility of every job):
  * the decision functions never raise and the loop terminates;
  * every job of a node none of whose ancestor nodes contains a failed job is executed;
  * no job is started after a job it consumes has failed;
  * the error the workflow fails with names every failed job (and there is no error without a failure).
"""

import time

from props import _schedharness as H

INF = H.INF

# (spec, split depth) -- small: every subset of failing jobs, every completion order, per-job choice of
# lock visibility {seen at the next observation, never seen}
SMALL = ["chain2", "chain3", "indep2", "indep3", "fanout", "fanin", "diamond", "one+chain2", "split2", "split2>b", "split2!>b"]
MEDIUM = ["one+chain3", "chain2+chain2", "fanin3", "diamond+one", "a>split2>c", "split2+chain2", "split2+plain>c", "split3!>b+one", "split3>b", "chain4"]
LARGE = ["indep4", "split2,split2>c", "split2>diamond", "chain3+b>split2", "chain6", "split4>b"]
LARGE_EXH = ["indep4", "chain3+b>split2", "chain6", "split4>b"]
MEDIUM_QUICK = ["one+chain3", "chain2+chain2", "diamond+one", "a>split2>c", "split2+chain2"]
PROBED = ["one+chain2", "fanin", "split2!>b", "chain3"]
DELAY1 = ["chain2", "chain3", "indep2", "fanout", "fanin", "one+chain2", "split2", "split2!>b", "diamond"]
SAMPLED = LARGE + ["diamond+one", "split3>b"]


def tasks_exhaustive(ctx):
    t = []
    for sp in SMALL:
        t.append((H.Opts(sp, loop="real", fail=99, vis=(0, INF)), 0, 1))
        if ctx.thorough:
            t.append((H.Opts(sp, loop="mirror", fail=99, vis=(0, INF)), 0, 1))
        else:
            for vis in ((0,), (INF,)):
                t.append((H.Opts(sp, loop="mirror", fail=99, vis=vis), 0, 0))
    for sp in SMALL if ctx.thorough else PROBED:
        t.append((H.Opts(sp, loop="mirror", fail=99, vis=(0, INF), probe=True), 0, 1))
    for sp in MEDIUM if ctx.thorough else MEDIUM_QUICK:
        for vis in ((0,), (INF,)):
            t.append((H.Opts(sp, loop="real", fail=99, vis=vis), 0, 2))
            if ctx.thorough or vis == (0,):
                t.append((H.Opts(sp, loop="mirror", fail=99, vis=vis), 0, 2))
    # two interleaved chains of three: every order, at most one failing job (thorough: any failing subset)
    for vis in ((0,), (INF,)):
        t.append((H.Opts("chain3+chain3", loop="real", fail=99 if ctx.thorough else 1, vis=vis), 0, 3))
    if ctx.thorough:
        for sp in SMALL:
            t.append((H.Opts(sp, loop="real", fail=99, vis=(0, INF), multi=True), 0, 2))
        for sp in DELAY1:
            t.append((H.Opts(sp, loop="real", fail=99, vis=(0, 1, INF)), 0, 2))
        for sp in MEDIUM_QUICK:
            t.append((H.Opts(sp, loop="real", fail=99, vis=(0, INF)), 0, 3))
        for sp in LARGE_EXH:
            for vis in ((0,), (INF,)):
                t.append((H.Opts(sp, loop="real", fail=1, vis=vis), 0, 3))
    return t


def tasks_silent(ctx):
    """failures that leave nothing in the cache (the job's worker.run raises outside the part of Job.run that
    records the error: pre_run / pre_run_task / post_run_task hook, preparing the job directory)"""
    t = []
    for sp in SMALL:
        t.append((H.Opts(sp, loop="real", fail=99, vis=(0, INF), failkind="silent"), 0, 1))
    for sp in MEDIUM if ctx.thorough else MEDIUM_QUICK:
        for vis in ((0,), (INF,)):
            t.append((H.Opts(sp, loop="real", fail=99, vis=vis, failkind="silent"), 0, 2))
    if ctx.thorough:
        for sp in SMALL:
            t.append((H.Opts(sp, loop="real", fail=99, vis=(0, INF), multi=True, failkind="silent"), 0, 2))
    return t


def tasks_sampled(ctx):
    n = ctx.pick(12, 200)
    t = []
    for sp in SAMPLED:
        for loop in ("mirror", "real"):
            t.append((H.Opts(sp, loop=loop, fail=99, vis=(0, 1, INF), multi=True), n, 0))
    return t


def deductive(ctx):
    """engine D: NodeExecution.update_status never raises (Job.done may raise ValueError for an errored
    result, verified in Job.done's own contract); NodeExecution.get_runnable_tasks releases jobs only
    when no predecessor is errored/unrunnable"""
    from contracts import runnable as R, job_done as JD
    from pyvc.verify import verify, summarize

    for c in (R.update_status_contract("C14"), JD.done_contract("C14"), R.node_contract("C14")):
        summarize(ctx, verify(ctx, c))


def run(ctx):
    deductive(ctx)
    ctx.level = "other"
    ctx.explanation = (
        "Bounded check (engine B) of the scheduling decision functions and of Submitter.expand_workflow_async with a scripted "
        "in-process worker: for small real workflows every completion order, every subset of failing jobs and every lock-file "
        "visibility pattern is enumerated; the job-status observations are realised with the real lock/result/error files. "
        "Checked per history: the decision functions never raise, the loop terminates, every job without a failed ancestor is "
        "executed, no job is started after a job it consumes failed, the aggregated error (expand_workflow_async's RuntimeError, "
        "WorkflowOutputs._from_job) names every failed job. Not covered: asyncio scheduling, the process pool, timing."
    )
    import concurrent.futures as cf

    try:
        bg = cf.ThreadPoolExecutor(1)
        e2e = bg.submit(H.e2e_c14)  # small real runs in subprocesses, meanwhile
        dom = ctx.domain(
            "failing-subsets x completion-orders (exhaustive)",
            bound=(
                f"workflows {SMALL} (2-4 jobs): every completion order x every subset of failing jobs x per-job lock visibility in {{seen at next observation, never seen}} "
                f"under the real expand_workflow_async (scripted worker), and under the harness' mirror of the loop "
                + ("with the same per-job visibility" if ctx.thorough else "with visibility all-seen / none-seen")
                + f"; the same with has_errored/all_failed/done read on every node after every observation for {SMALL if ctx.thorough else PROBED}; "
                f"workflows {MEDIUM if ctx.thorough else MEDIUM_QUICK} (4-6 jobs): every order x every failing subset with lock visibility all-seen / none-seen; "
                f"chain3+chain3 (two independent chains of three, interleaved in the sorted order): every order x " + ("every failing subset" if ctx.thorough else "<= 1 failing job") + " with visibility all-seen / none-seen"
                + (
                    f"; real loop with several completions between two observations for {SMALL} and with visibility delay in {{0, 1, never}} for {DELAY1}; per-job visibility for {MEDIUM_QUICK}; {LARGE_EXH} with <= 1 failing job and visibility all-seen / none-seen"
                    if ctx.thorough
                    else ""
                )
            ),
            rule="one case = one history (workflow, loop, list of script choices); distinct by that key; non-trivial = at least one job fails",
            exhaustive=True,
        )
        dom2 = ctx.domain(
            "failing-subsets x completion-orders (sampled, larger workflows)",
            bound=f"workflows {SAMPLED} (4-10 jobs), random scripts: any failing subset, visibility delay in {{0,1,never}}, several completions per observation; {ctx.pick(12, 200)} scripts per workflow and loop, seed {ctx.seed}",
            rule="one case = one random script; distinct by choice list; non-trivial = at least one job fails",
            exhaustive=False,
        )
        dom3 = ctx.domain(
            "failures that leave no error record (exhaustive)",
            bound=(
                f"as the first domain, real expand_workflow_async only, but a failing job's worker.run raises WITHOUT leaving a result or error file (what a raising pre_run / "
                f"pre_run_task / post_run_task hook or a failure while the job directory is prepared does): {SMALL} every order x every failing subset x per-job lock visibility; "
                f"{MEDIUM if ctx.thorough else MEDIUM_QUICK} with visibility all-seen / none-seen" + (f"; {SMALL} with several completions per observation" if ctx.thorough else "")
            ),
            rule="one case = one history; non-trivial = at least one job fails",
            exhaustive=True,
        )
        st, st2, st3 = H.run_domains(ctx, "C14", [(dom, tasks_exhaustive(ctx), False), (dom2, tasks_sampled(ctx), False), (dom3, tasks_silent(ctx), False)])
        for k in sorted(set(st3)):
            if not isinstance(st3[k], dict):
                ctx.note(f"[no-error-record domain] {k}: {st3[k]}")
        for k in sorted(set(st) | set(st2)):
            if isinstance(st.get(k, st2.get(k)), dict):
                ctx.note(f"{k}: exhaustive {st.get(k, {})}; sampled {st2.get(k, {})}")
            else:
                ctx.note(f"{k}: {st.get(k, 0) + st2.get(k, 0)}")
        t_pool = time.time() - ctx.t0
        lines = e2e.result()
        ctx.note(f"timing: enumeration finished after {t_pool:.0f} s, end-to-end runs after {time.time() - ctx.t0:.0f} s")
        for line in lines:
            ctx.note("end-to-end replay aid (real workers, timing dependent, NOT part of the verdict): " + line)
    finally:
        H.cleanup()


def replay(rec):
    return H.std_replay("C14", rec)
