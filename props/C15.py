"""C15 -- jobs start only after the jobs they consume have succeeded; every job exactly once.

Engine B on the scheduling decision functions (Submitter.get_runnable_tasks with its sorted scan and `break`,
NodeExecution.get_runnable_tasks / update_status / done / start) under both execution loops:
the sequential one (Submitter.expand_workflow) and the asynchronous one (Submitter.expand_workflow_async with
its `futured` de-duplication).  The job-status observations are a scripted input realised with the real
lock / result files (props/_schedharness.py); asyncio scheduling of a pool and timing are not covered.

Contract (from the property text), per history = (workflow, loop, completion order, lock visibility):
  * when a job is handed to the worker every input slot fed by an upstream node holds the value(s) produced by
    job(s) of that node that had finished successfully before (one job of an un-combined node, all jobs of a
    combined or single-job node) -- the job-level reading of `consumes`, the weakest one;
  * no job is executed more than once; when nothing fails every job of every node is executed and the loop ends.
"""

from props import _schedharness as H

INF = H.INF

SMALL = ["one", "chain2", "chain3", "chain4", "indep2", "indep3", "fanout", "fanin", "diamond", "one+chain2", "split2", "split3", "split2>b", "split2!>b", "a>split2"]
MEDIUM = ["one+chain3", "chain2+chain2", "fanin3", "a>split2>c", "split2+chain2", "diamond+one", "split2+plain>c", "indep4"]
LARGE = ["split2,split2>c", "split2>diamond", "split3>b", "split3!>b+one", "chain3+b>split2", "split4>b", "chain6", "indep5"]
MEDIUM_QUICK = ["one+chain3", "chain2+chain2", "fanin3", "a>split2>c", "split2+chain2"]
FAIL1_QUICK = ["chain2", "chain3", "fanin", "fanout", "one+chain2", "diamond", "split2!>b"]
LARGE_QUICK = ["split3>b", "chain3+b>split2", "chain6"]
SAMPLED = ["split2>diamond", "split2,split2>c", "split5>b+split3", "2x chain4 + split2", "chain10", "indep7", "chain3+b>split3"]
FIDELITY = ["diamond", "split2!>b", "one+chain2", "split2>b"]
ALL = SMALL + MEDIUM + LARGE


def tasks_async(ctx):
    t = []
    for sp in SMALL:
        for loop in ("mirror", "real"):
            t.append((H.Opts(sp, loop=loop, vis=(0, INF)), 0, 0))
            if ctx.thorough or (loop == "real" and sp in FAIL1_QUICK):
                t.append((H.Opts(sp, loop=loop, vis=(0, INF), fail=1), 0, 1))
    for sp in MEDIUM if ctx.thorough else MEDIUM_QUICK:
        t.append((H.Opts(sp, loop="real", vis=(0, INF)), 0, 2))
        t.append((H.Opts(sp, loop="mirror", vis=(0, INF) if ctx.thorough else (0,)), 0, 2))
    for sp in LARGE if ctx.thorough else LARGE_QUICK:
        for vis in ((0,), (INF,)):
            t.append((H.Opts(sp, loop="real", vis=vis), 0, 2))
    if ctx.thorough:
        for sp in SMALL:
            t.append((H.Opts(sp, loop="real", vis=(0, 1, INF), multi=True), 0, 2))
        for sp in MEDIUM_QUICK:
            t.append((H.Opts(sp, loop="real", vis=(0, INF), fail=1), 0, 3))
        for sp in MEDIUM_QUICK:
            t.append((H.Opts(sp, loop="real", vis=(0, INF), multi=True), 0, 3))
        for sp in LARGE_QUICK:
            for vis in ((0,), (INF,)):
                t.append((H.Opts(sp, loop="mirror", vis=vis), 0, 2))
    return t


def tasks_sync(ctx):
    t = []
    for sp in ALL + SAMPLED:
        for loop in ("mirror", "real"):
            t.append((H.Opts(sp, variant="sync", loop=loop), 0, 0))
            t.append((H.Opts(sp, variant="sync", loop=loop, fail=1), 0, 0))
    for sp in FIDELITY:
        t.append((H.Opts(sp, variant="sync", loop="real", realise="run", fail=1), 0, 0))
    return t


def tasks_sampled(ctx):
    n = ctx.pick(15, 150)
    t = []
    for sp in SAMPLED:
        for loop in ("mirror", "real"):
            t.append((H.Opts(sp, loop=loop, vis=(0, 1, INF), multi=True), n, 0))
    return t


def tasks_fidelity(ctx):
    return [(H.Opts(sp, loop="real", vis=(0, INF), fail=99), 0, 1) for sp in (FIDELITY if ctx.thorough else FIDELITY[:2])]


# two-submission histories: a first submission has filled the cache root; the SECOND one is scripted and checked
TWO_SMALL = ["chain2", "chain3", "fanout", "fanin", "diamond", "one+chain2", "split2>b", "split2!>b", "a>split2", "chain2+chain2"]
TWO_MEDIUM = ["one+chain3", "fanin3", "a>split2>c", "split2+chain2", "diamond+one", "split2+plain>c", "chain4", "split3>b"]
TWO_SAMPLED = ["split2>diamond", "split2,split2>c", "chain3+b>split3", "2x chain4 + split2", "chain6"]
MODES = [(True, True), (False, True), (True, False), (False, False)]  # (rerun, propagate_rerun)


def tasks_two_sync(ctx):
    t = []
    for sp in TWO_SMALL + TWO_MEDIUM + TWO_SAMPLED:
        for prior in ("all", "partial"):
            for rerun, prop in MODES:
                t.append((H.Opts(sp, variant="sync", loop="real", prior=prior, rerun=rerun, propagate=prop, genmark=True), 0, 0))
    for sp in FIDELITY[:2]:  # the same with real job runs (the body reads the generation from the environment)
        for rerun in (True, False):
            t.append((H.Opts(sp, variant="sync", loop="real", realise="run", prior="all", rerun=rerun, genmark=True), 0, 0))
    return t


def tasks_two_async(ctx, stale_window):
    """stale_window=False: every job handed to the worker has started (holds its lock, has cleared its old
    directory) by the next observation; True: some / all of them are still waiting to start at later observations"""
    t = []
    for sp in TWO_SMALL + (TWO_MEDIUM if ctx.thorough else []):
        for prior in ("all", "partial"):
            for rerun, prop in MODES:
                if stale_window:
                    if rerun and prop:
                        for vis in ((INF,), (0, INF)) if (ctx.thorough or sp in TWO_SMALL[:6]) else ((INF,),):
                            t.append((H.Opts(sp, loop="real", vis=vis, prior=prior, rerun=rerun, propagate=prop, genmark=True), 0, 1))
                else:
                    t.append((H.Opts(sp, loop="real", vis=(0,), prior=prior, rerun=rerun, propagate=prop, genmark=True), 0, 1))
                    if not (rerun and prop):  # without an effective rerun nothing is re-executed: no stale window
                        t.append((H.Opts(sp, loop="real", vis=(0, INF), prior=prior, rerun=rerun, propagate=prop, genmark=True), 0, 1))
                    if ctx.thorough and sp in TWO_SMALL:
                        t.append((H.Opts(sp, loop="real", vis=(0,), multi=True, prior=prior, rerun=rerun, propagate=prop, genmark=True), 0, 1))
    return t


def tasks_two_sampled(ctx):
    n = ctx.pick(6, 60)
    t = []
    for sp in TWO_SAMPLED:
        for prior in ("all", "partial"):
            for rerun, prop in MODES[:2] if not ctx.thorough else MODES:
                t.append((H.Opts(sp, loop="real", vis=(0,), multi=True, prior=prior, rerun=rerun, propagate=prop, genmark=True), n, 0))
    return t


def deductive(ctx):
    """engine D: Job.done is True only for a stored, non-errored result; NodeExecution.get_runnable_tasks
    releases jobs only after every predecessor node is done and none is errored or unrunnable"""
    from contracts import runnable as R, job_done as JD
    from pyvc.verify import verify, summarize

    for c in (JD.done_contract("C15"), R.node_contract("C15")):
        summarize(ctx, verify(ctx, c))


def run(ctx):
    deductive(ctx)
    ctx.level = "other"
    ctx.explanation = (
        "Bounded check (engine B) of the scheduling decision functions under the sequential loop (expand_workflow) and the asynchronous "
        "loop (expand_workflow_async with a scripted in-process worker, and the harness' mirror of it using the `futured` rule): for "
        "generated workflows (chains, fan-in, fan-out, diamonds, independent branches, splits, split+combine) every completion order and "
        "lock-file visibility pattern is enumerated with the real lock/result files as observations. Checked per history: every job "
        "handed to the worker holds, in every slot fed by an upstream node, values produced by jobs of that node that had succeeded "
        "before (job-level reading); no job runs twice; without failures every job of every node runs and the loop ends. "
        "The same is checked for a SECOND submission into a cache root filled by a first one (rerun x propagate_rerun, both loops): with an effective rerun every job "
        "runs once and consumes only values of this submission, otherwise nothing stored runs again. "
        "Not covered: asyncio scheduling of a process pool, timing, observations that change in the middle of one get_runnable_tasks call."
    )
    try:
        d_async = ctx.domain(
            "asynchronous loop: completion orders x lock visibility (exhaustive)",
            bound=(
                f"{SMALL} (1-4 jobs): every completion order x per-job lock visibility {{seen at next observation, never seen}}, without failure (mirror and real loop) and with <= 1 failing job (" + ("both loops" if ctx.thorough else f"real loop, {FAIL1_QUICK}") + "); "
                f"{MEDIUM if ctx.thorough else MEDIUM_QUICK} (4-6 jobs): every order x per-job visibility (real loop; mirror: " + ("per-job" if ctx.thorough else "all seen") + f"); {LARGE if ctx.thorough else LARGE_QUICK} (5-10 jobs): every order with visibility all-seen / none-seen"
                + (f"; thorough adds several completions per observation and visibility delay 1 for the small set (real loop), one failing job and several completions per observation for {MEDIUM_QUICK}, the mirror loop for {LARGE_QUICK}" if ctx.thorough else "")
            ),
            rule="one case = one history (workflow, loop, script choices); non-trivial = at least two jobs were started",
            exhaustive=True,
        )
        d_sync = ctx.domain(
            "sequential loop (expand_workflow)",
            bound=f"all {len(ALL + SAMPLED)} catalogue workflows, mirror of the loop and the real Submitter.expand_workflow with a recording worker; no failure, and every position of a first failing job; {FIDELITY} additionally with real job runs",
            rule="the sequential loop leaves no scheduling freedom: one history per (workflow, position of the failing job)",
            exhaustive=True,
        )
        d_smp = ctx.domain(
            "asynchronous loop: larger workflows (sampled)",
            bound=f"{SAMPLED} (8-12 jobs): {ctx.pick(15, 150)} random scripts per workflow and loop (visibility delay 0/1/never, several completions per observation), seed {ctx.seed}",
            rule="one case = one random script, distinct by choice list",
            exhaustive=False,
        )
        d_fid = ctx.domain(
            "harness fidelity: synthesised results vs real job runs",
            bound=f"{FIDELITY if ctx.thorough else FIDELITY[:2]}: every history (any failing subset, per-job visibility) driven twice -- results written with pydra's save()/record_error() and results produced by running a pickled copy of the real job (as the cf worker does); both histories must be identical, each is checked against the contract",
            rule="one case = one history; a difference between the two realisations is a CHECKER-ERROR",
            exhaustive=True,
        )
        two = TWO_SMALL + (TWO_MEDIUM if ctx.thorough else [])
        d_two = ctx.domain(
            "second submission over a warm cache: rerun x propagate_rerun, both loops (exhaustive)",
            bound=(
                "a first submission into the same cache root has completed every job (prior=all) or only the jobs of the first half of the nodes (prior=partial); the "
                "checked history is the SECOND submission with rerun in {True, False} x propagate_rerun in {True, False}; task bodies of the second submission produce values "
                f"that differ from the first one's. Sequential loop (real expand_workflow): {TWO_SMALL + TWO_MEDIUM + TWO_SAMPLED}, plus {FIDELITY[:2]} with real job runs. "
                f"Asynchronous loop (real expand_workflow_async, scripted worker that like Job.run returns a stored result without executing unless the loop passes rerun=True): {two}, "
                "every completion order, every job handed to the worker has started (holds its lock, has cleared its old directory) by the next observation"
                + ("; several completions per observation for the small set" if ctx.thorough else "")
            ),
            rule="one case = one second-submission history; non-trivial = the workflow has >= 2 jobs. Contract: if rerun and propagate_rerun, every job is executed exactly once in this "
            "submission and consumes only values produced in this submission by jobs that had finished successfully; otherwise no job with a stored result is executed, the "
            "others are executed once and may consume stored values",
            exhaustive=True,
        )
        d_two_s = ctx.domain(
            "second submission over a warm cache: larger workflows (sampled)",
            bound=f"{TWO_SAMPLED}, asynchronous loop as above, {ctx.pick(6, 60)} random scripts per (workflow, prior, mode), several completions per observation, seed {ctx.seed}",
            rule="one case = one random script, distinct by choice list",
            exhaustive=False,
        )
        groups = [
            (d_async, tasks_async(ctx), False),
            (d_sync, tasks_sync(ctx), False),
            (d_smp, tasks_sampled(ctx), False),
            (d_fid, tasks_fidelity(ctx), True),
            (d_two, tasks_two_sync(ctx) + tasks_two_async(ctx, stale_window=False), False),
            (d_two_s, tasks_two_sampled(ctx), False),
        ]
        # histories in which a job handed to the worker has NOT started by the next observation (its old result is still
        # on disk): these failed before pydra's fix "a stored result doesn't count while a rerun is pending"
        # (class H.STALE_WINDOW, see known_findings.jsonl: fixed) and are always enumerated
        d_stale = ctx.domain(
            "second submission with rerun=True: handed-out jobs that have not started yet (stale window)",
            bound=f"{two}, asynchronous loop, rerun=True, propagate_rerun=True, prior in {{all, partial}}: the lock file of a job handed to the worker is never seen before its new result / per-job choice of seen-at-next-observation or never",
            rule="one case = one second-submission history; same contract as above",
            exhaustive=True,
        )
        groups.append((d_stale, tasks_two_async(ctx, stale_window=True), False))
        stats = H.run_domains(ctx, "C15", groups)
        tot = {}
        for st in stats:
            for k, v in st.items():
                if isinstance(v, dict):
                    tot.setdefault(k, {})
                    for kk, vv in v.items():
                        tot[k][kk] = tot[k].get(kk, 0) + vv
                else:
                    tot[k] = tot.get(k, 0) + v
        for k in sorted(tot):
            ctx.note(f"{k}: {tot[k]}")
    finally:
        H.cleanup()


def replay(rec):
    return H.std_replay("C15", rec)
