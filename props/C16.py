"""C16 -- with a concurrency limit of k never more than k jobs of a workflow execute at the same time.

Engine B on Submitter.get_runnable_tasks (the `tasks[:max_concurrent]` slice), NodeExecution.update_status
(which moves started jobs from `queued` to `running`) and the loops that hand the returned jobs to the worker
(expand_workflow_async with its `futured` rule, expand_workflow).  Ghost state kept by the harness:
executing = handed to the worker and not yet finished.  Contract: after every hand-out |executing| <= k.
The job-status observations are a scripted input realised with real lock / result files.
"""

import time

from props import _schedharness as H

INF = H.INF

# name -> number of jobs
EXH_QUICK = {"indep2": 2, "indep3": 3, "indep4": 4, "split2": 2, "split3": 3, "split4": 4, "chain3": 3, "split2>b": 4, "one+chain2": 3, "chain3+b>split2": 6}
EXH_THOROUGH = {"split2+chain2": 4, "fanout": 3, "diamond+one": 5, "indep5": 5, "split5": 5, "split3>b": 6, "chain2+chain2": 4, "chain3+b>split3": 7, "split2+plain>c": 5, "chain6": 6}
SAMPLED = {"one+chain3+b>split3": 8, "split2,split2>c": 8, "split4>b": 8, "indep7": 7, "indep8": 8, "indep10": 10, "split8": 8, "split10": 10, "chain10": 10, "split5>b+split3": 13, "2x chain4 + split2": 10, "indep6": 6, "split6": 6}


def ks(n, ctx, full=True):
    return list(range(1, n + 1)) if full else sorted({1, 2, 3, max(1, n // 2), n - 1, n} - {0})


def tasks_exhaustive(ctx):
    t = []
    specs = dict(EXH_QUICK)
    if ctx.thorough:
        specs.update(EXH_THOROUGH)
    for sp, n in specs.items():
        for k in ks(n, ctx):
            # lock files of all handed-out jobs seen at the next observation / never seen before the result
            for vis in ((0,), (INF,)):
                t.append((H.Opts(sp, loop="real", k=k, vis=vis), 0, 2 if n >= 5 else 0))
                if n <= 4 or (ctx.thorough and n <= 5):
                    t.append((H.Opts(sp, loop="mirror", k=k, vis=vis), 0, 2 if n >= 5 else 0))
            # per-job choice of visibility
            if n <= 3 or (ctx.thorough and n <= 4):
                t.append((H.Opts(sp, loop="real", k=k, vis=(0, INF)), 0, 1))
                t.append((H.Opts(sp, loop="mirror", k=k, vis=(0, INF)), 0, 1))
            if ctx.thorough and n <= 3:
                t.append((H.Opts(sp, loop="real", k=k, vis=(0, 1, INF)), 0, 1))
                t.append((H.Opts(sp, loop="real", k=k, vis=(0, INF), multi=True), 0, 1))
                t.append((H.Opts(sp, loop="real", k=k, vis=(0, INF), fail=1), 0, 1))
    return t


def tasks_sync(ctx):
    t = []
    for sp, n in {**EXH_QUICK, **EXH_THOROUGH, **SAMPLED}.items():
        for k in ks(n, ctx, full=ctx.thorough or n <= 4):
            for loop in ("mirror", "real"):
                t.append((H.Opts(sp, variant="sync", loop=loop, k=k), 0, 0))
    return t


def tasks_sampled(ctx):
    n_s = ctx.pick(4, 25)
    t = []
    for sp, n in SAMPLED.items():
        if not ctx.thorough and n > 10:
            continue
        for k in ks(n, ctx, full=ctx.thorough):
            for loop in ("real",) + (("mirror",) if ctx.thorough and n <= 8 else ()):
                t.append((H.Opts(sp, loop=loop, k=k, vis=(0, 1, INF), multi=True), n_s, 0))
    return t


# two-submission histories: name -> number of jobs.  Shapes with two stages matter most: when results of the first
# submission are on disk, jobs are taken as done from the stale result and the next stage is offered while
# first-stage jobs of the second submission are still executing.
TWO_QUICK = {"split2>b": 4, "fanout": 3, "one+chain2": 3, "chain2+chain2": 4, "diamond": 4, "indep3": 3}
TWO_THOROUGH = {"split3>b": 6, "a>split2>c": 5, "split2+chain2": 4, "split2!>b": 3, "chain3": 3, "split3": 3, "fanin": 3}
TWO_SAMPLED = {"split4>b": 8, "split2>diamond": 10, "split2,split2>c": 8, "split5>b+split3": 13, "2x chain4 + split2": 10}
MODES = [(False, True), (False, False), (True, True), (True, False)]  # (rerun, propagate_rerun)


def tasks_two_submissions(ctx):
    t = []
    specs = dict(TWO_QUICK)
    if ctx.thorough:
        specs.update(TWO_THOROUGH)
    for sp, n in specs.items():
        for k in ks(n, ctx):
            for prior in ("all", "partial"):
                for rerun, prop in MODES:
                    for vis in ((INF,), (0,)) + (((0, INF),) if ctx.thorough and n <= 3 else ()):
                        if not ctx.thorough and vis == (0,) and (prior == "partial" or not (rerun and prop)):
                            continue
                        t.append((H.Opts(sp, loop="real", k=k, vis=vis, prior=prior, rerun=rerun, propagate=prop), 0, 1 if n >= 5 else 0))
    return t


def tasks_two_sampled(ctx):
    n_s = ctx.pick(3, 10)
    t = []
    for sp, n in TWO_SAMPLED.items():
        if not ctx.thorough and n > 10:
            continue
        for k in ks(n, ctx, full=False):
            for prior in ("all", "partial"):
                for rerun, prop in MODES if ctx.thorough else [(True, True), (False, True)]:
                    t.append((H.Opts(sp, loop="real", k=k, vis=(0, 1, INF), multi=True, prior=prior, rerun=rerun, propagate=prop), n_s, 0))
    return t


def deductive(ctx):
    """engine D: one call of Submitter.get_runnable_tasks returns at most max_concurrent jobs (the
    bound across calls - jobs already in flight - is decided by the bounded histories only)"""
    from contracts import runnable as R
    from pyvc.verify import verify, summarize

    summarize(ctx, verify(ctx, R.contract()))


def run(ctx):
    deductive(ctx)
    import concurrent.futures as cf

    ctx.level = "other"
    ctx.explanation = (
        "Bounded check (engine B) of the max_concurrent limit as applied by Submitter.get_runnable_tasks / NodeExecution.update_status under the "
        "asynchronous loop (real expand_workflow_async with a scripted in-process worker, and the harness' mirror of it) and the sequential loop: "
        "for workflows of independent, split and chained jobs, every limit k = 1..number of jobs, every completion order and lock-file visibility "
        "pattern (real lock/result files as observations). Ghost state: executing = handed to the worker, not yet finished; contract: never more than "
        "k jobs executing. The same bound is checked for a SECOND submission of the workflow into a cache root that holds the results of a first one "
        "(all jobs / part of the nodes), with rerun in {False, True} x propagate_rerun in {True, False}; there, in addition, a job whose result is stored "
        "must not execute unless the rerun request reaches it. Not covered: the worker's own pool size, asyncio scheduling, timing."
    )
    try:
        bg = cf.ThreadPoolExecutor(1)
        e2e = bg.submit(H.e2e_c16)
        qs = dict(EXH_QUICK)
        if ctx.thorough:
            qs.update(EXH_THOROUGH)
        d1 = ctx.domain(
            "asynchronous loop: k x completion orders x lock visibility (exhaustive)",
            bound=(
                f"workflows {qs} (name: jobs), every k in 1..jobs, every completion order, lock visibility all-seen and none-seen (real loop; mirror loop for <= "
                + ("5" if ctx.thorough else "4")
                + " jobs), per-job visibility for <= "
                + ("4" if ctx.thorough else "3")
                + " jobs"
                + ("; thorough adds visibility delay 1, several completions per observation and one failing job for <= 3 jobs" if ctx.thorough else "")
            ),
            rule="one case = one history (workflow, k, loop, script choices); non-trivial = the workflow has more jobs than k (the limit can bind)",
            exhaustive=True,
        )
        d2 = ctx.domain(
            "sequential loop with a limit",
            bound="every catalogue workflow of this check x k (all k for <= 4 jobs" + (" and in thorough" if ctx.thorough else "; 1,2,3,n/2,n-1,n otherwise") + "), mirror and real expand_workflow; the loop runs one job at a time, so the limit holds trivially -- recorded for completeness and liveness",
            rule="one history per (workflow, k, loop)",
            exhaustive=True,
        )
        d3 = ctx.domain(
            "asynchronous loop: 6-13 jobs (sampled)",
            bound=f"workflows {SAMPLED if ctx.thorough else {k: v for k, v in SAMPLED.items() if v <= 10}}, k " + ("1..jobs" if ctx.thorough else "in {1,2,3,n/2,n-1,n}") + f", {ctx.pick(4, 25)} random scripts each (visibility delay 0/1/never, several completions per observation), seed {ctx.seed}",
            rule="one case = one random script, distinct by choice list",
            exhaustive=False,
        )
        ts = dict(TWO_QUICK)
        if ctx.thorough:
            ts.update(TWO_THOROUGH)
        d4 = ctx.domain(
            "second submission over a warm cache: rerun x propagate_rerun x k x completion orders (exhaustive)",
            bound=(
                f"workflows {ts} (name: jobs); a first submission into the same cache root has completed every job (prior=all) or only the jobs of the first half "
                "of the nodes (prior=partial); the checked history is the SECOND submission under the real expand_workflow_async (scripted worker that, like Job.run, "
                "returns a stored result without executing unless the loop passes rerun=True), rerun in {False, True} x propagate_rerun in {True, False} x k = 1..jobs x "
                "every completion order, lock files never seen (stale results stay visible while a job re-executes)"
                + (" / all seen (a re-execution clears its directory when it starts)" + (" / per job for <= 3 jobs" if ctx.thorough else " for prior=all with an effective rerun"))
            ),
            rule="one case = one second-submission history (workflow, prior, rerun, propagate_rerun, k, script choices); non-trivial = more jobs than k; "
            "contract: never more than k jobs handed to the worker and unfinished; a job with a stored result is executed only if rerun and propagate_rerun",
            exhaustive=True,
        )
        d5 = ctx.domain(
            "second submission over a warm cache: 8-13 jobs (sampled)",
            bound=f"workflows {TWO_SAMPLED if ctx.thorough else {k: v for k, v in TWO_SAMPLED.items() if v <= 10}}, prior in {{all, partial}}, "
            + ("all four rerun/propagate_rerun modes" if ctx.thorough else "rerun in {True, False} with propagate_rerun=True")
            + f", k in {{1,2,3,n/2,n-1,n}}, {ctx.pick(3, 10)} random scripts each (visibility delay 0/1/never, several completions per observation), seed {ctx.seed}",
            rule="one case = one random script of the second submission, distinct by choice list",
            exhaustive=False,
        )
        stats = H.run_domains(
            ctx,
            "C16",
            [(d1, tasks_exhaustive(ctx), False), (d2, tasks_sync(ctx), False), (d3, tasks_sampled(ctx), False), (d4, tasks_two_submissions(ctx), False), (d5, tasks_two_sampled(ctx), False)],
        )
        tot = {}
        for st in stats:
            for k, v in st.items():
                if isinstance(v, dict):
                    tot.setdefault(k, {})
                    for kk, vv in v.items():
                        tot[k][kk] = tot[k].get(kk, 0) + vv
                else:
                    tot[k] = tot.get(k, 0) + v
        for k in sorted(tot):
            ctx.note(f"{k}: {tot[k]}")
        t_pool = time.time() - ctx.t0
        lines = e2e.result()
        ctx.note(f"timing: enumeration finished after {t_pool:.0f} s, end-to-end runs after {time.time() - ctx.t0:.0f} s")
        for line in lines:
            ctx.note("end-to-end replay aid (real workers, timing dependent, NOT part of the verdict): " + line)
    finally:
        H.cleanup()


def replay(rec):
    return H.std_replay("C16", rec)
