"""C17 — workflow results do not depend on worker or schedule.

Relational contract on the real submission function: for every workflow W of the C03 generators and
every pair of execution configurations c1, c2:  W(c1) == W(c2)  (equal outputs, or both rejected).
Engine B only: the debug worker against the process-pool worker with 1..4 (thorough 8) processes and
max_concurrent limits; completion orders are NOT controlled beyond pool size and limit (the
scripted-order harness of C15 covers orders for the decision functions).  Nothing is proved here.
"""
import concurrent.futures as cf
import json
import multiprocessing as mp
import os
import random
import shutil
import tempfile


def _run_one(args):
    graph, cfg = args
    from props import C03
    from pydra.engine.workflow import Workflow

    tmp = tempfile.mkdtemp(prefix="vf_c17_")
    cwd = os.getcwd()
    try:
        try:
            if "named" in graph:
                from props import _c17wfs as W

                cls, outs = W.NAMED[graph["named"]]
                task = cls(**graph["inputs"])
            else:
                task = C03.make_task(graph)
            kw = {"worker": cfg["worker"]}
            if cfg["worker"] == "cf":
                kw["n_procs"] = cfg["n_procs"]
            if cfg.get("max_concurrent"):
                kw["max_concurrent"] = cfg["max_concurrent"]
            out = task(cache_root=tmp, **kw)
            if "named" in graph:
                res = {"ok": {n: C03._jsonable(getattr(out, n)) for n in outs}}
            else:
                res = {"ok": {nd["name"]: C03._jsonable(getattr(out, f"o{i}")) for i, nd in enumerate(graph["nodes"])}}
        except Exception as e:  # noqa
            res = {"error": type(e).__name__}
        return res
    finally:
        os.chdir(cwd)
        try:
            Workflow.clear_cache()
        except Exception:
            pass
        shutil.rmtree(tmp, ignore_errors=True)


def _init():
    import logging
    from vf.core import assert_repo_import

    assert_repo_import()
    logging.getLogger("pydra").setLevel(logging.CRITICAL)


def configs(thorough):
    cfgs = [{"worker": "debug"}, {"worker": "cf", "n_procs": 1}, {"worker": "cf", "n_procs": 3, "max_concurrent": 2}]
    if thorough:
        cfgs += [{"worker": "cf", "n_procs": 2, "max_concurrent": 1}, {"worker": "cf", "n_procs": 2}, {"worker": "cf", "n_procs": 4, "max_concurrent": 2}, {"worker": "cf", "n_procs": 8}, {"worker": "debug", "max_concurrent": 1}]
    return cfgs


def _short(g):
    from props import C03

    return f"{g['named']}({g['inputs']})" if "named" in g else C03.short(g)


def _key(g):
    from props import C03

    return ("named", g["named"], json.dumps(g["inputs"], sort_keys=True)) if "named" in g else C03.graph_key(g)


def deductive(ctx):
    """engine D: the sequential scheduler Submitter.expand_workflow hands every job of a released batch to the worker exactly
    once with the rerun flag of the execution graph, and returns only when nothing is runnable and every node is done --
    contracts/expand_workflow.py"""
    from contracts import expand_workflow as EW
    from pyvc.verify import verify, summarize

    summarize(ctx, verify(ctx, EW.contract()))


def run(ctx):
    from props import C03

    deductive(ctx)

    ctx.level = "other"
    ctx.explanation = (
        "bounded (engine B) relational check: the generated workflows of C03 (named shapes and all graphs of <= 2 nodes, a seeded "
        "sample in the quick tier) are run through the real submission path under the debug worker and under the process-pool worker "
        "with several pool sizes and max_concurrent limits; all configurations must give identical outputs for every node (or all be "
        "rejected). Completion orders are not controlled beyond pool size and limit; nothing is proved."
    )
    rng = random.Random(ctx.seed)
    sg, small, sampled, _ = C03.case_lists(False, ctx.seed)
    graphs = sg + small
    rng.shuffle(graphs)
    graphs = graphs[: ctx.pick(20, 240)] + sampled[: ctx.pick(6, 120)]
    # zero-job nodes: the same named shapes with EMPTY input lists (a split that selects nothing feeding further nodes);
    # whether nothing else is in flight when such a node starts depends on pool size, limit and completion order
    import copy as _copy

    empties, seen = [], set()
    for g in sg:
        if not any(nd.get("split") for nd in g["nodes"]) or len(g["nodes"]) < 2:
            continue
        shape_key = json.dumps([{k: v for k, v in nd.items()} for nd in g["nodes"]], sort_keys=True)
        if shape_key in seen:
            continue
        seen.add(shape_key)
        names = sorted(g["inputs"])
        for emptied in ([names[0]], names) if len(names) > 1 else ([names[0]],):
            h = _copy.deepcopy(g)
            for n in emptied:
                h["inputs"][n] = []
            empties.append(h)
    graphs += empties[: ctx.pick(10, 60)]
    from props import _c17wfs as W

    named = W.cases()
    graphs += named
    cfgs = configs(ctx.thorough)
    dom = ctx.domain(
        "workflows-x-execution-configurations",
        bound=f"{len(graphs)} generated workflows (C03 grammar, seeded selection; {min(len(empties), ctx.pick(10, 60))} of them named shapes with one / all input lists EMPTY, i.e. zero-job nodes with successors; {len(named)} hand-written filter -> map -> reduce workflows whose split values are produced at run time, some selecting nothing) x {len(cfgs)} configurations {cfgs}",
        rule="one case per workflow (all configurations); non-trivial = a split node feeds a downstream node and the workflow is accepted",
        exhaustive=False,
    )
    work = [(g, c) for g in graphs for c in cfgs]
    with cf.ProcessPoolExecutor(max_workers=ctx.pick(8, 12), mp_context=mp.get_context("spawn"), initializer=_init) as ex:
        results = list(ex.map(_run_one, work, chunksize=2))
    it = iter(results)
    for g in graphs:
        rs = [next(it) for _ in cfgs]
        ref = rs[0]
        case = {"graph_json": json.dumps(g, sort_keys=True), "short": _short(g), "results": {json.dumps(c, sort_keys=True): ("ok" if "ok" in r else r["error"]) for c, r in zip(cfgs, rs)}}
        dom.case(_key(g), nontrivial=("ok" in ref and ("named" in g or C03.useful(g))), sample={"workflow": _short(g), "configs": len(cfgs), "outcome": "ok" if "ok" in ref else ref["error"]})
        for c, r in zip(cfgs[1:], rs[1:]):
            if ("ok" in r) != ("ok" in ref):
                ctx.fail(None, f"workflow {_short(g)}: debug worker gives {'outputs' if 'ok' in ref else ref['error']}, configuration {c} gives {'outputs' if 'ok' in r else r['error']}", case, domain=dom)
                break
            if "ok" in r and r["ok"] != ref["ok"]:
                bad = [n for n in ref["ok"] if r["ok"].get(n) != ref["ok"][n]]
                case["differs_at"] = bad
                ctx.fail(None, f"workflow {_short(g)}: outputs of nodes {bad} differ between the debug worker and {c}", case, domain=dom)
                break


def replay(rec):
    g = json.loads(rec["case"]["graph_json"])
    cfgs = configs(True)
    _init()
    rs = [_run_one((g, c)) for c in cfgs]
    same = all(r == rs[0] for r in rs)
    print(f"replay C17: {[('ok' if 'ok' in r else r['error']) for r in rs]} identical={same}")
    if not same:
        print("VIOLATION property=C17 replay=(replayed)")
        return 1
    return 0
