"""C18 — every submission terminates (graph sorting part).

D: DiGraph.sorting: the `while notsorted_nodes` loop carries a `decreases len(notsorted_nodes)`
   obligation, discharged from the callee contract of DiGraph._sorting (verified in the same
   run) and the cycle check; every other loop iterates over a finite list.
B: cyclic workflows built through node-input assignment (typed / untyped, 2- and 3-cycles,
   self loop) run in a child process under a watchdog: an error must be reported, no hang;
   DiGraph.sorting on every digraph with <= 4 nodes that contains a cycle.
NOT decided: progress of Submitter.expand_workflow's polling loop (liveness of external jobs).
"""
import itertools
import os
import subprocess
import sys
import tempfile
import shutil
from pathlib import Path

from contracts import graph as G
from pyvc.verify import verify, summarize

CHILD = r'''
import sys, tempfile, signal, shutil
from pydra.compose import python, workflow

@python.define
def Add(a, b=1):
    return a + b

@python.define
def AddT(a: int, b: int = 1) -> int:
    return a + b

def mk(kind, n, typed):
    T = AddT if typed else Add
    if typed:
        @workflow.define
        def Cyc(x: int) -> int:
            nodes = [workflow.add(T(a=x), name="n0")]
            for i in range(1, n):
                nodes.append(workflow.add(T(a=nodes[-1].out), name=f"n{i}"))
            workflow.this()["n0"].inputs.b = nodes[-1].out
            return nodes[-1].out
    else:
        @workflow.define
        def Cyc(x):
            nodes = [workflow.add(T(a=x), name="n0")]
            for i in range(1, n):
                nodes.append(workflow.add(T(a=nodes[-1].out), name=f"n{i}"))
            workflow.this()["n0"].inputs.b = nodes[-1].out
            return nodes[-1].out
    return Cyc

n, typed, worker = int(sys.argv[1]), sys.argv[2] == "typed", sys.argv[3]
tmp = tempfile.mkdtemp(prefix="vf_c18_")
try:
    kw = {"n_procs": 1} if worker == "cf" else {}
    out = mk("cyc", n, typed)(x=1)(cache_root=tmp, worker=worker, **kw)
    print("RETURNED", out)
except BaseException as e:
    print("RAISED", type(e).__name__)
finally:
    shutil.rmtree(tmp, ignore_errors=True)
'''


CHILD_TWINS = r'''
import os, sys, tempfile, shutil
os.environ.setdefault("NO_ET", "1")
from pydra.compose import python, workflow

@python.define
def Add(a: int, b: int = 1) -> int:
    return a + b

def mk(k, consumer):
    @workflow.define
    def Twins(x: int) -> int:
        nodes = [workflow.add(Add(a=x, b=2), name=f"t{i}") for i in range(k)]   # k nodes with the SAME task and inputs
        last = nodes[0]
        if consumer:
            last = workflow.add(Add(a=nodes[-1].out, b=nodes[0].out), name="c")
        return last.out
    return Twins

k, consumer, worker, second = int(sys.argv[1]), sys.argv[2] == "consumer", sys.argv[3], sys.argv[4]
tmp = tempfile.mkdtemp(prefix="vf_c18t_")
try:
    kw = {"n_procs": 2} if worker == "cf" else {}
    outs = []
    for rerun in ([False] if second == "none" else [False, second == "rerun"]):
        outs.append(mk(k, consumer)(x=1)(cache_root=tmp, worker=worker, rerun=rerun, **kw).out)
    print("RETURNED", outs)
except BaseException as e:
    print("RAISED", type(e).__name__, str(e)[:100].replace("\n", " "))
finally:
    shutil.rmtree(tmp, ignore_errors=True)
'''


def twins_case(k, consumer, worker, second, timeout=120):
    """workflows with several IDENTICAL jobs (same task, same inputs, different nodes); `second` = none / plain / rerun
    (a second submission into the same cache root, plain or with rerun=True).  A hang verdict is repeated once with a four
    times longer watchdog"""
    for to in (timeout, timeout * 4):
        try:
            r = subprocess.run([sys.executable, "-c", CHILD_TWINS, str(k), "consumer" if consumer else "plain", worker, second], env=dict(os.environ), capture_output=True, text=True, timeout=to)
            line = [l for l in r.stdout.splitlines() if l.startswith(("RAISED", "RETURNED"))]
            return {"twins": k, "consumer": consumer, "worker": worker, "second": second, "outcome": line[-1] if line else f"exit {r.returncode}: {r.stderr[-200:]}", "hung": False}
        except subprocess.TimeoutExpired:
            continue
    return {"twins": k, "consumer": consumer, "worker": worker, "second": second, "outcome": "TIMEOUT", "hung": True}


def cyc_case(n, typed, worker, timeout=120):
    """a hang verdict is repeated once with a four times longer watchdog (loaded machines)"""
    o = _cyc_case(n, typed, worker, timeout)
    if o["hung"]:
        o = _cyc_case(n, typed, worker, timeout * 4)
    return o


def _cyc_case(n, typed, worker, timeout):
    env = dict(os.environ)
    try:
        r = subprocess.run([sys.executable, "-c", CHILD, str(n), "typed" if typed else "untyped", worker], env=env, capture_output=True, text=True, timeout=timeout)
        line = [l for l in r.stdout.splitlines() if l.startswith(("RAISED", "RETURNED"))]
        return {"cycle_len": n, "typed": typed, "worker": worker, "outcome": line[-1] if line else f"exit {r.returncode}: {r.stderr[-200:]}", "hung": False}
    except subprocess.TimeoutExpired:
        return {"cycle_len": n, "typed": typed, "worker": worker, "outcome": "TIMEOUT", "hung": True}


class _N:
    def __init__(self, name):
        self.name = name

    def __repr__(self):
        return self.name


def graph_case(n, edges):
    """DiGraph.sorting on a cyclic graph in a child-free way: alarm-guarded"""
    import signal
    from pydra.engine.graph import DiGraph

    nodes = [_N(f"n{i}") for i in range(n)]
    g = DiGraph(name="g", nodes=nodes, edges=[(nodes[a], nodes[b]) for a, b in edges])

    def on_alarm(*a):
        raise TimeoutError("sorting did not terminate")

    old = signal.signal(signal.SIGALRM, on_alarm)
    signal.alarm(15)
    try:
        g.sorting()
        return "returned", [nd.name for nd in g.sorted_nodes]
    except TimeoutError:
        return "hung", None
    except Exception as e:  # noqa
        return "raised", type(e).__name__
    finally:
        signal.alarm(0)
        signal.signal(signal.SIGALRM, old)


def has_cycle(n, edges):
    adj = {i: [b for a, b in edges if a == i] for i in range(n)}
    color = {}

    def dfs(u):
        color[u] = 1
        for v in adj[u]:
            if color.get(v) == 1 or (v not in color and dfs(v)):
                return True
        color[u] = 2
        return False

    return any(dfs(i) for i in range(n) if i not in color)


def run(ctx):
    ctx.level = "other"
    ctx.explanation = (
        "Termination of DiGraph.sorting for every graph (cyclic or not) is proved: the while loop's variant len(notsorted_nodes) "
        "strictly decreases or a ValueError is raised, using DiGraph._sorting's verified contract. Bounded: every digraph on <= 4 "
        "nodes containing a cycle (alarm-guarded), and cyclic workflows built by node-input assignment under a watchdog. The "
        "progress of the submitter's polling loops is not decided (liveness)."
    )
    res = verify(ctx, G.sorting_round_contract_sizes())
    summarize(ctx, res)
    res = verify(ctx, G.sorting_contract("property:C18"))

    def replay(rec):
        kind, _ = graph_case(2, [(0, 1), (1, 0)])
        return {"graph": "n0 -> n1 -> n0", "sorting": kind}, kind == "hung"

    summarize(ctx, res, replay=replay)

    dom = ctx.domain(
        "cyclic-digraphs",
        bound="every directed graph on <= 4 nodes (no self-loops in quick; with self-loops thorough) whose edge set contains a cycle; DiGraph.sorting under a 15 s alarm",
        rule="edge subsets enumerated exhaustively, only cyclic ones kept; non-trivial: all",
        exhaustive=True,
    )
    n_hung = 0
    for n in (2, 3, 4):
        pairs = [(a, b) for a in range(n) for b in range(n) if a != b or ctx.thorough]
        maxe = len(pairs) if n < 4 else ctx.pick(4, 6)
        for k in range(1, maxe + 1):
            for edges in itertools.combinations(pairs, k):
                if not has_cycle(n, edges) or n_hung >= 12:
                    continue
                kind, val = graph_case(n, edges)
                dom.case((n, edges), sample={"nodes": n, "edges": list(edges), "sorting": kind})
                if kind == "hung":
                    n_hung += 1
                    if n_hung == 12:
                        # every hanging case costs the full alarm: after a dozen reported hangs the rest of the enumeration is
                        # skipped (the check has already failed); never happens on a tree where sorting terminates
                        dom.exhaustive = False
                        ctx.note("cyclic-digraphs: enumeration stopped after 12 graphs on which DiGraph.sorting hung (15 s each)")
                    ctx.fail("sorting-hangs-on-cycle", f"DiGraph.sorting does not terminate on the cyclic graph {edges}", {"nodes": n, "edges": list(edges)}, domain=dom)
                elif kind == "returned":
                    ctx.fail("sorting-returns-on-cycle", f"DiGraph.sorting returned {val} for the cyclic graph {edges} instead of reporting an error", {"nodes": n, "edges": list(edges)}, domain=dom)
    dom2 = ctx.domain(
        "cyclic-workflows",
        bound="workflows whose first node takes the last node's output via workflow.this()[...].inputs assignment: cycle length 1..3 x typed/untyped x debug worker (thorough: + cf worker), watchdog 120 s, repeated once with 480 s before a hang is reported",
        rule="one child process per case; non-trivial: all",
        exhaustive=True,
    )
    workers = ["debug"] + (["cf"] if ctx.thorough else [])
    for worker in workers:
        for n in (1, 2, 3):
            for typed in (False, True):
                o = cyc_case(n, typed, worker)
                dom2.case((n, typed, worker), sample=o)
                if o["hung"]:
                    ctx.fail(f"cyclic-workflow-hangs:{'typed' if typed else 'untyped'}", f"submission of a cyclic workflow (cycle length {n}, typed={typed}, worker={worker}) did not end within the watchdog (120 s, then 480 s)", o, domain=dom2)
                elif not o["outcome"].startswith("RAISED"):
                    ctx.fail("cyclic-workflow-no-error", f"cyclic workflow gave {o['outcome']}", o, domain=dom2)
    twins_domain(ctx)


def twins_domain(ctx):
    dom3 = ctx.domain(
        "workflows-with-identical-jobs",
        bound="2 and 3 nodes with the same task and the same inputs (one cache identity), with and without a node consuming them x debug / cf worker x second submission into the same cache root (none, plain, rerun=True); watchdog 120 s, repeated once with 480 s",
        rule="one child process per case: the submission(s) must end with outputs (3 resp. 6) or an error; non-trivial: all",
        exhaustive=True,
    )
    n_hung = 0
    for k in (2, 3):
        for consumer in (False, True):
            for worker in ("debug", "cf"):
                for second in ("none", "plain", "rerun"):
                    if not ctx.thorough and (k == 3 and not consumer):
                        continue
                    if n_hung >= 2:
                        continue  # every hang costs 10 minutes of watchdog; two reported hangs are enough
                    o = twins_case(k, consumer, worker, second)
                    dom3.case((k, consumer, worker, second), sample=o)
                    exp = 6 if consumer else 3
                    if o["hung"]:
                        n_hung += 1
                        if n_hung == 2:
                            dom3.exhaustive = False
                            ctx.note("workflows-with-identical-jobs: enumeration stopped after 2 hanging submissions")
                        ctx.fail(None, f"submission of a workflow with {k} identical jobs (consumer={consumer}, worker={worker}, second submission: {second}) did not end within the watchdog (120 s, then 480 s)", o, domain=dom3)
                    elif not o["outcome"].startswith("RETURNED") or any(str(exp) != v.strip() for v in o["outcome"][len("RETURNED [") : -1].split(",")):
                        ctx.fail(None, f"workflow with {k} identical jobs (consumer={consumer}, worker={worker}, second: {second}) gave {o['outcome']}, expected output {exp}", o, domain=dom3)


def replay(rec):
    case = rec["case"]
    if "twins" in case:
        o = twins_case(case["twins"], case["consumer"], case["worker"], case["second"])
        print("replay C18:", o)
        exp = 6 if case["consumer"] else 3
        bad = o["hung"] or not o["outcome"].startswith("RETURNED") or any(str(exp) != v.strip() for v in o["outcome"][len("RETURNED [") : -1].split(","))
        if bad:
            print("VIOLATION property=C18 replay=(replayed)")
        return 1 if bad else 0
    if "cycle_len" in case:
        o = cyc_case(case["cycle_len"], case["typed"], case["worker"])
        print("replay C18:", o)
        bad = o["hung"] or not o["outcome"].startswith("RAISED")
    else:
        kind, val = graph_case(case.get("nodes", 2), [tuple(e) for e in case.get("edges", [(0, 1), (1, 0)])])
        print("replay C18: sorting", kind, val)
        bad = kind != "raised"
    if bad:
        print("VIOLATION property=C18 replay=(replayed)")
    return 1 if bad else 0
