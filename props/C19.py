"""C19 -- task execution cannot silently alter its recorded inputs (engine B).

A pool of python tasks that mutate (or not) their list / dict / set / object / ndarray /
file inputs in place is run through the real Job path (Task.__call__ -> Submitter -> Job.run
-> PythonTask._run -> Job._check_for_hash_changes), directly and as a node of a workflow,
with the debug worker (thorough: also the cf worker, n_procs=1).  Contract, from the
property text:

  (a) after the run EITHER a RuntimeError "Input field hashes have changed" was raised OR
      every input (the object the caller passed AND the value recorded on the task) equals
      its pre-run snapshot;
  (b) a file input whose field has copy mode 'copy' is byte-identical after the run, also
      when the task wrote to the path it was given;
  (c) the only job directory created in the cache root is named after the checksum the task
      had BEFORE the run (cache identity of the original inputs) and holds the result.
"""

from __future__ import annotations

import array
import collections
import dataclasses
import os
import shutil
import tempfile
import typing as ty
import warnings
from pathlib import Path

import attrs
import numpy as np
from fileformats.generic import Directory, File, FileSet

from pydra.compose import python, shell, workflow

# --------------------------------------------------------------------------- value kinds


class Plain:
    def __init__(self):
        self.items = [1, 2]
        self._private = {"k": 1}


@dataclasses.dataclass
class DC:
    n: int = 1
    items: list = dataclasses.field(default_factory=lambda: [1])


@attrs.define
class AT:
    n: int = 1
    items: list = attrs.field(factory=lambda: [1])


class Slotted:
    __slots__ = ("n", "items")

    def __init__(self):
        self.n = 1
        self.items = [1]


class _Base:
    pass


class SlotsAndDict(_Base):
    """__slots__ on a subclass of a dict-ful base: instances have BOTH slots and a __dict__"""

    __slots__ = ("n",)

    def __init__(self):
        self.n = 1
        self.extra = [1]


def _mk_file(d, name="f.txt", text="original-content\n"):
    p = Path(d) / name
    p.write_text(text)
    return p


def _mk_dir(d):
    p = Path(d) / "indir"
    p.mkdir()
    (p / "a.txt").write_text("a")
    return p


VALUES = {
    "list": lambda d: [1, 2, 3],
    "nested-list": lambda d: [[1, 2], [3]],
    "tuple-of-list": lambda d: ([1], 2),
    "dict": lambda d: {"a": 1, "b": [1, 2]},
    "set": lambda d: {1, 2, 3},
    "plain-object": lambda d: Plain(),
    "dataclass": lambda d: DC(),
    "attrs-object": lambda d: AT(),
    "slots-object": lambda d: Slotted(),
    "slots+dict-object": lambda d: SlotsAndDict(),
    "ndarray": lambda d: np.arange(6, dtype=np.int32),
    "ndarray2d": lambda d: np.arange(6, dtype=np.int32).reshape(2, 3),
    "list-of-ndarray": lambda d: [np.arange(4, dtype=np.int32)],
    "object-with-ndarray": lambda d: DC(items=np.arange(4, dtype=np.int32)),
    "ndarray-object-dtype": lambda d: np.array([[1], [2, 3]], dtype=object),
    # mutable stdlib containers that are neither list/dict/set (extension of the pool: "object")
    "bytearray": lambda d: bytearray(b"abc"),
    "deque": lambda d: collections.deque([1, 2]),
    "array.array": lambda d: array.array("i", [1, 2]),
    "ordereddict": lambda d: collections.OrderedDict(a=1),
    "defaultdict": lambda d: collections.defaultdict(list, a=[1]),
}


# second element of a task split over two values (distinct from the first: two different job identities)
SPLIT_SECOND = {"list": lambda: [4, 5, 6], "dict": lambda: {"a": 2, "b": [3, 4]}}


def _reshape(a, shape):
    a.resize(shape, refcheck=False)  # in-place shape change (same bytes, same size)


def _setdtype(a, dt):
    with warnings.catch_warnings():
        warnings.simplefilter("ignore")
        a.dtype = dt  # in-place reinterpretation (same bytes, same size)


# op -> (applicable kinds, function, mutates?)   ("*" = every kind)
OPS = {
    "read-only": ("*", lambda v: None, False),
    "append": (("list", "deque", "bytearray", "array.array"), lambda v: v.append(9), True),
    "setitem0": (("list", "ndarray", "bytearray", "array.array", "deque"), lambda v: v.__setitem__(0, 77), True),
    "clear": (("list", "dict", "set", "deque"), lambda v: v.clear(), True),
    "reverse": (("list",), lambda v: v.reverse(), True),
    "append-then-pop": (("list",), lambda v: (v.append(9), v.pop()), False),
    "inner-append": (("nested-list", "tuple-of-list"), lambda v: v[0].append(9), True),
    "dict-setkey": (("dict", "ordereddict"), lambda v: v.__setitem__("z", 1), True),
    "dict-delkey": (("dict",), lambda v: v.pop("a"), True),
    "dict-nested-append": (("dict",), lambda v: v["b"].append(9), True),
    "dict-reinsert-same": (("dict",), lambda v: v.__setitem__("a", v.pop("a")), False),
    "defaultdict-append": (("defaultdict",), lambda v: v["a"].append(2), True),
    "defaultdict-touch-missing": (("defaultdict",), lambda v: v["new"], True),
    "set-add": (("set",), lambda v: v.add(99), True),
    "set-discard": (("set",), lambda v: v.discard(1), True),
    "attr-items-append": (("plain-object", "dataclass", "attrs-object", "slots-object"), lambda v: v.items.append(9), True),
    "attr-rebind": (("dataclass", "attrs-object", "slots-object", "slots+dict-object"), lambda v: setattr(v, "n", 5), True),
    "attr-new": (("plain-object", "dataclass"), lambda v: setattr(v, "added", 1), True),
    "attr-private": (("plain-object",), lambda v: v._private.__setitem__("k", 2), True),
    "dictattr-append": (("slots+dict-object",), lambda v: v.extra.append(9), True),
    "nd-fill": (("ndarray", "ndarray2d"), lambda v: v.fill(5), True),
    "nd-sort-desc": (("ndarray",), lambda v: v.__setitem__(slice(None), v[::-1].copy()), True),
    "nd-byteswap": (("ndarray",), lambda v: v.byteswap(inplace=True), True),
    "nd-reshape": (("ndarray",), lambda v: _reshape(v, (2, 3)), True),
    "nd-reshape-2d": (("ndarray2d",), lambda v: _reshape(v, (3, 2)), True),
    "nd-flatten-inplace": (("ndarray2d",), lambda v: _reshape(v, (6,)), True),
    "nd-dtype-view": (("ndarray",), lambda v: _setdtype(v, np.float32), True),
    "nd-nested-setitem": (("list-of-ndarray",), lambda v: v[0].__setitem__(0, 77), True),
    "nd-nested-reshape": (("list-of-ndarray",), lambda v: _reshape(v[0], (2, 2)), True),
    "nd-attr-reshape": (("object-with-ndarray",), lambda v: _reshape(v.items, (2, 2)), True),
    "nd-attr-setitem": (("object-with-ndarray",), lambda v: v.items.__setitem__(0, 77), True),
    "nd-object-inner-append": (("ndarray-object-dtype",), lambda v: v[0].append(9), True),
}

FILE_OPS = {
    "read-only": lambda p: Path(p).read_bytes(),
    "append": lambda p: open(p, "a").write("MUTATED\n"),
    "overwrite-same-length": lambda p: Path(p).write_text("ORIGINAL-CONTENT\n"),
    "truncate": lambda p: open(p, "w").close(),
}


def _apply(v, op):
    OPS[op][1](v)
    return op


# --------------------------------------------------------------------------- tasks


@python.define
def MutAny(v: ty.Any, op: str) -> str:
    return _apply(v, op)


@python.define
def MutList(v: list, op: str) -> str:
    return _apply(v, op)


@python.define
def MutDict(v: dict, op: str) -> str:
    return _apply(v, op)


@python.define
def MutSet(v: set, op: str) -> str:
    return _apply(v, op)


@python.define
def MutArr(v: np.ndarray, op: str) -> str:
    return _apply(v, op)


@python.define
def MutFile(f: File, op: str) -> str:
    FILE_OPS[op](str(f))
    return op


@python.define(inputs={"f": python.arg(type=File, copy_mode=FileSet.CopyMode.copy), "op": python.arg(type=str)})
def MutFileCopy(f, op) -> str:
    FILE_OPS[op](str(f))
    return op


@python.define
def MutFiles(fs: list[File], op: str) -> str:
    FILE_OPS[op](str(fs[-1]))
    return op


@python.define
def MutDir(d: Directory, op: str) -> str:
    if op == "add-file":
        (Path(str(d)) / "new.txt").write_text("new")
    elif op == "edit-member":
        (Path(str(d)) / "a.txt").write_text("changed")
    return op


@shell.define
class ShAppendCopy(shell.Task["ShAppendCopy.Outputs"]):
    """shell task writing to its (copy-mode) input file: must hit the staged copy only"""

    executable = ["sh", "-c", 'echo MUTATED >> "$0"; cat "$0"']
    in_file: File = shell.arg(argstr="", position=1, copy_mode=FileSet.CopyMode.copy, help="file to append to")

    class Outputs(shell.Outputs):
        pass


TYPED = {"list": MutList, "dict": MutDict, "set": MutSet, "ndarray": MutArr, "ndarray2d": MutArr}
TYPED_NAMES = {"MutList", "MutDict", "MutSet", "MutArr"}


@workflow.define(outputs=["out"])
def WrapAny(v: ty.Any, op: str):
    n = workflow.add(MutAny(v=v, op=op), name="n")
    return n.out


@workflow.define(outputs=["out"])
def WrapFile(f: File, op: str):
    n = workflow.add(MutFile(f=f, op=op), name="n")
    return n.out


# --------------------------------------------------------------------------- snapshot


def snap(v, depth=0):
    """structural, equality-faithful snapshot (independent of pydra's hashing)"""
    if depth > 12:
        return ("deep", repr(v))
    if isinstance(v, np.ndarray):
        if v.dtype == object:
            return ("nd-object", v.shape, [snap(i, depth + 1) for i in v.ravel()])
        return ("nd", v.shape, str(v.dtype), v.tobytes())
    if isinstance(v, FileSet):
        return ("fileset", type(v).__name__, sorted((str(p), _file_snap(p)) for p in v.fspaths))
    if isinstance(v, Path):
        return ("path", str(v), _file_snap(v))
    if isinstance(v, (bytearray, array.array)):
        return (type(v).__name__, bytes(v))
    if isinstance(v, (list, tuple, collections.deque)):
        return (type(v).__name__, [snap(i, depth + 1) for i in v])
    if isinstance(v, (set, frozenset)):
        return (type(v).__name__, sorted(repr(snap(i, depth + 1)) for i in v))
    if isinstance(v, dict):
        return (type(v).__name__, sorted((repr(snap(k, depth + 1)), snap(x, depth + 1)) for k, x in v.items()))
    if isinstance(v, (str, bytes, int, float, bool, complex, type(None))):
        return v
    d = {}
    if hasattr(v, "__dict__"):
        d.update(vars(v))
    for klass in type(v).__mro__:
        for s in getattr(klass, "__slots__", ()) or ():
            if s not in ("__dict__", "__weakref__") and hasattr(v, s):
                d[s] = getattr(v, s)
    return ("obj", type(v).__qualname__, sorted((k, snap(x, depth + 1)) for k, x in d.items()))


def _file_snap(p):
    p = Path(p)
    if p.is_dir():
        return sorted((str(q.relative_to(p)), q.read_bytes() if q.is_file() else None) for q in p.rglob("*"))
    return p.read_bytes() if p.exists() else None


# --------------------------------------------------------------------------- one case


def _cases(ctx):
    out = []
    for kind in VALUES:
        for op, (kinds, _f, _m) in OPS.items():
            if kinds != "*" and kind not in kinds:
                continue
            out.append({"group": "value", "task": "MutAny", "kind": kind, "op": op, "wrap": "direct"})
            if kind in TYPED and op != "read-only":
                out.append({"group": "value", "task": TYPED[kind].__name__, "kind": kind, "op": op, "wrap": "direct"})
            if op != "read-only" and kind in ("list", "dict", "set", "plain-object", "ndarray", "deque", "slots+dict-object"):
                out.append({"group": "value", "task": "MutAny", "kind": kind, "op": op, "wrap": "workflow"})
    for op in FILE_OPS:
        out.append({"group": "file", "task": "MutFile", "kind": "file", "op": op, "wrap": "direct"})
        out.append({"group": "file", "task": "MutFileCopy", "kind": "file-copy-mode", "op": op, "wrap": "direct"})
        out.append({"group": "file", "task": "MutFiles", "kind": "list-of-files", "op": op, "wrap": "direct"})
        out.append({"group": "file", "task": "MutFile", "kind": "file", "op": op, "wrap": "workflow"})
    for op in ("read-only", "add-file", "edit-member"):
        out.append({"group": "file", "task": "MutDir", "kind": "directory", "op": op, "wrap": "direct"})
    out.append({"group": "file", "task": "ShAppendCopy", "kind": "file-copy-mode", "op": "append", "wrap": "direct"})
    # a task split over two values: every element job is hashed before it is handed to the worker
    for kind in SPLIT_SECOND:
        for op, (kinds, _f, m) in OPS.items():
            if m and (kinds == "*" or kind in kinds):
                out.append({"group": "value", "task": "MutAny", "kind": kind, "op": op, "wrap": "split"})
                break
    cases = [dict(c, worker="debug") for c in out]
    # pool worker in every tier: the job is pickled into another process AFTER its checksum was computed
    # (workflow node, element of a split task) or before (stand-alone task)
    quick_cf = set()
    for c in out:
        k = (c["kind"], c["wrap"])
        if _mutating(c) and c["task"] == "MutAny" and k in {("list", "workflow"), ("dict", "workflow"), ("list", "split"), ("dict", "split"), ("list", "direct")} and k not in quick_cf:
            quick_cf.add(k)
            cases.append(dict(c, worker="cf"))
    if ctx.thorough:
        # pool worker (cf, n_procs=1): the first mutating operation of every value kind, a few
        # workflow-wrapped ones and the file cases (each cf run starts a process pool: slow)
        seen = set()
        for c in out:
            if not _mutating(c):
                continue
            k = (c["task"], c["kind"], c["wrap"])
            if (c["kind"], c["wrap"]) in quick_cf:
                continue
            if c["wrap"] == "workflow" and c["kind"] not in ("list", "ndarray", "deque", "file"):
                continue
            if c["task"] in TYPED_NAMES:
                continue
            if k in seen:
                continue
            seen.add(k)
            cases.append(dict(c, worker="cf"))
    return cases


def _mutating(case):
    if case["group"] == "value":
        return OPS[case["op"]][2]
    return case["op"] != "read-only"


def _submit(task, cache, worker):
    """debug worker: Task.__call__ (errors are raised).  Pool worker: by default Submitter.__call__ only LOGS an error
    raised after the result was stored ('Task execution failed', logging level ERROR) and returns the stored result; to
    observe WHAT was reported the submission is made with raise_errors=True, which hands the same error to the caller"""
    if worker == "debug":
        return task(cache_root=cache, worker=worker)
    from pydra.engine.submitter import Submitter

    with Submitter(cache_root=cache, worker=worker, n_procs=1) as sub:
        res = sub(task, raise_errors=True)
    if res.errored:
        raise RuntimeError("\n".join(res.errors["error message"]) if res.errors else "errored result without error record")
    return res.outputs


def observe(case):
    """run one case natively; returns the observation dict"""
    from pydra.engine.workflow import Workflow

    # one case = one run from a clean process state (what an earlier run in the same process leaves in the
    # in-memory cache of constructed workflows is the subject of the two-submission domain below)
    Workflow.clear_cache()
    tmp = Path(tempfile.mkdtemp(prefix="vf_c19_"))
    cwd0 = os.getcwd()
    cache = tmp / "cache"
    obs = dict(case)
    try:
        tname, kind, op = case["task"], case["kind"], case["op"]
        files = []  # original files whose bytes must / may change
        if case["group"] == "value":
            value = VALUES[kind](tmp)
            elems = None
            if case["wrap"] == "workflow":
                task = WrapAny(v=value, op=op)
            elif case["wrap"] == "split":
                value = [value, SPLIT_SECOND[kind]()]
                elems = [globals()[tname](v=v, op=op)._checksum for v in value]
                task = globals()[tname](op=op).split(v=value)
            else:
                task = globals()[tname](v=value, op=op)
            field = "v"
        elif tname == "MutDir":
            value = _mk_dir(tmp)
            task = MutDir(d=value, op=op)
            field = "d"
            files = [value]
        elif tname == "MutFiles":
            value = [_mk_file(tmp, "f1.txt"), _mk_file(tmp, "f2.txt")]
            task = MutFiles(fs=value, op=op)
            field = "fs"
            files = list(value)
        elif tname == "ShAppendCopy":
            value = _mk_file(tmp)
            task = ShAppendCopy(in_file=value)
            field = "in_file"
            files = [value]
        else:
            value = _mk_file(tmp)
            if case["wrap"] == "workflow":
                task = WrapFile(f=value, op=op)
            else:
                task = globals()[tname](f=value, op=op)
            field = "f"
            files = [value]
        before_user = snap(value)
        before_task = snap(getattr(task, field))
        before_files = [_file_snap(p) for p in files]
        checksum0 = task._checksum
        exc = None
        outputs = None
        try:
            outputs = _submit(task, cache, case["worker"])
        except BaseException as e:  # noqa
            exc = e
        msg = "" if exc is None else str(exc)
        obs["raised"] = None if exc is None else type(exc).__name__
        obs["hash_change_error"] = bool(exc is not None and isinstance(exc, RuntimeError) and "hashes have changed" in msg)
        obs["other_error"] = None if (exc is None or obs["hash_change_error"]) else f"{type(exc).__name__}: {msg[:200]}"
        obs["user_value_unchanged"] = snap(value) == before_user
        obs["task_value_unchanged"] = snap(getattr(task, field)) == before_task
        obs["files_unchanged"] = [_file_snap(p) == b for p, b in zip(files, before_files)]
        obs["checksum_before"] = checksum0
        dirs = sorted(p.name for p in cache.iterdir() if p.is_dir() and "-" in p.name and not p.name.startswith("pkl")) if cache.exists() else []
        obs["job_dirs"] = dirs
        obs["result_in_original_dir"] = (cache / checksum0 / "_result.pklz").exists()
        if case.get("wrap") == "split":
            # the jobs are the elements: their identities are those of the element tasks with the ORIGINAL values
            obs["element_checksums"] = elems
            # (with the sequential worker the first reported change ends the run: later elements may not have run)
            obs["result_in_original_dir"] = any((cache / c).exists() for c in elems) and all((cache / c / "_result.pklz").exists() for c in elems if (cache / c).exists())
        if tname == "ShAppendCopy" and outputs is not None:
            obs["stdout_has_mutation"] = "MUTATED" in (outputs.stdout or "")
        return obs
    finally:
        os.chdir(cwd0)
        shutil.rmtree(tmp, ignore_errors=True)


def problems(o):
    """contract clauses (a), (b), (c) on one observation -> list of (class, text)"""
    bad = []
    kind, op = o["kind"], o["op"]
    if o["other_error"]:
        # the run failed for another reason: nothing can be said (reported as checker problem by run())
        return [("__other_error__", o["other_error"])]
    silent = not o["hash_change_error"] and not (o["user_value_unchanged"] and o["task_value_unchanged"] and all(o["files_unchanged"]))
    if o.get("worker") == "cf" and o["group"] == "value" and _mutating(o) and not o["hash_change_error"]:
        # pool worker: the modification happens to the copy of the value in the worker process and cannot be seen from
        # here; the same operation is observable under the in-process worker (asserted in run()), so it took place
        silent = True
    if silent:
        bad.append((classify_silent(o), f"in-place {op} of a {kind} input went unreported: no RuntimeError and the input differs from its pre-run snapshot"))
    if kind == "file-copy-mode" and not all(o["files_unchanged"]):
        what = "shell" if o["task"] == "ShAppendCopy" else "python"
        bad.append((f"copy-mode-original-modified:{what}-task", f"{what} task wrote to its copy-mode file input and the ORIGINAL file changed"))
    if o["task"] == "ShAppendCopy" and o.get("stdout_has_mutation") is False:
        bad.append(("shell-copy-not-staged", "shell task did not operate on a writable staged copy"))
    # (c) cache identity: for workflow wrappers the outer job is the workflow; node dirs are extra
    expected = o["checksum_before"]
    outer = [d for d in o["job_dirs"] if d.split("-")[0] == expected.split("-")[0]]
    if o["wrap"] == "split":
        if o["job_dirs"] and not set(d for d in o["job_dirs"] if not d.startswith("workflow-")) <= set(o["element_checksums"]):
            bad.append(("result-dir-not-original-checksum", f"job directories {o['job_dirs']} but the element tasks with the original values have checksums {o['element_checksums']}"))
    elif o["job_dirs"] and (expected not in o["job_dirs"] or (o["wrap"] == "direct" and outer != [expected])):
        bad.append(("result-dir-not-original-checksum", f"job directories {o['job_dirs']} but the original checksum is {expected}"))
    if o["job_dirs"] and not o["result_in_original_dir"]:
        bad.append(("no-result-under-original-checksum", f"no _result.pklz in {expected}"))
    return bad


def classify_silent(o):
    """narrow class predicate for an unreported mutation"""
    kind, op = o["kind"], o["op"]
    if op in ("nd-reshape", "nd-reshape-2d", "nd-flatten-inplace", "nd-nested-reshape", "nd-attr-reshape"):
        # an ndarray (possibly nested in a list / object) whose shape changed in place, bytes and size equal
        return "ndarray-inplace-reshape-same-bytes"
    if op == "nd-dtype-view":
        return "ndarray-inplace-dtype-view-same-bytes"
    if kind in ("bytearray", "deque", "array.array"):
        return "stdlib-container-without-dict-content-not-hashed"
    if kind == "slots+dict-object" and op == "dictattr-append":
        return "slots-class-instance-dict-attrs-not-hashed"
    if kind == "directory" and op == "edit-member":
        # content of an existing member rewritten: the directory's own mtime does not change
        return "directory-member-edit-dir-mtime-unchanged"
    return None


def deductive(ctx):
    """engine D: Job._check_for_hash_changes returns normally only if Task._hash_changes() is empty
    and raises RuntimeError only for a detected change; Job.checksum is computed once and then kept"""
    from contracts import hash_changes as HC
    from pyvc.verify import verify, summarize

    for c in (HC.check_contract(), HC.checksum_contract(), HC.task_hash_changes_contract()):
        summarize(ctx, verify(ctx, c))
    from contracts import job_run as JR

    for qual in ("Job.run", "Job.run_async"):
        summarize(ctx, verify(ctx, JR.contract(qual, {"input-hash-check-follows-the-run-unrefreshed": "property:C19"})))


def run(ctx):
    deductive(ctx)
    _run_bounded(ctx)


def _run_bounded(ctx):
    from vf.core import CheckerError

    ctx.level = "other"
    ctx.explanation = (
        "bounded native run of the real Job path over a pool of python tasks that mutate their inputs in place "
        "(list/dict/set/objects/ndarrays/files; direct and as a workflow node; debug worker, thorough: cf worker): "
        "either the hash-change RuntimeError is raised or every input equals its pre-run snapshot taken with an "
        "independent structural snapshot; copy-mode file originals stay byte-identical; the only job directory is "
        "named after the pre-run checksum and holds the result.  Task._hash_changes itself is not proved here."
    )
    cases = _cases(ctx)
    dom = ctx.domain(
        "mutating-task-pool",
        bound=(
            f"{len(VALUES)} value kinds x {len(OPS)} in-place operations (applicable pairs only) with MutAny, typed task variants "
            f"for list/dict/set/ndarray, workflow-wrapped variants; {len(FILE_OPS)} file operations x (File, File copy-mode, list[File], "
            "File in workflow), 3 Directory operations, one shell task with a copy-mode input; workers: debug"
            + (" and cf(n_procs=1)" if ctx.thorough else "")
        ),
        rule="one native run per (task, value kind, operation, wrapper, worker); distinct by that tuple; non-trivial = the operation really changes the value/file",
        exhaustive=True,
    )
    import concurrent.futures as cf
    import multiprocessing as mp

    hist = [(w, k, a, b) for w in HIST_WRAPS for k in SPLIT_SECOND for a, b in HIST_WORKERS]
    with cf.ProcessPoolExecutor(max_workers=ctx.pick(4, 8), mp_context=mp.get_context("spawn"), initializer=_pool_init) as ex:
        fut_h = [ex.submit(_observe_history_safe, a) for a in hist]
        observations = list(ex.map(_observe_safe, cases, chunksize=2))
        hist_obs = [f.result() for f in fut_h]
    dom_h = ctx.domain(
        "two submissions in one process: mutating in-process run, then an equal task from fresh values",
        bound=f"wrappers {HIST_WRAPS} x value kinds {list(SPLIT_SECOND)} x (first worker, second worker) in {HIST_WORKERS}; the task applies the first mutating operation of the kind",
        rule="one case per (wrapper, kind, workers): both runs must report the modification and leave job directories only under the identities of the values they were given",
        exhaustive=True,
    )
    for a, o in zip(hist, hist_obs):
        if "harness_crash" in o:
            raise CheckerError(f"history {a}: harness crashed: {o['harness_crash']}")
        dom_h.case(a, sample=o)
        for klass, text in history_problems(o):
            ctx.fail(klass, f"C19 history wrap={a[0]} kind={a[1]} workers={a[2]}->{a[3]}: {text}", o, domain=dom_h)
    for case, o in zip(cases, observations):
        key = (case["task"], case["kind"], case["op"], case["wrap"], case["worker"])
        if "harness_crash" in o:
            raise CheckerError(f"case {key}: harness crashed: {o['harness_crash']}")
        probs = problems(o)
        if probs and probs[0][0] == "__other_error__":
            if case["worker"] == "debug":
                raise CheckerError(f"case {key} failed for an unrelated reason: {probs[0][1]}")
            # pool worker: an unrelated failure of the process pool says nothing about the property
            ctx.note(f"inconclusive (not counted): {key}: {probs[0][1][:160]}")
            continue
        dom.case(key, nontrivial=_mutating(case), sample={k: o[k] for k in ("task", "kind", "op", "wrap", "worker", "raised", "user_value_unchanged", "job_dirs")})
        for klass, text in probs:
            ctx.fail(klass, f"C19 {text} (task={case['task']}, wrap={case['wrap']}, worker={case['worker']})", o, domain=dom)
        # sanity of the harness: under the in-process worker a mutating op must be observable
        if case["worker"] == "debug" and _mutating(case) and case["kind"] != "file-copy-mode" and not o["hash_change_error"]:
            if o["user_value_unchanged"] and o["task_value_unchanged"] and all(o["files_unchanged"]):
                raise CheckerError(f"case {key}: the mutating operation had no observable effect (harness error)")


# --------------------------------------------------------------------------- two submissions in one process

HIST_WRAPS = ("split", "workflow")
HIST_WORKERS = (("debug", "debug"), ("debug", "cf"))


def observe_history(wrap, kind, first_worker, second_worker):
    """an in-process (debug) run whose task modifies its input in place -- reported -- followed, in the SAME process,
    by a submission of an equal task built from FRESH values: the second run must work on the values it was given"""
    op = next(o for o, (kinds, _f, m) in OPS.items() if m and (kinds == "*" or kind in kinds))
    tmp = Path(tempfile.mkdtemp(prefix="vf_c19h_"))
    cwd0 = os.getcwd()
    from pydra.engine.workflow import Workflow

    Workflow.clear_cache()
    try:
        def make():
            v0 = VALUES[kind](tmp)
            if wrap == "split":
                vals = [v0, SPLIT_SECOND[kind]()]
                return MutAny(op=op).split(v=vals), [MutAny(v=v, op=op)._checksum for v in vals], vals
            return WrapAny(v=v0, op=op), [MutAny(v=v0, op=op)._checksum], v0

        obs = {"history": True, "wrap": wrap, "kind": kind, "op": op, "workers": [first_worker, second_worker], "runs": []}
        for i, w in enumerate((first_worker, second_worker)):
            task, expected, given = make()
            before = snap(given)
            cache = tmp / f"cache{i}"
            exc = None
            try:
                _submit(task, cache, w)
            except BaseException as e:  # noqa
                exc = e
            dirs = sorted(p.name for p in cache.iterdir() if p.is_dir() and p.name.startswith("python-")) if cache.exists() else []
            obs["runs"].append({"worker": w, "raised": None if exc is None else type(exc).__name__, "reported": bool(exc is not None and "hashes have changed" in str(exc)), "expected_dirs": expected, "job_dirs": dirs, "given_values_unchanged": snap(given) == before})
        return obs
    finally:
        os.chdir(cwd0)
        shutil.rmtree(tmp, ignore_errors=True)


def history_problems(o):
    bad = []
    for i, r in enumerate(o["runs"]):
        which = "first" if i == 0 else "second"
        if not set(r["job_dirs"]) <= set(r["expected_dirs"]):
            bad.append((None, f"{which} run ({r['worker']}): job directories {r['job_dirs']} are not those of the values the task was given ({r['expected_dirs']})"))
        if not r["reported"]:
            bad.append((None, f"{which} run ({r['worker']}): the in-place {o['op']} of the {o['kind']} input was not reported (raised: {r['raised']})"))
    return bad


def _observe_history_safe(a):
    import traceback

    try:
        return observe_history(*a)
    except Exception as e:  # noqa
        return {"harness_crash": f"{type(e).__name__}: {e}\n{traceback.format_exc()[-800:]}"}


def _pool_init():
    import logging
    from vf.core import assert_repo_import

    assert_repo_import()
    logging.getLogger("pydra").setLevel(logging.CRITICAL)
    warnings.simplefilter("ignore")


def _observe_safe(case):
    import traceback

    try:
        o = observe(case)
        if o.get("other_error") and case["worker"] != "debug":
            o = observe(case)  # one retry: process-pool start-up problems under load
        return o
    except Exception as e:  # noqa
        return {"harness_crash": f"{type(e).__name__}: {e}\n{traceback.format_exc()[-800:]}"}


def replay(rec):
    case = rec["case"]
    if case.get("history"):
        o = observe_history(case["wrap"], case["kind"], *case["workers"])
        bad = history_problems(o)
        print(f"replay C19 history: {o}\n  problems: {bad}")
        if bad:
            print(f"VIOLATION property=C19 replay={rec.get('_path', '')}")
            return 1
        return 0
    c = {k: case[k] for k in ("group", "task", "kind", "op", "wrap", "worker")}
    o = observe(c)
    probs = [p for p in problems(o) if p[0] != "__other_error__"]
    print(f"replay C19: case={c} raised={o['raised']} user_unchanged={o['user_value_unchanged']} task_unchanged={o['task_value_unchanged']} files_unchanged={o['files_unchanged']} dirs={o['job_dirs']} problems={probs}")
    if probs:
        print(f"VIOLATION property=C19 replay={rec.get('_path', '')}")
        return 1
    return 0
