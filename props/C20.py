"""C20 — accepted field values conform to the declared type (engine B only).

For every declared type T of the grammar (spec/typing_ref.grammar: depth <= 2 over
{int, float, str, bool, bytes, Path, fileformats.generic.File, None} with Optional / Union /
list / tuple[X, Y] / tuple[X, ...] / dict / set / MultiInputObj) and every value v drawn from T,
from T's neighbour types (near misses) and from a general pool:

  (a) TypeParser(T)(v)                      -- the real coercion function
  (b) Task(x=v) and task.x = v              -- a real python task with an input declared `x: T`
                                               (attrs converter made by make_converter)
either REJECT v right there (raise), or ACCEPT it and then the stored value c
  * conforms(c, T)             (independent structural checker, element types included)
  * strseq_violation(v, c) is None   (no str split into a container, no container joined into a str)
  * coercing c again returns c (same value AND same Python types).
(c) for a sample, the task holding an accepted value is executed: nothing is rejected at run time.

Why no engine D: the functions reflect on `typing` objects (get_origin, issubclass on ABCs).
"""

from __future__ import annotations

import multiprocessing as mp
import os
import random
import shutil
import tempfile
import typing as ty
from collections import Counter

import spec.typing_ref as R

PID = "C20"
_G = {}  # state inherited by forked workers


class CountedKeys:
    """stand-in for Domain.keys when cases are distinct BY CONSTRUCTION (unique type name x
    de-duplicated values) and are evaluated in worker processes: keeps the count only"""

    def __init__(self):
        self.n = 0

    def add(self, _):
        self.n += 1

    def __len__(self):
        return self.n


def norm(s, env):
    return str(s).replace(str(env.root), "<ROOT>")


def vrepr(v, env):
    return norm(repr(R.vkey(v)), env)


def candidates(T, env, pool, seed, n_pool, n_near=None):
    """values tried against T: values of T, values of T's neighbour types (near misses), and
    the general pool (all of them if the cap is None, else a per-type deterministic sample)"""
    inside = R.values_of(T, env, 3)
    near = R.dedupe([v for nb in R.neighbours(T) for v in R.values_of(nb, env, 2)])
    rnd = random.Random(f"{seed}:{R.tname(T)}")
    if n_near is not None and n_near < len(near):
        near = rnd.sample(near, n_near)
    if n_pool is None or n_pool >= len(pool):
        extra = pool
    else:
        extra = rnd.sample(pool, n_pool)
    return R.dedupe(inside + near + extra)


def _ident(x):
    return x


def make_task_class(T):
    from pydra.compose import python

    return python.define(_ident, inputs={"x": python.arg(type=T)}, outputs={"out": ty.Any}, name="TypedField")


def classify(kind, detail, T=None):
    """finding class (narrow predicate) of a failing case; None = unclassified"""
    if kind == "strseq":
        what, v, c = detail
        if what == "str-split":
            if isinstance(c, (set, frozenset)):
                return "str-split-into-set"  # a str at a position typed set[...] became the set of its characters
            if isinstance(c, dict):
                return "str-split-into-dict"
            return "str-split-into-sequence"
        if isinstance(v, (set, frozenset)):
            return "set-stringified-into-str"  # a set at a position typed str became its repr()
        if isinstance(v, dict):
            return "dict-stringified-into-str"
        return "sequence-joined-into-str"
    if kind == "not-idempotent":
        c, c2 = detail
        diffs = R.diff_positions(c, c2, T)
        if diffs and all(_migrated(d) for d in diffs):
            return "union-value-migrates-to-earlier-member"
        return None
    if kind == "recoerce-raises":
        c, exc = detail
        if exc == "FileNotFoundError":
            File = R.atoms()[-1]
            for U, part in R.union_parts(c, T):
                j = R.first_member(part, U)
                if j and any(R.contains_atom(m, File) for m in R.targs(U)[:j]):
                    return "union-earlier-file-member-raises"
        return None
    return None


def _migrated(d):
    """the differing part sits at a Union node; before re-coercion it conformed (first) to a
    later member, afterwards to an earlier one"""
    k, U, part, part2 = d
    if k != "union":
        return False
    j, i = R.first_member(part, U), R.first_member(part2, U)
    return i is not None and j is not None and i < j


def check_accept(T, v, c, again, env, path):
    """postcondition on an accepted value.  `again` re-coerces.  yields (klass, what, extra)"""
    out = []
    tn = R.tname(T)
    if not R.conforms(c, T):
        out.append((classify("nonconforming", (v, c)), f"{path}: {tn} accepted {v!r} and stored {c!r}, which does not conform to {tn}", {"kind": "nonconforming"}))
    bad = R.strseq_violation(v, c)
    if bad is not None:
        out.append((classify("strseq", bad), f"{path}: {tn} accepted {v!r} as {c!r}: {bad[0]} ({bad[1]!r} -> {bad[2]!r})", {"kind": bad[0]}))
    try:
        c2 = again(c)
    except Exception as e:  # noqa: BLE001
        out.append(
            (
                classify("recoerce-raises", (c, type(e).__name__), T),
                f"{path}: {tn} accepted {v!r} as {c!r} but rejects its own result: {type(e).__name__}",
                {"kind": "recoerce-raises"},
            )
        )
    else:
        if not R.same_value(c2, c):
            out.append(
                (
                    classify("not-idempotent", (c, c2), T),
                    f"{path}: {tn} coerces {v!r} to {c!r} and that again to {c2!r} (not idempotent)",
                    {"kind": "not-idempotent"},
                )
            )
    return out


def check_value(T, v, parser, klass_, env, paths=("construct", "setattr")):
    """run the three real paths on (T, v).  returns (failures, accepted_parser, accepted_field, exc_names)"""
    fails, excs = [], []
    acc_p = acc_f = False
    # (a) the plain TypeParser
    try:
        c = parser(v)
    except TypeError:
        pass
    except Exception as e:  # noqa: BLE001  rejection with another exception type is still a rejection
        excs.append(("parser", type(e).__name__))
    else:
        acc_p = True
        for k, w, x in check_accept(T, v, c, parser, env, "TypeParser"):
            fails.append((k, w, dict(x, path="parser", got=norm(repr(c), env))))
    # (b) a real task field: construction and assignment
    if klass_ is not None:
        for path in paths:
            try:
                if path == "construct":
                    t = klass_(x=v)
                else:
                    t = klass_()  # mandatory input left unset: allowed at construction
                    t.x = v
            except TypeError:
                continue
            except Exception as e:  # noqa: BLE001
                excs.append((path, type(e).__name__))
                continue
            acc_f = True
            c = t.x

            def again(val, t=t):
                t.x = val
                return t.x

            for k, w, x in check_accept(T, v, c, again, env, f"task field ({path})"):
                fails.append((k, w, dict(x, path=path, got=norm(repr(c), env))))
    return fails, acc_p, acc_f, excs


def _work(arg):
    """one worker: types[i] for i = start, start+step, ..."""
    from pydra.utils.typing import TypeParser

    start, step = arg
    types, env, pool, seed = _G["types"], _G["env"], _G["pool"], _G["seed"]
    n_pool_deep, n_near_deep, n_pool_shallow = _G["n_pool_deep"], _G["n_near_deep"], _G["n_pool_shallow"]
    res = {"evals": 0, "acc_p": 0, "acc_f": 0, "fails": [], "excs": Counter(), "samples": [], "types": 0}
    for i in range(start, len(types), step):
        T = types[i]
        tn = R.tname(T)
        deep = R.depth(T) >= 2
        vals = candidates(T, env, pool, seed, n_pool_deep if deep else n_pool_shallow, n_near_deep if deep else None)
        parser = TypeParser(T)
        kl = make_task_class(T)
        # construction and setattr share the converter; the attrs plumbing does not depend on T
        paths = ("construct",) if deep else ("construct", "setattr")
        res["types"] += 1
        for v in vals:
            fails, ap, af, excs = check_value(T, v, parser, kl, env, paths)
            res["evals"] += 1
            res["acc_p"] += ap
            res["acc_f"] += af
            for e in excs:
                res["excs"][e] += 1
            for k, w, x in fails:
                res["fails"].append((k, norm(w, env)[:500], dict(x, type=tn, value=vrepr(v, env))))
            if ap and len(res["samples"]) < 2 and R.depth(T) == 2 and not R.conforms(v, T):
                res["samples"].append({"type": tn, "value": norm(repr(v), env), "coerced": norm(repr(parser(v)), env)})
    return res


def stateless_domain(ctx):
    """The converter of a task field is created once per task CLASS and shared by every instance:
    what it accepts and stores must not depend on what it was asked before.  For every depth <= 1 type T:
    record TypeParser(T)(v) for the value pool on a fresh parser; then use ONE parser for a history of
    static checks check_type(S) over all depth <= 1 types S (accepted or rejected) and of coercions of
    the pool; replaying the pool afterwards must give exactly the recorded outcomes."""
    import pickle

    from pydra.utils.typing import TypeParser

    root = tempfile.mkdtemp(prefix="vf_c20s_")
    try:
        env = R.Env(root)
        types = [t for t in R.grammar(1)]
        pool = R.general_pool(env)[: ctx.pick(40, 120)]
        dom = ctx.domain(
            "converter-is-stateless",
            bound=f"{len(types)} depth <= 1 types x history [check_type(S) for all {len(types)} depth <= 1 types S; coerce {len(pool)} pool values] on one shared TypeParser, compared with a fresh parser per value",
            rule="one case per type; non-trivial = at least one static check was rejected during the history",
            exhaustive=True,
        )

        def outcome(parser, v):
            try:
                c = parser(v)
                return ("ok", type(c).__name__, norm(repr(c), env))
            except Exception as e:  # noqa
                return ("rej", type(e).__name__, "")

        for T in types:
            fresh = [outcome(TypeParser(T), v) for v in pool]
            shared = TypeParser(T)
            rejected = 0
            for S in types:
                try:
                    shared.check_type(S)
                except Exception:  # noqa
                    rejected += 1
            for v in pool:
                outcome(shared, v)
            after = [outcome(shared, v) for v in pool]
            dom.case(R.tname(T), nontrivial=rejected > 0, sample={"type": R.tname(T), "rejected_static_checks": rejected, "pool": len(pool)})
            bad = [i for i, (a, b) in enumerate(zip(fresh, after)) if a != b]
            if bad:
                i = bad[0]
                ctx.fail(
                    None,
                    f"TypeParser({R.tname(T)}) answers differently after a history of static checks: value {norm(repr(pool[i]), env)} fresh={fresh[i]} after-history={after[i]} ({len(bad)} of {len(pool)} values differ)",
                    {"kind": "stateful-converter", "type": R.tname(T), "value": norm(repr(pool[i]), env), "fresh": fresh[i], "after": after[i]},
                    domain=dom,
                )
    finally:
        shutil.rmtree(root, ignore_errors=True)


def deductive(ctx):
    """engine D: on every path of the real TypeParser.__call__ a plain value is accepted only as the value self.coerce(obj)
    returned; a TypeError of coerce leaves as a TypeError (rejected when assigned) -- contracts/typeparser_call.py:contract_c20"""
    from contracts import typeparser_call as TC
    from pyvc.verify import verify, summarize

    summarize(ctx, verify(ctx, TC.contract_c20()))


def run(ctx):
    deductive(ctx)
    stateless_domain(ctx)
    _run_main(ctx)


def _run_main(ctx):
    from vf.core import json_safe

    ctx.level = "other"
    ctx.explanation = (
        "bounded contract check of the real TypeParser.__call__/coerce and of real python-task fields "
        "(make_converter + attrs converter on construction and on setattr): every accepted value is stored as a "
        "value that conforms to the declared type (independent structural checker), is a fixed point of the "
        "coercion, and was neither split from a str nor joined into one; everything else is rejected at "
        "construction/assignment; a sample of tasks holding accepted values is executed to confirm nothing is "
        "rejected at run time.  Type grammar and value sets are stated in bounded_domains; no deductive part "
        "(the code reflects on typing objects)."
    )
    root = tempfile.mkdtemp(prefix="vf_c20_")
    old_hc = os.environ.get("PYDRA_HASH_CACHE")
    os.environ["PYDRA_HASH_CACHE"] = os.path.join(root, "hashcache")  # keep pydra's persistent file-hash store out of $HOME
    try:
        env = R.Env(root)
        full = ctx.thorough
        types = R.grammar(2, binary_other=R.atoms())
        n_quickgrammar = len(types)
        n_rest = 0
        if full:
            have = {R.tname(t) for t in types}
            rest = [t for t in R.grammar(2) if R.tname(t) not in have]
            n_rest = len(rest)
            types = types + random.Random(ctx.seed).sample(rest, min(20000, len(rest)))
        pool = R.general_pool(env)
        n_pool_deep = ctx.pick(4, 6)
        n_near_deep = ctx.pick(6, 12)
        n_pool_shallow = ctx.pick(60, None)
        _G.update(types=types, env=env, pool=pool, seed=ctx.seed, n_pool_deep=n_pool_deep, n_near_deep=n_near_deep, n_pool_shallow=n_pool_shallow)
        nproc = min(ctx.pick(8, 16), os.cpu_count() or 1)
        bound = (
            f"{len(types)} declared types: every well-formed type of nesting depth <= 2 over atoms "
            "{int,float,str,bool,bytes,Path,fileformats.generic.File} with Optional/Union (both member orders)/list/"
            "tuple[X,Y]/tuple[X,...]/dict/set/MultiInputObj, set elements and dict keys restricted to hashable types"
            + f"; all {n_quickgrammar} types in which the depth-2 binary constructors (Union, tuple[X,Y], dict) pair one component of depth <= 1 with one ATOM (both orders)"
            + (f", plus {len(types) - n_quickgrammar} of the remaining {n_rest} depth-2 types (both components of depth 1) sampled with seed {ctx.seed}" if full else "")
            + f"; values per type: values_of(T) (container lengths 0..3) + values of T's one-edit neighbour types (other atom / other container kind / other arity) "
            f"+ general pool of {len(pool)} values; depth <= 1 types: all values_of(T), all neighbour values, {'the whole pool' if n_pool_shallow is None else str(n_pool_shallow) + ' pool values'}; "
            f"depth-2 types: all values_of(T) + {n_near_deep} neighbour values + {n_pool_deep} pool values; samples are per type, seed {ctx.seed}"
        )
        exhaustive = False  # the pool is sampled for depth-2 types
        dom_p = ctx.domain(
            "TypeParser(T)(v)",
            bound=bound,
            rule="one case per (type name, de-duplicated value); distinct by construction; non-trivial = the value was ACCEPTED, so conformance / idempotence / no-str-split were evaluated on a returned value",
            exhaustive=exhaustive,
        )
        dom_f = ctx.domain(
            "python task field x: T (construct + setattr)",
            bound=bound + "; each type is declared as the input of a real python.define task",
            rule="same cases, through Task(x=v) and (for the depth <= 1 types) also task.x = v on an instance whose x was unset; non-trivial = accepted by at least one of the two",
            exhaustive=exhaustive,
        )
        dom_p.keys = CountedKeys()
        dom_f.keys = CountedKeys()
        mpctx = mp.get_context("fork")
        with mpctx.Pool(nproc) as pl:
            results = pl.map(_work, [(i, nproc) for i in range(nproc)], chunksize=1)
        excs = Counter()
        ntypes = 0
        for r in results:
            ntypes += r["types"]
            dom_p.evaluations += r["evals"]
            dom_f.evaluations += r["evals"]
            dom_p.keys.n += r["acc_p"]
            dom_f.keys.n += r["acc_f"]
            excs.update(r["excs"])
            for s in r["samples"]:
                if len(dom_p.samples) < 3:
                    dom_p.samples.append(json_safe(s))
            for k, w, case in r["fails"]:
                ctx.fail(k, w, case, domain=dom_p if case["path"] == "parser" else dom_f)
        if ntypes != len(types):
            from vf.core import CheckerError

            raise CheckerError(f"workers covered {ntypes} of {len(types)} types")
        if excs:
            ctx.note(
                "rejections by an exception other than TypeError (counted as rejection at assignment, which is all the property asks): "
                + ", ".join(f"{p}:{n}={c}" for (p, n), c in sorted(excs.items()))
            )
        run_sample(ctx, env)
    finally:
        if old_hc is None:
            os.environ.pop("PYDRA_HASH_CACHE", None)
        else:
            os.environ["PYDRA_HASH_CACHE"] = old_hc
        shutil.rmtree(root, ignore_errors=True)


def run_sample(ctx, env):
    """(c) values accepted at construction are not rejected when the task runs"""
    from pydra.utils.typing import TypeParser  # noqa: F401

    types = R.grammar(1)
    if not ctx.thorough:
        types = types[:: 3]
    dom = ctx.domain(
        "run a task holding an accepted value",
        bound=f"{len(types)} types of depth <= 1 ({'all' if ctx.thorough else 'every third'}), per type the first accepted value from T and the first accepted value from outside T; debug worker, fresh cache dir",
        rule="one case per (type, value); non-trivial always (the task body runs)",
        exhaustive=False,
    )
    from pydra.utils.hash import hash_function

    pool = _G["pool"]
    unhashable = []
    cache = tempfile.mkdtemp(prefix="vf_c20run_")
    try:
        for T in types:
            kl = make_task_class(T)
            picked = []
            for group in (R.values_of(T, env, 3), [v for v in candidates(T, env, pool, ctx.seed, 40) if not R.conforms(v, T)]):
                for v in group[:80]:
                    try:
                        t = kl(x=v)
                    except Exception:  # noqa: BLE001
                        continue
                    picked.append((v, t))
                    break
            for v, t in picked:
                tn = R.tname(T)
                dom.case((tn, vrepr(v, env)), sample={"type": tn, "value": norm(repr(v), env), "stored": norm(repr(t.x), env)})
                stored = t.x
                try:
                    hash_function(stored)
                except Exception as e:  # noqa: BLE001
                    unhashable.append(f"{tn}:{type(e).__name__}")
                    continue
                try:
                    out = t(cache_root=cache).out
                except Exception as e:  # noqa: BLE001
                    ctx.fail(
                        None,
                        f"{tn} accepted {v!r} at construction (stored {stored!r}) but running the task raised {type(e).__name__}: {str(e)[:200]}",
                        {"type": tn, "value": vrepr(v, env), "path": "run", "kind": "rejected-at-run"},
                        domain=dom,
                    )
                    continue
                if not R.same_value(out, stored):
                    ctx.fail(
                        None,
                        f"{tn}: task ran with x={stored!r} but the body saw/returned {out!r}",
                        {"type": tn, "value": vrepr(v, env), "path": "run", "kind": "changed-at-run"},
                        domain=dom,
                    )
    finally:
        shutil.rmtree(cache, ignore_errors=True)
    if unhashable:
        ctx.note(
            "run sample: stored values that pydra's own hash_function cannot hash were not executed (a hashing matter, not a typing one; "
            "they are counted as cases but not as failures): " + ", ".join(unhashable[:12])
        )


def find_value(T, key, env):
    pool = R.general_pool(env)
    for v in candidates(T, env, pool, 0, None):
        if vrepr(v, env) == key:
            return v
    return None


def replay(rec):
    if rec.get("case", {}).get("kind") == "stateful-converter":
        from vf.core import Ctx

        c = Ctx("C20")
        stateless_domain(c)
        print(f"replay C20 stateless domain: {len(c.violations)} failing type(s)")
        return 1 if c.violations else 0
    return _replay_main(rec)


def _replay_main(rec):
    from pydra.utils.typing import TypeParser

    case = rec["case"]
    root = tempfile.mkdtemp(prefix="vf_c20_")
    os.environ["PYDRA_HASH_CACHE"] = os.path.join(root, "hashcache")
    try:
        env = R.Env(root)
        T = R.parse_tname(case["type"])
        v = find_value(T, case["value"], env)
        if v is None:
            print(f"replay C20: value {case['value']} for {case['type']} not found in the generators")
            return 3
        _G.setdefault("pool", R.general_pool(env))
        if case.get("path") == "run":
            t = make_task_class(T)(x=v)
            stored = t.x
            try:
                out = t(cache_root=root + "/cache").out
                bad = not R.same_value(out, stored)
                print(f"replay C20: {case['type']} x={v!r} stored {stored!r} ran -> {out!r}")
            except Exception as e:  # noqa: BLE001
                bad = True
                print(f"replay C20: {case['type']} x={v!r} stored {stored!r}; run raised {type(e).__name__}: {e}")
        else:
            fails, ap, af, excs = check_value(T, v, TypeParser(T), make_task_class(T), env)
            for k, w, x in fails:
                print(f"replay C20: [{k}] {norm(w, env)}")
            if not fails:
                print(f"replay C20: {case['type']} with {v!r}: accepted by parser={ap} field={af}, all postconditions hold")
            bad = any(x["kind"] == case.get("kind") and x["path"] == case.get("path") for _, _, x in fails) or (bool(fails) and "kind" not in case)
        if bad:
            print(f"VIOLATION property=C20 replay={rec.get('_path', '')}")
            return 1
        return 0
    finally:
        shutil.rmtree(root, ignore_errors=True)
