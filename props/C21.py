"""C21 — accepted lazy connections are honoured at run time (engine B only).

Static side : TypeParser(T).check_type(S) with the default superclass_auto_cast=False — the
              check a lazy connection S -> T has to pass "without relying on permissive
              super-to-sub-class casting" (TypeParser.__call__ on a LazyField calls exactly this
              first; the permissive fallback is only tried after it raised).
Runtime side: every generated value v of type S (spec/typing_ref.values_of) is given to
              (a) TypeParser(T)(v) and (b) the converter a real task field of type T gets from
              make_converter (what the downstream node's input runs when the workflow executes).
Contract    : static accepted  ==>  neither (a) nor (b) raises, except where a fixed-length
              tuple in T meets a part of v of another length (spec: arity_mismatch).
Additionally a sample of accepted pairs is executed end to end as a two-node workflow, and
StateArray[S] / StateArray values (split upstream nodes) are checked for the depth <= 1 pairs.
"""

from __future__ import annotations

import multiprocessing as mp
import os
import random
import shutil
import tempfile
import typing as ty
from collections import Counter
from pathlib import Path

import spec.typing_ref as R
from props.C20 import CountedKeys, norm, vrepr

_G = {}


def static_ok(T, S):
    from pydra.utils.typing import TypeParser

    try:
        TypeParser(T).check_type(S)
    except TypeError:
        return False
    return True


def field_converter(T):
    from pydra.compose.base.builder import make_converter
    from pydra.compose.base.field import Arg

    return make_converter(Arg(name="x", type=T), "Downstream")


def classify(v, T, plain_exc, field_exc):
    """narrow class predicate of a failing (v, T): which part of the value meets which part of T"""
    File = R.atoms()[-1]
    al = R.aligned_atoms(v, T)
    if any(t is bytes and isinstance(p, (list, tuple, set, frozenset)) for t, p in al):
        # a (parametrised) sequence/set type was statically accepted for a `bytes` target: the element
        # type is never looked at, bytes(seq) only works for ints in 0..255
        return "sequence-into-bytes"
    if any(t is File and isinstance(p, (str, os.PathLike)) and not isinstance(p, File) and not Path(p).is_file() for t, p in al):
        # str / Path statically accepted for a File target; the value does not name an existing file
        return "path-to-missing-file"
    if (
        "FileNotFoundError" in (plain_exc, field_exc)
        and R.kind(T) != "atom"
        and any(
            t is File and isinstance(p, (list, tuple)) and p and all(isinstance(x, os.PathLike) for x in p) and not all(Path(x).is_file() for x in p)
            for t, p in al
        )
    ):
        # a list/tuple of paths reaches a File member of a Union (or File element of a MultiInputObj) before the
        # member it was meant for: File(paths) raises FileNotFoundError, which coerce_union does not catch
        return "path-sequence-captured-by-file-member"
    if "FileNotFoundError" in (plain_exc, field_exc):
        for U, part in R.union_parts(v, T):
            ms = R.targs(U)
            if isinstance(part, str) and any(R.kind(m) == "set" and R.contains_atom(m, File) for m in ms[:-1]):
                # the str belongs to a later union member, but an earlier set[...File...] member iterates it
                # into characters (str -> Set is coercible) and File(char) raises FileNotFoundError
                return "str-iterated-into-earlier-set-of-file-member"
    if plain_exc is None and field_exc is not None and R.tname(T) == "MultiInputObj[File]" and not isinstance(v, list):
        # make_converter puts ensure_list in front of the TypeParser for exactly this field type;
        # ensure_list wraps a tuple / set / dict whole
        return "non-list-into-MultiInputFile-field"
    return None


def related_sources(T, g1, seed, n2, n1):
    """source types tried against target T: T itself, Optional/Union widenings, every one-edit
    neighbour, a sample of two-edit neighbours and a sample of the depth <= 1 types"""
    rnd = random.Random(f"{seed}:{R.tname(T)}")
    out = [T]
    nb = R.neighbours(T)
    out += nb
    if R.depth(T) <= 1:
        if R.kind(T) != "union":
            out.append(ty.Union[T, None])
            out.append(ty.Union[T, int] if T is not int else ty.Union[T, str])
        for k in ("list", "vtuple", "set", "mio"):
            t = R.build(k, [T])
            if R.well_formed(t):
                out.append(t)
    nb2 = []
    for x in rnd.sample(nb, min(len(nb), 6)):
        nb2 += R.neighbours(x)
    out += rnd.sample(nb2, min(len(nb2), n2))
    out += rnd.sample(g1, min(len(g1), n1))
    seen, res = set(), []
    for s in out:
        try:
            if R.depth(s) > 2 or not R.well_formed(s):
                continue
        except ValueError:
            continue
        n = R.tname(s)
        if n not in seen:
            seen.add(n)
            res.append(s)
    return res


def check_pair(S, T, env, res, width=3):
    """static check, then every value of S through both runtime paths"""
    from pydra.utils.typing import TypeParser

    res["pairs"] += 1
    if not static_ok(T, S):
        return
    res["accepted"] += 1
    P, F = TypeParser(T), field_converter(T)
    sn, tn = R.tname(S), R.tname(T)
    for v in R.values_of(S, env, width):
        res["evals"] += 1
        pe = fe = None
        try:
            P(v)
        except Exception as e:  # noqa: BLE001
            pe = type(e).__name__
        try:
            F(v)
        except Exception as e:  # noqa: BLE001
            fe = type(e).__name__
        if pe is None and fe is None:
            if len(res["samples"]) < 2 and sn != tn and R.depth(T) >= 1:
                res["samples"].append({"S": sn, "T": tn, "value": norm(repr(v), env), "accepted": True})
            continue
        if R.arity_mismatch(v, T):
            res["exempt"] += 1
            continue
        k = classify(v, T, pe, fe)
        res["fails"].append(
            (
                k,
                norm(f"connection {sn} -> {tn} passes TypeParser({tn}).check_type({sn}) but the runtime value {v!r} is rejected: TypeParser -> {pe or 'accepted'}, task-field converter -> {fe or 'accepted'}", env)[:600],
                {"S": sn, "T": tn, "value": vrepr(v, env), "plain": pe, "field": fe},
            )
        )


def _lazy(S):
    from pydra.engine.lazy import LazyOutField

    return LazyOutField(node=None, field="out", type=S)


def _accepts(conv, lf):
    try:
        conv(lf)
    except TypeError:
        return False
    return True


HISTORIES = ("fresh", "after-accepted-by-its-own-type", "after-accepted-by-Any", "after-a-rejected-connection", "copy-of-an-accepted-field")


def lazy_with_history(S, hist):
    """the lazy output field of type S a workflow constructor holds after an earlier use of the SAME object"""
    from pydra.utils.typing import TypeParser
    import attrs

    lf = _lazy(S)
    if hist == "after-accepted-by-its-own-type":
        TypeParser(S)(lf)
    elif hist == "after-accepted-by-Any":
        TypeParser(ty.Any)(lf)
    elif hist == "after-a-rejected-connection":
        _accepts(TypeParser(_Unrelated), lf)
    elif hist == "copy-of-an-accepted-field":
        TypeParser(S)(lf)
        lf = attrs.evolve(lf)
    return lf


class _Unrelated:
    pass


def check_lazy_history(S, T, res):
    """what the converter of an input of type T answers for a lazy field of type S must be the static check
    TypeParser(T).check_type(S) -- for the strict parser exactly, for the task-field converter (which adds the
    permissive super-to-sub rule) the same answer as for a fresh field -- whatever happened to the field before"""
    from pydra.utils.typing import TypeParser

    P, F = TypeParser(T), field_converter(T)
    st = static_ok(T, S)
    fresh_field = _accepts(F, _lazy(S))
    sn, tn = R.tname(S), R.tname(T)
    for hist in HISTORIES:
        res["evals"] += 1
        a = _accepts(P, lazy_with_history(S, hist))
        b = _accepts(F, lazy_with_history(S, hist))
        if a != st or b != fresh_field or (st and not b):
            res["fails"].append(
                (
                    None,
                    f"lazy field of type {sn} ({hist}) offered to an input of type {tn}: strict converter {'accepts' if a else 'rejects'} it, task-field converter {'accepts' if b else 'rejects'} it; "
                    f"static check TypeParser({tn}).check_type({sn}) {'accepts' if st else 'rejects'}, task-field converter on a fresh field {'accepts' if fresh_field else 'rejects'}",
                    {"S": sn, "T": tn, "kind": "lazy-history", "history": hist},
                )
            )
    if len(res["samples"]) < 2 and sn != tn and st:
        res["samples"].append({"S": sn, "T": tn, "static": st, "histories": list(HISTORIES)})


def _new_res():
    return {"pairs": 0, "accepted": 0, "evals": 0, "exempt": 0, "fails": [], "samples": []}


def _work(arg):
    start, step = arg
    env, seed = _G["env"], _G["seed"]
    res = _new_res()
    g1 = _G["g1"]
    # domain 1: the full square of depth <= 1 types (rows split over workers)
    r1 = _new_res()
    for i in range(start, len(g1), step):
        for S in g1:
            check_pair(S, g1[i], env, r1)
    # domain 2: depth-2 targets with related sources
    r2 = _new_res()
    targets = _G["targets"]
    for i in range(start, len(targets), step):
        T = targets[i]
        for S in related_sources(T, g1, seed, _G["n2"], _G["n1"]):
            check_pair(S, T, env, r2, width=2)
    # domain 3: the converter's answer for a lazy field is the static check, whatever the field's history
    r3 = _new_res()
    for i in range(start, len(g1), step):
        for S in g1:
            r3["pairs"] += 1
            check_lazy_history(S, g1[i], r3)
    res["d1"], res["d2"], res["d3"] = r1, r2, r3
    return res


def deductive(ctx):
    """engine D: TypeParser.__call__ accepts a lazy field only on a path on which check_type(obj._type) passed (or, with
    superclass_auto_cast, the permissive reverse check passed)"""
    from contracts import typeparser_call as TC
    from pyvc.verify import verify, summarize

    summarize(ctx, verify(ctx, TC.contract()))


def run(ctx):
    from vf.core import json_safe

    deductive(ctx)
    ctx.level = "other"
    ctx.explanation = (
        "bounded contract check relating the real static connection check TypeParser(T).check_type(S) "
        "(superclass_auto_cast off) to the real runtime coercion (TypeParser(T)(v) and the make_converter "
        "converter of a task field of type T): for every statically accepted pair every generated value of S "
        "must be accepted at run time, fixed-length tuple arity aside; plus StateArray-wrapped types/values and "
        "a sample of accepted pairs executed end to end as a two-node workflow.  Deductive part: TypeParser.__call__ accepts a lazy field only on a path on which check_type passed."
    )
    root = tempfile.mkdtemp(prefix="vf_c21_")
    old_hc = os.environ.get("PYDRA_HASH_CACHE")
    os.environ["PYDRA_HASH_CACHE"] = os.path.join(root, "hashcache")
    try:
        env = R.Env(root)
        g1 = R.grammar(1)
        gq = [t for t in R.grammar(2, binary_other=R.atoms()) if R.depth(t) == 2]
        rnd = random.Random(ctx.seed)
        if ctx.thorough:
            gfull = [t for t in R.grammar(2) if R.depth(t) == 2]
            qn = {R.tname(t) for t in gq}
            rest = [t for t in gfull if R.tname(t) not in qn]
            targets = gq + rnd.sample(rest, 6000)
            tdesc = f"all {len(gq)} depth-2 types whose outermost binary constructor pairs a depth<=1 component with an atom, plus 6000 of the remaining {len(rest)} depth-2 types sampled with seed {ctx.seed}"
        else:
            targets = rnd.sample(gq, 900)
            tdesc = f"900 of the {len(gq)} depth-2 types whose outermost binary constructor pairs a depth<=1 component with an atom, sampled with seed {ctx.seed}"
        n2, n1 = ctx.pick(8, 16), ctx.pick(8, 16)
        _G.update(env=env, seed=ctx.seed, g1=g1, targets=targets, n2=n2, n1=n1)
        dom1 = ctx.domain(
            "pairs of depth <= 1 types",
            bound=f"every ordered pair (S, T) of the {len(g1)} types of nesting depth <= 1 of the C20 grammar ({len(g1) ** 2} pairs); for each statically accepted pair every value of values_of(S) (container lengths 0..3)",
            rule="one case per (S, T, value) of a statically accepted pair; rejected pairs carry no obligation and are not counted; distinct by construction; non-trivial = not exempted by the tuple-arity clause",
            exhaustive=True,
        )
        dom2 = ctx.domain(
            "depth-2 targets x related sources",
            bound=f"targets T: {tdesc}; sources S per target: T, every one-edit neighbour of T (one atom / one container kind / arity changed, a union member alone), {n2} two-edit neighbours and {n1} depth<=1 types sampled per target; values_of(S) with 2 element values per container",
            rule="as above",
            exhaustive=False,
        )
        dom3 = ctx.domain(
            "lazy field with a history -> input converter",
            bound=f"every ordered pair (S, T) of the {len(g1)} depth<=1 types x histories of the lazy output field object {list(HISTORIES)}: strict TypeParser(T) and the make_converter converter of a task field of type T",
            rule="one case per (S, T, history); the strict converter must answer exactly TypeParser(T).check_type(S); the task-field converter must answer as for a fresh field and accept whenever the static check accepts",
            exhaustive=True,
        )
        dom1.keys, dom2.keys, dom3.keys = CountedKeys(), CountedKeys(), CountedKeys()
        nproc = min(ctx.pick(8, 16), os.cpu_count() or 1)
        with mp.get_context("fork").Pool(nproc) as pl:
            results = pl.map(_work, [(i, nproc) for i in range(nproc)], chunksize=1)
        tot = {"d1": _new_res(), "d2": _new_res(), "d3": _new_res()}
        for r in results:
            for dk, dom in (("d1", dom1), ("d2", dom2), ("d3", dom3)):
                x = r[dk]
                for f in ("pairs", "accepted", "evals", "exempt"):
                    tot[dk][f] += x[f]
                dom.evaluations += x["evals"]
                dom.keys.n += x["evals"] - x["exempt"]
                for s in x["samples"]:
                    if len(dom.samples) < 3:
                        dom.samples.append(json_safe(s))
                for k, w, case in x["fails"]:
                    ctx.fail(k, w, case, domain=dom)
        for dk, name in (("d1", "depth<=1 square"), ("d2", "depth-2 targets")):
            t = tot[dk]
            ctx.note(f"{name}: {t['pairs']} pairs checked statically, {t['accepted']} accepted, {t['evals']} runtime values, {t['exempt']} exempted by the fixed-tuple-arity clause")
        if tot["d1"]["pairs"] != len(g1) ** 2:
            from vf.core import CheckerError

            raise CheckerError("workers did not cover the depth<=1 square")
        state_arrays(ctx, env, g1)
        workflows(ctx, env, g1)
    finally:
        if old_hc is None:
            os.environ.pop("PYDRA_HASH_CACHE", None)
        else:
            os.environ["PYDRA_HASH_CACHE"] = old_hc
        shutil.rmtree(root, ignore_errors=True)


def _clean_values(S, T, env, width=3):
    """values of S that raise no known class and no arity exemption against T"""
    return [v for v in R.values_of(S, env, width) if not R.arity_mismatch(v, T) and classify(v, T, None, None) is None]


def state_arrays(ctx, env, g1):
    """an upstream node that was split has output type StateArray[S] and delivers StateArray values"""
    from pydra.utils.typing import TypeParser, StateArray

    rnd = random.Random(ctx.seed + 1)
    pairs = [(S, T) for T in g1 for S in g1 if static_ok(T, S)]
    if not ctx.thorough:
        pairs = rnd.sample(pairs, 600)
    dom = ctx.domain(
        "StateArray[S] -> T",
        bound=f"{len(pairs)} statically accepted depth<=1 pairs ({'all' if ctx.thorough else 'sampled'}); the StateArray of all values of S that are individually accepted",
        rule="one case per pair; non-trivial = at least two element values",
        exhaustive=ctx.thorough,
    )
    for S, T in pairs:
        sn, tn = R.tname(S), R.tname(T)
        P = TypeParser(T)
        vals = []
        for v in R.values_of(S, env, 3):
            try:
                P(v)
                vals.append(v)
            except Exception:  # noqa: BLE001
                pass
        dom.case((sn, tn), nontrivial=len(vals) >= 2, sample={"S": f"StateArray[{sn}]", "T": tn, "n_values": len(vals)})
        try:
            P.check_type(StateArray[S])
        except TypeError:
            # stricter on the split type than on the plain one: nothing was accepted, no obligation
            continue
        try:
            out = P(StateArray(vals))
            ok = isinstance(out, StateArray) and len(out) == len(vals)
            why = f"returned {out!r}"
        except Exception as e:  # noqa: BLE001
            ok, why = False, f"raised {type(e).__name__}"
        if not ok:
            ctx.fail(
                None,
                norm(f"StateArray[{sn}] -> {tn} accepted statically, every element value accepted alone, but the StateArray of them {why}", env),
                {"S": sn, "T": tn, "value": "StateArray(all accepted values)", "kind": "state-array"},
                domain=dom,
            )


def _up(v):
    return v


def _down(x):
    return x


_WF_SRC = """
def Wf_{tag}(v, up_cls, down_cls):
    u = workflow.add(up_cls(v=v), name="u")
    d = workflow.add(down_cls(x=u.out), name="d")  # the lazy connection S -> T is type-checked here
    return d.out
"""


def run_workflow(S, T, v, cache_root, tag="0"):
    """upstream python task with output type S returning v, downstream python task with input x: T.

    Every generated workflow gets its own constructor NAME and receives the two task classes as
    inputs: pydra identifies a workflow by its constructor's source + inputs (what a constructor
    closes over is not part of its hash), so structurally identical constructors closing over
    different task classes would share construction-cache entries."""
    from pydra.compose import python, workflow

    Up = python.define(_up, inputs={"v": python.arg(type=ty.Any)}, outputs={"out": S}, name=f"Up_{tag}")
    Down = python.define(_down, inputs={"x": python.arg(type=T)}, outputs={"out": ty.Any}, name=f"Down_{tag}")
    ns = {"workflow": workflow}
    exec(_WF_SRC.format(tag=tag), ns)  # noqa: S102  fixed template
    Wf = workflow.define(ns[f"Wf_{tag}"], inputs={"v": ty.Any, "up_cls": ty.Any, "down_cls": ty.Any}, outputs={"out": ty.Any})
    return Wf(v=v, up_cls=Up, down_cls=Down)(cache_root=cache_root).out


def workflows(ctx, env, g1):
    from pydra.utils.typing import TypeParser

    rnd = random.Random(ctx.seed + 2)
    pairs = [(S, T) for T in g1 for S in g1 if R.tname(S) != R.tname(T) and static_ok(T, S)]
    n = ctx.pick(40, 400)
    pairs = rnd.sample(pairs, min(n, len(pairs)))
    dom = ctx.domain(
        "two-node workflow Up(out: S) -> Down(x: T)",
        bound=f"up to {len(pairs)} statically accepted depth<=1 pairs with S != T sampled with seed {ctx.seed} (pairs without a usable value are skipped); one value of S per pair that is outside the reported finding classes and the arity exemption and that both field converters accept; debug worker, fresh cache root and distinct task/workflow names per case",
        rule="one case per (S, T, value); non-trivial always (both task bodies run)",
        exhaustive=False,
    )
    from pydra.utils.hash import hash_function

    cache = tempfile.mkdtemp(prefix="vf_c21wf_")
    unhashable = 0
    try:
        for i, (S, T) in enumerate(pairs):
            vals = _clean_values(S, T, env)
            if not vals:
                continue
            v = vals[rnd.randrange(len(vals))]
            sn, tn = R.tname(S), R.tname(T)
            dom.case((sn, tn, vrepr(v, env)), sample={"S": sn, "T": tn, "value": norm(repr(v), env)})
            try:
                TypeParser(S)(v)  # the upstream node must be able to emit v through its own output field
                expected = field_converter(T)(v)
            except Exception:  # noqa: BLE001  (already reported by the pair domains / by C20)
                continue
            try:
                hash_function(v)
                hash_function(expected)
            except Exception:  # noqa: BLE001  pydra cannot hash this value (e.g. dict with File keys): a hashing matter, not run
                unhashable += 1
                continue
            try:
                # a fresh cache root and distinct names per workflow (see run_workflow)
                out = run_workflow(S, T, v, os.path.join(cache, f"w{i}"), tag=str(i))
            except Exception as e:  # noqa: BLE001
                ctx.fail(
                    None,
                    norm(f"workflow Up(out: {sn}) -> Down(x: {tn}) with value {v!r}: {type(e).__name__}: {str(e)[:300]}", env),
                    {"S": sn, "T": tn, "value": vrepr(v, env), "kind": "workflow"},
                    domain=dom,
                )
                continue
            if not R.conforms(out, T):
                ctx.fail(
                    None,
                    norm(f"workflow Up(out: {sn}) -> Down(x: {tn}) with value {v!r}: downstream body saw {out!r}, which does not conform to {tn} (direct coercion gives {expected!r})", env),
                    {"S": sn, "T": tn, "value": vrepr(v, env), "kind": "workflow"},
                    domain=dom,
                )
    finally:
        shutil.rmtree(cache, ignore_errors=True)
    if unhashable:
        ctx.note(f"workflow sample: {unhashable} picked values that pydra's hash_function cannot hash were counted but not executed")


def replay(rec):
    case = rec["case"]
    root = tempfile.mkdtemp(prefix="vf_c21_")
    os.environ["PYDRA_HASH_CACHE"] = os.path.join(root, "hashcache")
    try:
        env = R.Env(root)
        S, T = R.parse_tname(case["S"]), R.parse_tname(case["T"])
        if case.get("kind") == "state-array":
            from vf.core import Ctx

            c = Ctx("C21", "quick", 0)
            c.fail = lambda *a, **k: fails.append(a)
            fails = []
            state_arrays_one = [(S, T)]
            _replay_state(c, env, state_arrays_one)
            bad = bool(fails)
            print(f"replay C21: StateArray[{case['S']}] -> {case['T']}: {'fails: ' + str(fails[0][1]) if bad else 'ok'}")
        elif case.get("kind") == "lazy-history":
            r = _new_res()
            check_lazy_history(S, T, r)
            mine = [f for f in r["fails"] if f[2]["history"] == case["history"]]
            bad = bool(mine)
            print(f"replay C21: lazy field {case['S']} ({case['history']}) -> input {case['T']}: " + (mine[0][1] if mine else "answers agree with the static check"))
        else:
            v = None
            for w in (3, 2):
                for x in R.values_of(S, env, w):
                    if vrepr(x, env) == case["value"]:
                        v = x
            if v is None:
                print(f"replay C21: value {case['value']} not found among values_of({case['S']})")
                return 3
            st = static_ok(T, S)
            if case.get("kind") == "workflow":
                try:
                    out = run_workflow(S, T, v, root + "/cache")
                    bad = not R.conforms(out, T)
                    print(f"replay C21: workflow {case['S']} -> {case['T']} value {v!r}: downstream saw {out!r}")
                except Exception as e:  # noqa: BLE001
                    bad = True
                    print(f"replay C21: workflow {case['S']} -> {case['T']} value {v!r}: {type(e).__name__}: {e}")
            else:
                r = _new_res()
                check_pair(S, T, env, r)
                mine = [f for f in r["fails"] if f[2]["value"] == case["value"]]
                bad = bool(mine)
                print(f"replay C21: check_type({case['S']}) by TypeParser({case['T']}) {'passes' if st else 'raises'}; " + (f"[{mine[0][0]}] {mine[0][1]}" if mine else f"value {v!r} accepted at run time"))
        if bad:
            print(f"VIOLATION property=C21 replay={rec.get('_path', '')}")
            return 1
        return 0
    finally:
        shutil.rmtree(root, ignore_errors=True)


def _replay_state(ctx, env, pairs):
    from pydra.utils.typing import TypeParser, StateArray

    for S, T in pairs:
        P = TypeParser(T)
        vals = []
        for v in R.values_of(S, env, 3):
            try:
                P(v)
                vals.append(v)
            except Exception:  # noqa: BLE001
                pass
        try:
            P.check_type(StateArray[S])
        except TypeError:
            continue
        try:
            out = P(StateArray(vals))
            if not (isinstance(out, StateArray) and len(out) == len(vals)):
                ctx.fail(None, f"returned {out!r}", {})
        except Exception as e:  # noqa: BLE001
            ctx.fail(None, f"raised {type(e).__name__}: {e}", {})
