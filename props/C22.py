"""C22 -- the argument vector of a shell task follows the documented field semantics.

Engine B only.  Generated `shell.define("cmd", inputs={...})` definitions x value assignments;
the REAL argv is observed where the property says it is observed: the argument vector handed to
`pydra.environments.base.execute` by the job's (native) environment, i.e.
`Job(task, submitter).environment.execute(job)` -> `ShellTask._command_args(job.inputs)`;
the oracle is `spec.shell.argv_ref` (all admissible readings of the property text / docs).

This module also holds the native harness shared with C23..C26 (`Harness`, `Runner`, `Agg`).
"""

from __future__ import annotations

import hashlib
import itertools
import multiprocessing as mp
import os
import random
import shutil
import tempfile
import time
from pathlib import Path

import spec.shell as S

NAMES = ["a", "b", "c", "d"]
POSITIONS = [None, 1, 2, -1, -2]

K_GAP = "unpositioned-fills-gap-before-positive"
K_ZERO = "zero-number-plain-argstr-dropped"


# ----------------------------------------------------------------------------- native harness


def _mk_type(kind, optional):
    from fileformats.generic import File
    from pydra.utils.typing import MultiInputObj

    t = {"bool": bool, "str": str, "int": int, "float": float, "file": File, "list": list[str], "multi": MultiInputObj[str]}[kind]
    return (t | None) if optional else t


def build_class(executable, fields):
    """the real definition: shell.define(<executable>, inputs={name: shell.arg(...)})"""
    from pydra.compose import shell

    inputs = {}
    for f in fields:
        kw = dict(type=_mk_type(f["kind"], f["optional"]), argstr=f["argstr"], position=f["position"], sep=f.get("sep", " "), help="")
        if f["optional"]:
            kw["default"] = None
        inputs[f["name"]] = shell.arg(**kw)
    return shell.define(executable if isinstance(executable, str) else list(executable), inputs=inputs)


class Harness:
    """temp cache root + debug Submitter + recorder in place of pydra.environments.base.execute"""

    def __enter__(self):
        import pydra.environments.base as EB
        from pydra.engine.submitter import Submitter

        self.tmp = Path(tempfile.mkdtemp(prefix="vf_"))
        (self.tmp / "in").mkdir()
        os.environ.setdefault("NO_ET", "1")  # Submitter() would otherwise try a network version check
        self.EB = EB
        self._old = EB.execute
        self.rec = []

        def fake(cmd, strip=False, **kw):
            self.rec.append(list(cmd))
            return (0, "", "")

        EB.execute = fake
        self.sub = Submitter(cache_root=self.tmp / "cache", worker="debug")
        return self

    def __exit__(self, *exc):
        self.EB.execute = self._old
        try:
            self.sub.close()
        except Exception:
            pass
        shutil.rmtree(self.tmp, ignore_errors=True)

    # file values are written {"__file__": name} in a case (canonical, temp-dir independent);
    # {"__dir__": name} an existing directory, {"__path__": name} a not-yet-existing path
    def decode(self, v):
        if isinstance(v, dict) and "__file__" in v:
            p = self.tmp / "in" / v["__file__"]
            if not p.exists():
                p.write_text("x")
            return p
        if isinstance(v, dict) and "__dir__" in v:
            p = self.tmp / "in" / v["__dir__"]
            p.mkdir(exist_ok=True)
            return p
        if isinstance(v, dict) and "__path__" in v:  # a path that does not exist (explicit output location)
            return self.tmp / "elsewhere" / v["__path__"]
        if isinstance(v, list):
            return [self.decode(e) for e in v]
        return v

    def observe(self, cls, values, append_args=(), with_job=False):
        """-> dict(argv=..|None, argv_error=.., cmdline=.., cmdline_error=.., values=decoded)

        argv is what the REAL native environment hands to base.execute: Native().execute(job) ->
        job.task._command_args(values=job.inputs).  Building a real Job costs ~5 ms (task checksum),
        so by default `job` is a stand-in exposing .task/.inputs/.name with inputs computed exactly as
        Job.inputs does for tasks without files to stage (attrs_values + template_update); with
        with_job=True a real Job(task, submitter) is driven as well and must give the same argv."""
        from types import SimpleNamespace
        from pydra.compose.shell.templating import template_update
        from pydra.engine.job import Job
        from pydra.environments.native import Native
        from pydra.utils.general import attrs_values

        vals = {k: self.decode(v) for k, v in values.items()}
        kwargs = {k: v for k, v in vals.items() if v is not None}
        if append_args:
            kwargs["append_args"] = list(append_args)
        out = {"values": vals, "argv": None, "argv_error": None, "cmdline": None, "cmdline_error": None, "job_route": None}
        try:
            task = cls(**kwargs)
        except Exception as e:  # noqa
            out["argv_error"] = out["cmdline_error"] = [type(e).__name__, "init: " + str(e)[:200]]
            return out
        try:
            inputs = {k: v for k, v in attrs_values(task).items() if not k.startswith("_")}
            inputs.update(template_update(task, cache_dir=self.tmp / "cache" / "stub"))
            del self.rec[:]
            Native().execute(SimpleNamespace(task=task, inputs=inputs, name="main"))
            out["argv"] = self.rec[-1]
        except Exception as e:  # noqa
            out["argv_error"] = [type(e).__name__, str(e)[:200]]
        if with_job:
            try:
                job = Job(task, submitter=self.sub, name="main")
                del self.rec[:]
                job.environment.execute(job)
                out["job_route"] = self.rec[-1]
            except Exception as e:  # noqa
                out["job_route"] = ["error", type(e).__name__, str(e)[:200]]
        try:
            out["cmdline"] = task.cmdline
        except Exception as e:  # noqa
            out["cmdline_error"] = [type(e).__name__, str(e)[:200]]
        return out


def observed_argv(o):
    return o["argv"] if o["argv_error"] is None else ["error"] + o["argv_error"]


def digest(key):
    return hashlib.blake2b(repr(key).encode(), digest_size=8).hexdigest()


def fields_key(fields):
    return tuple((f["name"], f["kind"], f["optional"], f["argstr"], f["position"], f.get("sep", " ")) for f in fields)


def freeze(v):
    if isinstance(v, list):
        return tuple(freeze(e) for e in v)
    if isinstance(v, dict):
        return tuple(sorted((k, freeze(x)) for k, x in v.items()))
    return (type(v).__name__, v)


def case_key(case):
    return (
        freeze(case["executable"]),
        fields_key(case["fields"]),
        tuple(sorted((k, freeze(v)) for k, v in case["values"].items() if v is not None)),
        tuple(case.get("append_args", ())),
    )


class Agg:
    """what a worker sends back for one chunk"""

    def __init__(self):
        self.evals = 0
        self.trivial = 0
        self.keys = []
        self.samples = []
        self.fails = {}  # klass -> [count, what, [cases<=4]]

    def case(self, key, nontrivial, sample=None):
        self.evals += 1
        if nontrivial:
            self.keys.append(digest(key))
        else:
            self.trivial += 1
        if sample is not None and len(self.samples) < 3:
            self.samples.append(sample)

    def fail(self, klass, what, case):
        ent = self.fails.setdefault(klass, [0, what, []])
        ent[0] += 1
        if len(ent[2]) < 4:
            ent[2].append((what, case))


def absorb(ctx, dom, agg, max_unknown=8):
    from vf.core import json_safe

    for k in agg.keys:
        dom.case(k, True)
    for _ in range(agg.trivial):
        dom.case(None, False)
    for s in agg.samples:
        if len(dom.samples) < 3:
            dom.samples.append(json_safe(s))
    for klass, (count, what, cases) in agg.fails.items():
        if klass and ctx.is_known(klass):
            for i in range(count):
                ctx.fail(klass, what, cases[0][1], domain=dom)
        else:
            seen = ctx.__dict__.setdefault("_unknown_seen", {})
            for w, c in cases:
                if seen.get(klass, 0) >= max_unknown:
                    break
                seen[klass] = seen.get(klass, 0) + 1
                ctx.fail(klass, f"{w} [{count} such case(s) in this chunk]", c, domain=dom)
            dom.failed += max(0, count - len(cases))


def preimport():
    """import everything the workers need BEFORE forking (children inherit the modules)"""
    import fileformats.generic  # noqa
    import pydra.compose.shell  # noqa
    import pydra.engine.job  # noqa
    import pydra.engine.submitter  # noqa
    import pydra.environments.native  # noqa
    import pydra.utils.typing  # noqa


def warmup():
    """one real case in the parent so that lazily imported plugins are loaded before forking"""
    f = dict(name="a", kind="file", optional=False, argstr="-a", position=None, sep=" ")
    with Harness() as H:
        check_definition(Agg(), "cmd", [f], [({"a": {"__file__": "w.txt"}}, ())], H, with_job=True)


class Runner:
    """one fork pool for the whole check (<= 16 processes); chunks are evaluated in order"""

    def __init__(self, ctx, procs=16):
        import gc

        preimport()
        warmup()
        self.ctx = ctx
        self.procs = max(1, min(procs, 16, os.cpu_count() or 1))
        self.pool = None
        if self.procs > 1:
            # children must not have the cyclic GC walk (and thereby copy) the inherited heap
            gc.collect()
            gc.freeze()
            self.pool = mp.get_context("fork").Pool(self.procs)
            gc.unfreeze()

    def __enter__(self):
        return self

    def __exit__(self, etype, *exc):
        if self.pool is not None:
            if etype is None:
                self.pool.close()  # workers finish (and remove their temp dirs) before exiting
            else:
                self.pool.terminate()
            self.pool.join()

    def run(self, dom, worker, chunks):
        t0 = time.time()
        chunks = (c for c in chunks if c)
        it = self.pool.imap(worker, chunks) if self.pool is not None else map(worker, chunks)
        for agg in it:
            absorb(self.ctx, dom, agg)
        self.ctx.note(f"domain {dom.name}: {dom.evaluations} evaluations in {time.time() - t0:.1f}s on {self.procs} processes")
        if os.environ.get("VF_TIMING"):
            print(f"  [timing] {dom.name}: {dom.evaluations} evals {time.time() - t0:.1f}s", flush=True)


def chunked(items, n):
    items = list(items)
    return [items[i : i + n] for i in range(0, len(items), n)]


# ----------------------------------------------------------------------------- generators


def argstr_forms(kind, n):
    if kind == "bool":
        return ["-" + n]
    scalar = ["", "-" + n, "-%s {%s}" % (n, n), "--%s={%s}" % (n, n), "{%s}" % n]
    if kind in S.SCALAR_KINDS:
        return scalar
    return ["", "-" + n, "-%s {%s}" % (n, n), "--%s={%s}" % (n, n), "-%s..." % n, "-%s {%s}..." % (n, n), "--%s={%s}..." % (n, n)]


def value_pool(f, small=False):
    n, kind = f["name"], f["kind"]
    N = n.upper()
    if kind == "bool":
        pool = [True, False]
    elif kind == "str":
        pool = [N + "1"]
    elif kind == "int":
        pool = [7] if small else [7, 0]
    elif kind == "float":
        pool = [1.5] if small else [1.5, 0.0]
    elif kind == "file":
        pool = [{"__file__": n + ".txt"}]
    elif kind == "list":
        pool = [[N + "1", N + "2"]] if small else [[N + "1"], [N + "1", N + "2"], []]
    else:
        pool = [[], [N + "1", N + "2"]] if small else [[], [N + "1"], [N + "1", N + "2"], N + "1"]
    if f["optional"]:
        pool = pool + [None]
    return pool


def field_options(n, kinds=None, full=True):
    """every (kind, optional, argstr, sep) for the field called n"""
    out = []
    for kind in kinds or ["bool", "str", "int", "float", "file", "list", "multi"]:
        for optional in (False, True):
            for argstr in argstr_forms(kind, n):
                for sep in [" ", ","] if kind in S.LIST_KINDS else [" "]:
                    out.append(dict(name=n, kind=kind, optional=optional, argstr=argstr, sep=sep))
    return out


def position_assignments(n):
    for ps in itertools.product(POSITIONS, repeat=n):
        given = [p for p in ps if p is not None]
        if len(given) == len(set(given)):
            yield ps


# ----------------------------------------------------------------------------- the contract


def n_contributing(fields, vals):
    return sum(1 for f in fields if S.contribution(f, vals.get(f["name"]))[0])


def check_definition(agg, executable, fields, assignments, H, min_contrib=1, with_job=False):
    """requires: a generated definition; ensures: real argv in argv_ref(...) for every assignment"""
    base = {"executable": executable, "fields": fields}
    try:
        cls = build_class(executable, fields)
    except Exception as e:  # noqa
        allowed = isinstance(e, ValueError) and "overlapping positions" in str(e) and S.may_reject_definition(fields)
        agg.case(("define", freeze(executable), fields_key(fields)), False, None)
        if not allowed:
            agg.fail(None, f"definition refused: {type(e).__name__}: {str(e)[:160]}", dict(base, values={}, append_args=[], got=["define-error", type(e).__name__, str(e)[:200]]))
        return
    for i, (values, append_args) in enumerate(assignments):
        case = dict(base, values=values, append_args=list(append_args))
        o = H.observe(cls, values, append_args, with_job=with_job and i == 0)
        vals = o["values"]
        if o["job_route"] is not None and o["job_route"] != observed_argv(o):
            agg.fail(None, f"a real Job hands {o['job_route']} to execute(), the stand-in job {observed_argv(o)}", dict(case, got=o["job_route"]))
        exp = S.argv_ref(executable, fields, vals, append_args)
        nontrivial = n_contributing(fields, vals) >= min_contrib
        got = observed_argv(o)
        agg.case(case_key(case), nontrivial, dict(case, argv=got))
        if got in exp:
            continue
        case["got"], case["expected_any_of"] = got, exp[:6]
        klasses = classify(executable, fields, vals, append_args, got)
        what = f"argv {got} for fields {[(f['name'], f['kind'], f['argstr'], f['position'], f['sep']) for f in fields]} values {values} append {list(append_args)}; documented: {exp[:3]}"
        if klasses is None:
            agg.fail(None, what, case)
        else:
            for k in klasses:
                agg.fail(k, what, case)


def classify(executable, fields, vals, append_args, got):
    """narrow class predicates; None = unclassified (a VIOLATION)"""
    zero = [
        f["name"]
        for f in fields
        if f["kind"] in ("int", "float") and f["argstr"] is not None and "{" not in f["argstr"] and vals.get(f["name"]) is not None and vals[f["name"]] == 0
    ]
    has_gap_shape = any(f["position"] is None for f in fields) and any((f["position"] or 0) >= 2 for f in fields)
    for use_gap, use_zero in ((True, False), (False, True), (True, True)):
        if use_gap and not has_gap_shape:
            continue
        if use_zero and not zero:
            continue
        v2 = {k: (None if (use_zero and k in zero) else v) for k, v in vals.items()}
        alts = S.argv_ref(executable, fields, v2, append_args, order=S.gapfill_order if use_gap else S.field_order)
        if got in alts:
            return ([K_GAP] if use_gap else []) + ([K_ZERO] if use_zero else [])
    return None


def _worker(chunk):
    agg = Agg()
    with Harness() as H:
        for executable, fields, assignments, with_job in chunk:
            check_definition(agg, executable, fields, assignments, H, with_job=with_job)
    return agg


def all_assignments(fields, small=False, appends=((),)):
    pools = [value_pool(f, small) for f in fields]
    out = []
    for combo in itertools.product(*pools):
        for ap in appends:
            out.append(({f["name"]: v for f, v in zip(fields, combo)}, ap))
    return out


def with_pos(opt, pos):
    return dict(opt, position=pos)


def _position_sort_ref(args):
    nonneg = sorted((e for e in args if e[0] is not None and e[0] >= 0), key=lambda e: e[0])
    neg = sorted((e for e in args if e[0] is not None and e[0] < 0), key=lambda e: e[0])
    return [e[1] for e in nonneg] + [e[1] for e in args if e[0] is None] + [e[1] for e in neg]


def deductive_ordering(ctx):
    """engine D: position_sort against its contract (loop invariants, bisect.insort trusted)"""
    from contracts import ordering as O
    from pyvc.verify import verify, summarize, concretize
    from pydra.utils.general import position_sort

    res = verify(ctx, O.position_sort_contract())

    def replay(rec):
        m = rec.get("model")
        if m is None or not res.paths:
            return None, False
        st = res.paths[0][0]
        args = concretize(m, st.env["__entry__"]["args"], st)
        args = [(p, f"v{i}") for i, (p, _) in enumerate(args)]
        pos = [p for p, _ in args if p is not None]
        if len(set(pos)) != len(pos):
            return {"args": args, "note": "model outside requires (duplicate positions)"}, False
        try:
            got = position_sort(list(args))
        except Exception as e:  # noqa
            got = f"raised {type(e).__name__}"
        exp = _position_sort_ref(args)
        return {"args": args, "got": got, "expected": exp}, got != exp

    summarize(ctx, res, replay=replay)


def run(ctx):
    ctx.level = "other"
    ctx.explanation = (
        "bounded (engine B): generated shell.define definitions x value assignments; the argv handed to the environment's "
        "execute() by the real native environment (ShellTask._command_args on the job inputs; a real Job(task, submitter) for one "
        "assignment of every k-th definition, a stand-in job object otherwise) must be one of the argument vectors admitted by "
        "spec.shell.argv_ref (property text + docs; every open reading accepted). Four domains: all single-field definitions, "
        "two-field definitions (full cross), ordering with 3-4 fields over all position assignments, random 3-4 field mixes."
    )
    deductive_ordering(ctx)
    rnd = random.Random(ctx.seed)
    job_stride = ctx.pick(10, 10)
    with Runner(ctx, procs=ctx.pick(8, 16)) as R:
        # --- A: single field, everything
        domA = ctx.domain(
            "one-field",
            bound="1 field: kind in bool/str/int/float/File/list[str]/MultiInputObj[str] x optional x every argstr form (bare, flag, '-x {x}', '--x={x}', '{x}'; lists also '-x...', '-x {x}...', '--x={x}...') "
            "x position in {None,1,2,-1,-2} x sep in {' ', ','} (lists) x executable in {'cmd', ['cmd','sub']} x append_args in {[], ['X','Y']} x all values of the pool "
            "(0 and 0.0 included, lists of 0/1/2 elements, a bare scalar for MultiInputObj, unset for optional)",
            rule="one case per (definition, value assignment); non-trivial = the documented argv has at least one argument from a field",
            exhaustive=True,
        )
        work = []
        for opt in field_options("a"):
            for pos in POSITIONS:
                f = with_pos(opt, pos)
                for exe in ("cmd", ["cmd", "sub"]):
                    work.append((exe, [f], all_assignments([f], appends=((), ("X", "Y"))), len(work) % 5 == 0))
        R.run(domA, _worker, chunked(work, 60))

        # --- B: two fields, full cross (thorough) / sampled (quick)
        optsA, optsB = field_options("a"), field_options("b")
        pos2 = list(position_assignments(2))
        total2 = len(optsA) * len(optsB) * len(pos2)
        nB = ctx.pick(1500, total2)
        domB = ctx.domain(
            "two-fields",
            bound=f"2 fields, each from the full one-field option set ({len(optsA)} options) x {len(pos2)} distinct-position pairs = {total2} definitions"
            + ("" if ctx.thorough else f"; quick tier: {nB} definitions sampled with seed {ctx.seed}")
            + "; every value assignment of the pools",
            rule="one case per (definition, value assignment); non-trivial = at least one field contributes an argument",
            exhaustive=bool(ctx.thorough),
        )

        def defsB():
            if ctx.thorough:
                for oa in optsA:
                    for ob in optsB:
                        for pa, pb in pos2:
                            yield [with_pos(oa, pa), with_pos(ob, pb)]
            else:
                seen = set()
                while len(seen) < nB:
                    t = (rnd.randrange(len(optsA)), rnd.randrange(len(optsB)), rnd.randrange(len(pos2)))
                    if t in seen:
                        continue
                    seen.add(t)
                    yield [with_pos(optsA[t[0]], pos2[t[2]][0]), with_pos(optsB[t[1]], pos2[t[2]][1])]

        def chunksB():
            buf = []
            for i, fields in enumerate(defsB()):
                buf.append(("cmd", fields, all_assignments(fields), i % job_stride == 0))
                if len(buf) >= ctx.pick(100, 400):
                    yield buf
                    buf = []
            if buf:
                yield buf

        R.run(domB, _worker, chunksB())

        # --- C: ordering, 3 and 4 fields, all position assignments
        kindsC = ctx.pick(["str"], ["str", "bool", "multi"])
        domC = ctx.domain(
            "ordering-3-4-fields",
            bound="3 fields with kinds from {optional str '-x', bool '-x', MultiInputObj '-x...'} (all 27 kind vectors) and 4 fields with kinds from "
            + str(kindsC)
            + " x every assignment of distinct positions from {None,1,2,-1,-2} (73 resp. 209) x every set/unset (True/False, []/[X1,X2]) combination",
            rule="one case per (definition, value assignment); non-trivial = at least two fields contribute (an order is observable)",
            exhaustive=True,
        )

        def optC(n, kind):
            if kind == "str":
                return dict(name=n, kind="str", optional=True, argstr="-" + n, sep=" ")
            if kind == "bool":
                return dict(name=n, kind="bool", optional=False, argstr="-" + n, sep=" ")
            return dict(name=n, kind="multi", optional=False, argstr="-%s..." % n, sep=" ")

        work = []
        for nf, kinds in ((3, ["str", "bool", "multi"]), (4, kindsC)):
            for kv in itertools.product(kinds, repeat=nf):
                for ps in position_assignments(nf):
                    fields = [with_pos(optC(NAMES[i], kv[i]), ps[i]) for i in range(nf)]
                    work.append(("cmd", fields, all_assignments(fields, small=True), len(work) % job_stride == 0))
        R.run(domC, _worker_order, chunked(work, 100))

        # --- D: random mixes of 3-4 fields with all features
        nD = ctx.pick(500, 20000)
        domD = ctx.domain(
            "random-3-4-fields",
            bound=f"{nD} random definitions (seed {ctx.seed}) of 3-4 fields from the full option set with distinct positions, executable 'cmd' or ['cmd','sub'], append_args [] or ['X','Y']; up to 12 random value assignments each",
            rule="one case per (definition, value assignment); non-trivial = at least one field contributes",
            exhaustive=False,
        )
        opts = {n: field_options(n) for n in NAMES}
        posN = {3: list(position_assignments(3)), 4: list(position_assignments(4))}
        work = []
        for i in range(nD):
            nf = rnd.choice((3, 4))
            ps = rnd.choice(posN[nf])
            fields = [with_pos(rnd.choice(opts[NAMES[j]]), ps[j]) for j in range(nf)]
            exe = rnd.choice(("cmd", ["cmd", "sub"]))
            allv = all_assignments(fields, appends=((), ("X", "Y")))
            if len(allv) > 12:
                allv = rnd.sample(allv, 12)
            work.append((exe, fields, allv, i % job_stride == 0))
        R.run(domD, _worker, chunked(work, 100))
    helpers_domain(ctx)


def helpers_domain(ctx):
    """direct contracts on the two ordering helpers (pure functions; candidates for engine D)"""
    from types import SimpleNamespace

    from pydra.compose.shell.builder import remaining_positions
    from pydra.utils.general import position_sort

    pool = [None, 0, 1, 2, 5, -1, -2, -3]
    dom = ctx.domain(
        "ordering-helpers",
        bound="position_sort: every list of <= 4 (position, label) entries with positions from {None,0,1,2,5,-1,-2,-3}, explicit positions distinct; "
        "remaining_positions: every list of <= 3 fields with positions from {None,1,2,-1,-2} (duplicates allowed) plus the executable at 0, num_args = n+1",
        rule="one case per input list; non-trivial = at least two entries",
        exhaustive=True,
    )
    for n in range(0, 5):
        for ps in itertools.product(pool, repeat=n):
            given = [p for p in ps if p is not None]
            if len(given) != len(set(given)):
                continue
            args = [(p, f"o{i}") for i, p in enumerate(ps)]
            got = position_sort(list(args))
            exp = (
                [o for p, o in sorted((a for a in args if a[0] is not None and a[0] >= 0), key=lambda a: a[0])]
                + [o for p, o in args if p is None]
                + [o for p, o in sorted((a for a in args if a[0] is not None and a[0] < 0), key=lambda a: a[0])]
            )
            dom.case(("position_sort", ps), n >= 2, {"position_sort": [list(a) for a in args], "result": got})
            if got != exp:
                ctx.fail(None, f"position_sort({args}) = {got}, documented order {exp}", {"helper": "position_sort", "args": [list(a) for a in args], "got": got, "expected": exp}, domain=dom)
    for n in range(0, 4):
        for ps in itertools.product(POSITIONS, repeat=n):
            flds = [SimpleNamespace(name="executable", position=0)] + [SimpleNamespace(name=NAMES[i], position=p) for i, p in enumerate(ps)] + [SimpleNamespace(name="append_args", position=None)]
            num = n + 1
            occupied = [0] + [(p if p >= 0 else num + p) for p in ps if p is not None]
            collide = len(occupied) != len(set(occupied))
            exp = None if collide else [i for i in range(0, num) if i not in occupied]
            try:
                got = remaining_positions(flds)
            except ValueError:
                got = None
            dom.case(("remaining_positions", ps), n >= 2, {"remaining_positions": list(ps), "result": got})
            if got != exp:
                ctx.fail(None, f"remaining_positions(positions {ps}) = {got}, expected {exp} (None = ValueError)", {"helper": "remaining_positions", "positions": list(ps), "got": got, "expected": exp}, domain=dom)


def _worker_order(chunk):
    """same contract; non-trivial only when an order is observable (>= 2 contributing fields)"""
    agg = Agg()
    with Harness() as H:
        for executable, fields, assignments, with_job in chunk:
            check_definition(agg, executable, fields, assignments, H, min_contrib=2, with_job=with_job)
    return agg


def replay(rec):
    case = rec["case"]
    if "helper" in case:
        from vf.core import Ctx

        c2 = Ctx("C22", "quick", 0)
        c2.known = []
        c2.fail = lambda klass, what, case, **kw: c2.violations.append(what)  # no replay files from a replay
        helpers_domain(c2)
        print(f"replay C22: ordering helpers re-run, {len(c2.violations)} failing case(s): {c2.violations[:3]}")
        if c2.violations:
            print(f"VIOLATION property=C22 replay={rec.get('_path', '')}")
            return 1
        return 0
    fields, exe = case["fields"], case["executable"]
    try:
        cls = build_class(exe, fields)
    except Exception as e:  # noqa
        ok = isinstance(e, ValueError) and "overlapping positions" in str(e) and S.may_reject_definition(fields)
        print(f"replay C22: definition refused: {type(e).__name__}: {e}; allowed={ok}")
        if not ok:
            print(f"VIOLATION property=C22 replay={rec.get('_path', '')}")
            return 1
        return 0
    with Harness() as H:
        o = H.observe(cls, case["values"], case.get("append_args", ()))
        exp = S.argv_ref(exe, fields, o["values"], case.get("append_args", ()))
        got = o["argv"] if o["argv_error"] is None else ["error"] + o["argv_error"]
    print(f"replay C22: fields={fields}\n  values={case['values']} append_args={case.get('append_args')}\n  got      {got}\n  expected one of {exp[:6]}")
    if got not in exp:
        print(f"VIOLATION property=C22 replay={rec.get('_path', '')}")
        return 1
    return 0
