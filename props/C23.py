"""C23 -- a string / path element supplied to a shell field reaches the executed command intact.

Engine B, exhaustive over the property's own bound: every string of length 1..3 over the
alphabet {a, space, tab, ', ", \\, $, *, ;, e-acute} placed in plain, templated, list,
MultiInputObj, file-name and append_args positions.  Contract: the argv handed to the
environment's execute() is one of `spec.shell.argv_ref(...)` -- i.e. every supplied element is
its own argument or sits verbatim inside the argument its argstr / separator builds.
A second, small domain really executes a process and compares the argv *it received* with the
vector recorded at execute() (ties the observation point to the process).
"""

from __future__ import annotations

import itertools
import os
import shutil
import tempfile
from pathlib import Path

import spec.shell as S
from props.C22 import Agg, Harness, Runner, build_class, case_key, chunked, observed_argv

ALPHABET = ["a", " ", "\t", "'", '"', "\\", "$", "*", ";", "é"]
K_RETOK = "value-contains-whitespace-quote-or-backslash-retokenised"
K_BRACE = "value-contains-brace-in-templated-argstr-formatted-twice"
K_BRACKET = "square-bracket-in-value-next-to-space-or-comma-eaten-by-argstr-cleanup"
K_STRIP = "unicode-white-space-at-the-edge-of-a-templated-argument-stripped"


# further characters a shell-like tokeniser may treat specially (comment, pipe, redirect, grouping,
# history, glob, brace, assignment, newline ...): each alone and surrounded by / next to ordinary letters
# white space that is NOT white space for a POSIX shell tokeniser (str.split() / str.isspace() treat it as such)
UNICODE_SPACE = ["\x0b", "\x0c", "\x1c", "\x85", "\xa0", "\u2003", "\u2028", "\u3000"]
EXTRA = UNICODE_SPACE + ["#", "|", "&", "<", ">", "(", ")", "!", "~", "{", "}", "[", "]", "?", "=", "%", "@", ":", ",", "`", "^", "\n", "-", "+"]


def strings(maxlen=3):
    out = []
    for n in range(1, maxlen + 1):
        out += ["".join(t) for t in itertools.product(ALPHABET, repeat=n)]
    for c in EXTRA:
        out += [c, "a" + c, c + "a", "a" + c + "a", c + c, "a" + c + "a" + c + "a"]
    return out


def _f(kind, argstr, sep=" ", position=None, name="a", optional=False):
    return dict(name=name, kind=kind, optional=optional, argstr=argstr, position=position, sep=sep)


# name -> (fields, values(s), append_args(s))
PLACEMENTS = {
    "str-bare": ([_f("str", "")], lambda s: {"a": s}, lambda s: []),
    "str-flag": ([_f("str", "-a")], lambda s: {"a": s}, lambda s: []),
    "str-templated": ([_f("str", "-a {a}")], lambda s: {"a": s}, lambda s: []),
    "str-templated-eq": ([_f("str", "--a={a}")], lambda s: {"a": s}, lambda s: []),
    "str-templated-bare": ([_f("str", "{a}")], lambda s: {"a": s}, lambda s: []),
    "str-with-neighbour": ([_f("str", "-a", position=-1), _f("str", "-b", name="b")], lambda s: {"a": s, "b": "B1"}, lambda s: ["X"]),
    "list-flag-space": ([_f("list", "-a")], lambda s: {"a": [s, "x"]}, lambda s: []),
    "list-flag-comma": ([_f("list", "-a", sep=",")], lambda s: {"a": ["x", s]}, lambda s: []),
    "list-bare": ([_f("list", "")], lambda s: {"a": [s]}, lambda s: []),
    "list-repeated": ([_f("list", "-a...")], lambda s: {"a": [s, "x"]}, lambda s: []),
    "list-repeated-templated": ([_f("list", "-a {a}...")], lambda s: {"a": ["x", s]}, lambda s: []),
    "list-templated-eq-comma": ([_f("list", "--a={a}", sep=",")], lambda s: {"a": [s, "x"]}, lambda s: []),
    "multi-flag": ([_f("multi", "-a")], lambda s: {"a": [s, "x"]}, lambda s: []),
    "multi-templated-eq": ([_f("multi", "--a={a}")], lambda s: {"a": [s]}, lambda s: []),
    "multi-scalar": ([_f("multi", "-a")], lambda s: {"a": s}, lambda s: []),
    "append-args-list": ([], lambda s: {}, lambda s: ["x", s]),
    "file-name-bare": ([_f("file", "")], lambda s: {"a": {"__file__": s}}, lambda s: []),
    "file-name-templated": ([_f("file", "-a {a}")], lambda s: {"a": {"__file__": s}}, lambda s: []),
}


def make_case(pname, s):
    fields, vf, af = PLACEMENTS[pname]
    return {"placement": pname, "string": s, "executable": "cmd", "fields": fields, "values": vf(s), "append_args": af(s)}


def classify(case, vals, got, exp):
    """narrow: (a) an element supplied to a FIELD (append_args lists are not affected) contains a
    character that a POSIX shell tokeniser treats specially (white space, quote, backslash) AND
    (b) the damage is confined to such characters / argument boundaries (or the quoting error)"""
    elems = [e for n, e in S.supplied_elements(case["fields"], vals, case["append_args"]) if n != "append_args"]
    # second narrow class: a value containing a brace goes through str.format once more when the field's
    # argstr is a template ('-a {a}', '--a={a}'): ValueError about the format string, nothing is executed
    templated = any("{" in (f.get("argstr") or "") for f in case["fields"])
    if (
        templated
        and any(("{" in e or "}" in e) for e in elems)
        and not any(set(e) & S.RETOKENISE_CHARS for e in elems)
        and (
            (isinstance(got, list) and len(got) >= 3 and got[0] == "error" and got[1] == "ValueError" and any(m in str(got[2]) for m in ("format string", "expected '}'", "Single '", "in field name")))
            # or a doubled brace silently collapsed into one ('{{' -> '{'): everything else unchanged
            or (isinstance(got, list) and any(isinstance(x, list) and [str(t).replace("{{", "{").replace("}}", "}") for t in x] == got for x in exp))
        )
    ):
        return K_BRACE
    # third narrow class: after substituting the values, argstr_formatting removes "[ " -> "[", " ]" -> "]",
    # "[," -> "[" and ",]" -> "]" (meant for emptied optional '[...]' parts of an argstr), which also eats the
    # space / separator next to a '[' or ']' that belongs to a supplied VALUE
    def _cleanup(t):
        return t.replace("[ ", "[").replace(" ]", "]").replace("[,", "[").replace(",]", "]")

    if (
        templated
        and any(("[" in e or "]" in e) for e in elems)
        and not any(set(e) & S.RETOKENISE_CHARS for e in elems)
        and isinstance(got, list)
        and any(isinstance(x, list) and _cleanup(" ".join(map(str, x))).split(" ") == got for x in exp)
    ):
        return K_BRACKET
    # fourth narrow class: argstr_formatting() ends with `.strip()`, which also removes white space OTHER than blank / tab /
    # newline (vertical tab, form feed, U+001C, U+0085, U+00A0, U+2003, U+2028, U+3000 ...) when a value puts it at the
    # edge of the formatted argstr; everything else of the vector is as documented
    def _stripped(x):
        t = " ".join(map(str, x[1:])).strip()
        return [x[0]] + (t.split(" ") if t else [])

    if (
        templated
        and any(e and ((e[0].isspace() and e[0] not in S.RETOKENISE_CHARS) or (e[-1].isspace() and e[-1] not in S.RETOKENISE_CHARS)) for e in elems)
        and not any(set(e) & S.RETOKENISE_CHARS for e in elems)
        and isinstance(got, list)
        and any(isinstance(x, list) and len(x) >= 1 and _stripped(x) == got for x in exp)
    ):
        return K_STRIP
    if not any(set(e) & S.RETOKENISE_CHARS for e in elems):
        return None
    return K_RETOK if S.only_tokeniser_damage(got, exp) else None


def evaluate(agg, case, H, cls):
    o = H.observe(cls, case["values"], case["append_args"])
    vals = o["values"]
    got = observed_argv(o)
    exp = S.argv_ref(case["executable"], case["fields"], vals, case["append_args"])
    s = case["string"]
    agg.case((case["placement"], s), nontrivial=any(c != "a" for c in s), sample=dict(case, argv=got))
    if got in exp:
        return
    case = dict(case, got=got, expected_any_of=exp[:4])
    agg.fail(classify(case, vals, got, exp), f"placement {case['placement']}: element {s!r} does not reach argv intact: got {got}, documented {exp[:2]}", case)


_CLS = {}


def _worker(chunk):
    agg = Agg()
    with Harness() as H:
        for pname, ss in chunk:
            if pname not in _CLS:
                _CLS[pname] = build_class("cmd", PLACEMENTS[pname][0])
            for s in ss:
                evaluate(agg, make_case(pname, s), H, _CLS[pname])
    return agg


# ------------------------------------------------------------------ really executed process

PRINTF = "/usr/bin/printf"  # printf '%s\\0' ARG... : prints every received argument followed by NUL


def executed_cases(cases):
    """run the tasks for real (no recorder; a spy keeps the vector handed to base.execute): the
    process prints the argv it received.  yields (case, recorded, received, error)"""
    import pydra.environments.base as EB
    from pydra.engine.job import Job
    from pydra.engine.submitter import Submitter

    os.environ.setdefault("NO_ET", "1")
    exe = [PRINTF, "%s\\0"]
    tmp = Path(tempfile.mkdtemp(prefix="vf_"))
    recorded = []
    real = EB.execute

    def spy(cmd, strip=False, **kw):
        recorded.append(list(cmd))
        return real(cmd, strip=strip, **kw)

    EB.execute = spy
    classes = {}
    try:
        with Submitter(cache_root=tmp, worker="debug") as sub:
            for case in cases:
                pname = case["placement"]
                if pname not in classes:
                    classes[pname] = build_class("cmd", case["fields"])
                kwargs = dict(case["values"], executable=exe)
                if case["append_args"]:
                    kwargs["append_args"] = list(case["append_args"])
                try:
                    task = classes[pname](**kwargs)
                    job = Job(task, submitter=sub, name="main")
                    out = job.environment.execute(job)
                except ValueError as e:
                    yield case, None, None, f"ValueError: {e}"
                    continue
                yield case, recorded[-1][2:], out["stdout"].split("\0")[:-1], None
    finally:
        EB.execute = real
        shutil.rmtree(tmp, ignore_errors=True)


def run(ctx):
    ctx.level = "other"
    ctx.explanation = (
        "bounded (engine B), exhaustive in the property's bound: every string of length 1..3 over {a, space, tab, ', \", \\, $, *, ;, e-acute} "
        "in 18 placements (plain / templated str fields, list[str] joined / repeated, MultiInputObj, file names, append_args list); the argv handed "
        "to the native environment's execute() must contain every supplied element as its own argument or verbatim inside the argument its argstr/"
        "separator builds (exact comparison with spec.shell.argv_ref). A small second domain executes a real process and compares the argv it "
        "received with the recorded vector."
    )
    allstr = strings(3)
    with Runner(ctx, procs=ctx.pick(8, 16)) as R:
        dom = ctx.domain(
            "alphabet-strings-in-placements",
            bound=f"all strings of length 1..3 over the 10-character alphabet plus, for each of {len(EXTRA)} further shell-special or Unicode-white-space characters c, the strings c, ac, ca, aca, cc, acaca ({len(allstr)} strings) x {len(PLACEMENTS)} placements ({', '.join(PLACEMENTS)})",
            rule="one case per (placement, string); non-trivial = the string contains a character other than 'a'",
            exhaustive=True,
        )
        work = []
        for pname in PLACEMENTS:
            for ss in chunked(allstr, 140):
                work.append([(pname, ss)])
        R.run(dom, _worker, work)

    dom2 = ctx.domain(
        "really-executed-process",
        bound=f"/usr/bin/printf '%s\\0' as the executable, placements str-flag / str-templated-eq / list-repeated / append-args-list x {ctx.pick(12, 60)} strings",
        rule="one real process per case; the argv received by the process must equal the vector handed to base.execute; non-trivial = a process was started (the command could be built)",
        exhaustive=False,
    )
    import random

    rnd = random.Random(ctx.seed)
    pick = ["a", "$a", "*", ";a", "é", "a;*", " ", "a b", "'a'", "\\a", "\t", '"'] + rnd.sample(allstr, ctx.pick(0, 48))
    cases = [make_case(pname, s) for pname in ("str-flag", "str-templated-eq", "list-repeated", "append-args-list") for s in pick]
    for case, rec, received, err in executed_cases(cases):
        dom2.case((case["placement"], case["string"]), err is None, sample={"placement": case["placement"], "string": case["string"], "received": received, "error": err})
        if err is None and rec != received:
            ctx.fail(None, f"process received {received} but execute() was handed {rec}", dict(case, got=received, recorded=rec), domain=dom2)


def replay(rec):
    case = rec["case"]
    cls = build_class(case["executable"], case["fields"])
    with Harness() as H:
        o = H.observe(cls, case["values"], case["append_args"])
        got = observed_argv(o)
        exp = S.argv_ref(case["executable"], case["fields"], o["values"], case["append_args"])
    print(f"replay C23: placement={case.get('placement')} string={case.get('string')!r}\n  got      {got}\n  expected one of {exp[:4]}")
    if got not in exp:
        print(f"VIOLATION property=C23 replay={rec.get('_path', '')}")
        return 1
    return 0
