"""C24 -- `task.cmdline` is a faithful POSIX-shell rendering of the executed argv.

Engine B.  Contract on ShellTask.cmdline: for every task whose command can be built,
`shlex.split(task.cmdline)` (POSIX word splitting + quote removal) == the argv handed to the
environment's execute().  Domains: the C23 placements x all alphabet strings; append_args lists
made of alphabet strings (arguments that reach argv verbatim); random C22 definitions whose
string values are drawn from the alphabet strings.
"""

from __future__ import annotations

import random

import spec.shell as S
from props.C22 import NAMES, Agg, Harness, Runner, build_class, case_key, chunked, field_options, observed_argv, position_assignments, with_pos
from props.C23 import PLACEMENTS, make_case, strings

K_SPECIAL = "argument-with-quote-backslash-or-tab-not-escaped"
K_EMPTY = "empty-argument-not-quoted"


def classify(argv):
    """narrow, on the INPUT of the rendering (the executed argv): cmdline only wraps arguments
    containing a space in single quotes"""
    rest = argv[1:]
    if any(any(c in a for c in "\t\n'\"\\") for a in rest):
        return K_SPECIAL
    if any(a == "" for a in rest):
        return K_EMPTY
    return None


def check(agg, key, case, o):
    """requires: the command could be built (an argv was executed); ensures: posix_split(cmdline) == argv"""
    if o["argv_error"] is not None:
        # no argv is executed for this task: the property says nothing (cmdline raising as well is consistent)
        agg.case(key, False, None)
        return
    argv = o["argv"]
    nontrivial = any(S.needs_more_than_space_quoting(a) or " " in a or any(c in a for c in "$*;é") for a in argv[1:])
    agg.case(key, nontrivial, dict(case, argv=argv, cmdline=o["cmdline"]))
    if o["cmdline_error"] is not None:
        agg.fail(None, f"cmdline raised {o['cmdline_error']} although argv {argv} is executed", dict(case, got=o["cmdline_error"], argv=argv))
        return
    try:
        back = S.posix_split(o["cmdline"])
    except ValueError as e:
        back = ["error", "ValueError", str(e)]
    if back == argv:
        return
    agg.fail(classify(argv), f"cmdline {o['cmdline']!r} splits to {back}, executed argv is {argv}", dict(case, cmdline=o["cmdline"], got=back, argv=argv))


_CLS = {}


def _worker_placements(chunk):
    agg = Agg()
    with Harness() as H:
        for pname, ss in chunk:
            if pname not in _CLS:
                _CLS[pname] = build_class("cmd", PLACEMENTS[pname][0])
            for s in ss:
                case = make_case(pname, s)
                check(agg, (pname, s), case, H.observe(_CLS[pname], case["values"], case["append_args"]))
    return agg


def _worker_append(chunk):
    agg = Agg()
    with Harness() as H:
        if "append" not in _CLS:
            _CLS["append"] = build_class("cmd", [])
        for ap in chunk:
            case = {"executable": "cmd", "fields": [], "values": {}, "append_args": list(ap)}
            check(agg, ("append", tuple(ap)), case, H.observe(_CLS["append"], {}, ap))
    return agg


def _worker_defs(chunk):
    agg = Agg()
    with Harness() as H:
        for exe, fields, assignments in chunk:
            try:
                cls = build_class(exe, fields)
            except ValueError:
                agg.case(None, False, None)  # refused definitions are C22's business
                continue
            for values, ap in assignments:
                case = {"executable": exe, "fields": fields, "values": values, "append_args": list(ap)}
                check(agg, case_key(case), case, H.observe(cls, values, ap))
    return agg


def hostile_value(f, rnd, pool):
    k = f["kind"]
    if k == "bool":
        return rnd.choice([True, False])
    if k == "int":
        return rnd.choice([0, 7])
    if k == "float":
        return rnd.choice([0.0, 1.5])
    if k in ("str", "file"):
        s = rnd.choice(pool)
        v = s if k == "str" else {"__file__": s}
    elif k == "list":
        v = [rnd.choice(pool) for _ in range(rnd.choice([1, 2]))]
    else:
        v = rnd.choice([[], [rnd.choice(pool)], [rnd.choice(pool), rnd.choice(pool)], rnd.choice(pool)])
    if f["optional"] and rnd.random() < 0.2:
        return None
    return v


def deductive(ctx):
    """engine D: ShellTask.cmdline appends every argument after one blank, through shlex.quote exactly when it is empty or
    contains blank/tab/newline/quote/backslash, verbatim otherwise (for ALL strings; shlex's own laws are assumed)"""
    from contracts import cmdline as CL
    from pyvc.verify import verify, summarize

    summarize(ctx, verify(ctx, CL.contract()))


def run(ctx):
    deductive(ctx)
    ctx.level = "other"
    ctx.explanation = (
        "bounded (engine B): for every generated task whose command can be built, shlex.split(task.cmdline) must equal the argv handed to the "
        "environment's execute(). Domains: the 18 C23 placements x all 1110 alphabet strings (exhaustive); append_args lists of alphabet strings "
        "(all single strings, sampled pairs); random C22 definitions (2-4 fields) with string values drawn from the alphabet strings."
    )
    allstr = strings(3)
    rnd = random.Random(ctx.seed)
    with Runner(ctx, procs=ctx.pick(8, 16)) as R:
        dom = ctx.domain(
            "placements-x-alphabet-strings",
            bound=f"all {len(allstr)} strings of length 1..3 over the C23 alphabet x the {len(PLACEMENTS)} C23 placements",
            rule="one case per (placement, string); non-trivial = a command is built and some argument contains a character other than 'a'-like plain text (space, tab, quote, backslash, $, *, ;, e-acute) or is empty",
            exhaustive=True,
        )
        R.run(dom, _worker_placements, [[(p, ss)] for p in PLACEMENTS for ss in chunked(allstr, 140)])

        npairs = ctx.pick(3000, 40000)
        dom2 = ctx.domain(
            "append-args-lists",
            bound=f"append_args = [s] and ['x', s, 'y'] for all {len(allstr)} alphabet strings, plus {npairs} random pairs [s, t] (seed {ctx.seed})",
            rule="one case per list; non-trivial as above",
            exhaustive=False,
        )
        aps = [[s] for s in allstr] + [["x", s, "y"] for s in allstr] + [[rnd.choice(allstr), rnd.choice(allstr)] for _ in range(npairs)]
        R.run(dom2, _worker_append, chunked(aps, 500))

        nD = ctx.pick(600, 12000)
        dom3 = ctx.domain(
            "c22-definitions-with-alphabet-strings",
            bound=f"{nD} random definitions (seed {ctx.seed}) of 2-4 fields from the full C22 option set (distinct positions), executable 'cmd' or ['cmd','sub'], "
            "8 random value assignments each with str / file-name / list elements drawn from the alphabet strings, append_args [] or 1-2 alphabet strings",
            rule="one case per (definition, assignment); non-trivial as above",
            exhaustive=False,
        )
        opts = {n: field_options(n) for n in NAMES}
        posN = {n: list(position_assignments(n)) for n in (2, 3, 4)}
        short = strings(2)
        work = []
        for _ in range(nD):
            nf = rnd.choice((2, 3, 4))
            ps = rnd.choice(posN[nf])
            fields = [with_pos(rnd.choice(opts[NAMES[j]]), ps[j]) for j in range(nf)]
            exe = rnd.choice(("cmd", ["cmd", "sub"]))
            assignments = []
            for _k in range(8):
                pool = rnd.choice((short, allstr))
                vals = {f["name"]: hostile_value(f, rnd, pool) for f in fields}
                ap = rnd.choice(([], [rnd.choice(pool)], [rnd.choice(pool), rnd.choice(pool)]))
                assignments.append((vals, ap))
            work.append((exe, fields, assignments))
        R.run(dom3, _worker_defs, chunked(work, 100))


def replay(rec):
    case = rec["case"]
    cls = build_class(case["executable"], case["fields"])
    with Harness() as H:
        o = H.observe(cls, case["values"], case["append_args"])
    if o["argv_error"] is not None:
        print(f"replay C24: no command is built ({o['argv_error']}); property vacuous")
        return 0
    try:
        back = S.posix_split(o["cmdline"]) if o["cmdline_error"] is None else ["error"] + o["cmdline_error"]
    except ValueError as e:
        back = ["error", "ValueError", str(e)]
    print(f"replay C24: cmdline={o['cmdline']!r}\n  posix split  {back}\n  executed argv {o['argv']}")
    if back != o["argv"]:
        print(f"VIOLATION property=C24 replay={rec.get('_path', '')}")
        return 1
    return 0
