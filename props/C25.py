"""C25 -- a command-line template defines the task it spells out.

Engine B over the documented token grammar of `shell.define("cmd <in:type> --opt <x:int=3> ...")`
(docs tutorial 5-shell + the shell.define docstring; grammar and meaning in spec/shell.py:
tmpl_text / tmpl_fields / tmpl_argv).  For every generated template (<= 6 white-space tokens,
names x,y,z; 3 input types quick, 8 incl. tuple types thorough for <= 2 fields):
  (1) `shell.define(template)` succeeds,
  (2) the defined class has exactly the spelled fields with the spelled type, optionality (?),
      multiplicity (+, *), default (=), option string, output role and path template ($),
  (3) for generated values the argv handed to the environment's execute() is the executable
      followed by the options / arguments in template order.
"""

from __future__ import annotations

import itertools
import random

import spec.shell as S
from props.C22 import Agg, Harness, Runner, chunked, observed_argv

NAMES = ["x", "y", "z"]


# ------------------------------------------------------------------------------ generator


def item_variants(name, in_types, out_types, defaults):
    """every documented spelling of one field called `name`"""
    out = []
    for form in ("pos", "opt"):
        opt = {"option": "--" + name} if form == "opt" else {}
        for t in [None] + in_types:
            for mod in ("", "?", "+", "*"):
                out.append(dict(form=form, name=name, type=t, mod=mod, **opt))
            if t in defaults:
                v, text = defaults[t]
                out.append(dict(form=form, name=name, type=t, mod="=", default=v, default_text=text, **opt))
        if form == "opt":
            # `--text-arg <text_arg='foo'>`: untyped option argument (a string) with a default
            out.append(dict(form=form, name=name, type=None, mod="=", default="foo", default_text="'foo'", **opt))
    for option in ("-" + name, "--" + name):
        out.append(dict(form="flag", name=name, option=option))
    out.append(dict(form="flag", name=name, option="--" + name, mod="=", default=True, default_text="True"))
    for t in [None] + out_types:
        out.append(dict(form="pos", name=name, out=True, type=t, mod=""))
        out.append(dict(form="pos", name=name, out=True, type=t, mod="$", path_template=name + "_tpl.txt"))
    for t in out_types:
        out.append(dict(form="pos", name=name, out=True, type=t, mod="?"))
        out.append(dict(form="opt", option="--" + name, name=name, out=True, type=t, mod=""))
    return out


# ------------------------------------------------------------------------------ real side


def real_type(base):
    import fileformats.generic as G
    from fileformats.core import from_mime

    simple = {"int": int, "float": float, "str": str, "bool": bool, "file": G.File, "directory": G.Directory, "fs-object": G.FsObject}
    if base == "int,...":
        return tuple[int, ...]
    if "," in base:
        return tuple[tuple(simple[b] for b in base.split(","))]
    return simple[base] if base in simple else from_mime(base)


def expected_type(d):
    from pydra.utils.typing import MultiInputObj

    t = real_type(d["base"])
    if d["multi"]:
        t = MultiInputObj[t]
    if d["optional"]:
        t = t | None
    return t


def field_problems(cls, items):
    """(2): compare the real fields with the descriptors; returns a list of (class, text)"""
    from pydra.compose import shell
    from pydra.utils.general import get_fields

    exp = S.tmpl_fields(items)
    real = {f.name: f for f in get_fields(cls) if f.name not in ("executable", "append_args")}
    outs = {f.name: f for f in get_fields(cls.Outputs) if f.name not in ("return_code", "stdout", "stderr")}
    bad = []
    if set(real) != set(exp):
        bad.append(("field-set", f"input fields {sorted(real)} != spelled {sorted(exp)}"))
    if set(outs) != {n for n, d in exp.items() if d["out"]}:
        bad.append(("output-set", f"output fields {sorted(outs)} != spelled {sorted(n for n, d in exp.items() if d['out'])}"))
    for n, d in exp.items():
        f = real.get(n)
        if f is None:
            continue
        et = expected_type(d)
        if f.type != et:
            bad.append(("type", f"{n}: type {f.type} != {et}"))
        if (f.argstr or "") != d["argstr"]:
            bad.append(("argstr", f"{n}: argstr {f.argstr!r} != {d['argstr']!r}"))
        kind = d["default"][0]
        if kind == "mandatory" and not f.mandatory:
            bad.append(("default", f"{n}: spelled without default but default={f.default!r}"))
        if kind == "none" and f.default is not None:
            bad.append(("default", f"{n}: optional but default={f.default!r}"))
        if kind == "value" and not (f.default == d["default"][1] and type(f.default) is type(d["default"][1])):
            bad.append(("default", f"{n}: default {f.default!r} != {d['default'][1]!r}"))
        if d["out"]:
            if not isinstance(f, shell.outarg):
                bad.append(("out-role", f"{n}: not an output argument"))
            elif f.path_template != d["path_template"]:
                bad.append(("path-template", f"{n}: path_template {f.path_template!r} != {d['path_template']!r}"))
            if n in outs and outs[n].type != et:
                bad.append(("type", f"output {n}: type {outs[n].type} != {et}"))
    return bad


def sample_value(name, d, alt=False):
    """a canonical value of the spelled type"""
    N = name.upper()
    base = d["base"]
    one = {
        "int": [7, 8],
        "float": [2.5, 3.5],
        "str": [N + "1", N + "2"],
        "file": [{"__file__": name + "1.txt"}, {"__file__": name + "2.txt"}],
        "fs-object": [{"__file__": name + "1.dat"}, {"__dir__": name + "2.d"}],
        "directory": [{"__dir__": name + "1.d"}, {"__dir__": name + "2.d"}],
        "int,str": [(1, N + "1"), (2, N + "2")],
        "int,...": [(1, 2, 3), (4,)],
    }
    if d["out"]:
        return {"__path__": name + "_explicit.out"}
    if base == "bool":
        return not d["default"][1] if alt else True
    if d["multi"]:
        return one[base][:1] if alt else one[base]
    return one[base][1] if alt else one[base][0]


def assignments(items):
    """all set / only what must be set / alternates"""
    fields = S.tmpl_fields(items)
    full = {n: sample_value(n, d) for n, d in fields.items() if not d["out"]}  # outputs from their template
    minimal = {n: sample_value(n, d) for n, d in fields.items() if d["default"][0] == "mandatory"}
    alt = {n: sample_value(n, d, alt=True) for n, d in fields.items()}  # explicit output paths, flipped flags
    out = []
    for v in (full, minimal, alt):
        if v not in out:
            out.append(v)
    return out


def check_template(agg, executable, items, H):
    text = S.tmpl_text(executable, items)
    case = {"template": text, "executable": executable, "items": items}
    key = (text,)
    try:
        from pydra.compose import shell

        cls = shell.define(text)
    except Exception as e:  # noqa
        agg.case(key, True, dict(case, defined=False))
        agg.fail(classify_define(items, e), f"shell.define({text!r}) raised {type(e).__name__}: {str(e)[:200]}", dict(case, got=["define-error", type(e).__name__, str(e)[:300]]))
        return
    agg.case(key, True, dict(case, defined=True))
    probs = field_problems(cls, items)
    for k, msg in probs:
        agg.fail(classify_field(items, k, msg), f"{text!r}: {msg}", dict(case, problem=[k, msg]))
    if any(k in ("field-set", "output-set") for k, _ in probs):
        return
    out_dir = H.tmp / "cache" / "stub"
    for vals in assignments(items):
        o = H.observe(cls, vals, ())
        got = observed_argv(o)
        exp = S.tmpl_argv(executable, items, o["values"], out_dir)
        agg.case((text, tuple(sorted((k, repr(v)) for k, v in vals.items()))), True, dict(case, values=vals, argv=got))
        if got not in exp:
            agg.fail(classify_argv(items, vals, got, exp), f"{text!r} with {vals}: argv {got}, template order gives {exp[0]}", dict(case, values=vals, got=got, expected=exp[0]))


# No finding on the unchanged tree: every failure is unclassified (a VIOLATION).
def classify_define(items, e):
    return None


def classify_field(items, kind, msg):
    return None


def classify_argv(items, vals, got, exp):
    return None


def _worker(chunk):
    agg = Agg()
    with Harness() as H:
        for executable, items in chunk:
            check_template(agg, executable, items, H)
    return agg


def _native_positions_counterexample():
    """small-scope native search used as the REPLAY of an undischarged remaining_positions obligation: all assignments of
    explicit positions {None, 0, 1, 2, -1, -2, -3} to <= 3 arguments; reference = range(num_args) minus the absolute positions"""
    import itertools
    from types import SimpleNamespace as NS

    from pydra.compose.shell.builder import remaining_positions

    for n in (1, 2, 3):
        for ps in itertools.product([None, 0, 1, 2, -1, -2, -3], repeat=n):
            if any(p is not None and not (-n <= p < n) for p in ps):
                continue
            args = [NS(name=f"f{i}", position=p) for i, p in enumerate(ps)] + [NS(name="append_args", position=None)]
            taken = [p if p >= 0 else n + p for p in ps if p is not None]
            try:
                got = remaining_positions(list(args))
            except ValueError:
                got = "ValueError"
            exp = "ValueError" if len(set(taken)) != len(taken) else [i for i in range(n) if i not in taken]
            if got != exp:
                return {"positions": list(ps), "got": got, "expected": exp}
    return None


def deductive(ctx):
    """engine D: remaining_positions, first phase -- every explicitly positioned argument is entered under its absolute position
    (negative = counted from the end), append_args / unpositioned ones are skipped -- contracts/remaining_positions.py.  An
    obligation the solvers leave open or refute is replayed natively by a small-scope search over the real function."""
    from contracts import remaining_positions as RP
    from pyvc.verify import verify, summarize

    res = verify(ctx, RP.contract())

    def replay(rec):
        cex = _native_positions_counterexample()
        return cex, cex is not None

    summarize(ctx, res, replay=replay)
    open_ = [r for r in res.obligations if r["status"] != "discharged" and r["role"].startswith("property:")]
    if open_ and not ctx.violations:
        cex = _native_positions_counterexample()
        if cex is not None:
            ctx.fail(None, f"remaining_positions: obligation {open_[0]['clause']} is not discharged and the native small-scope replay finds positions={cex['positions']}: free positions {cex['got']} instead of {cex['expected']}", {"kind": "remaining_positions", **cex}, obligation=open_[0].get("id") or open_[0]["clause"], found_input=True)


def run(ctx):
    deductive(ctx)
    ctx.level = "other"
    base_in, base_out = ["int", "str", "file"], ["file"]
    in_types = ctx.pick(base_in, ["int", "str", "file", "float", "directory", "fs-object", "int,str", "int,..."])
    out_types = ctx.pick(base_out, ["file", "directory", "image/png"])
    defaults = {"int": (3, "3"), "str": ("foo", "'foo'"), "float": (1.5, "1.5"), "int,str": ((1, "bar"), "(1,'bar')")}
    ctx.explanation = (
        "bounded (engine B): templates generated from the documented token grammar (<name>, <name:type>, ?, +, *, =default, out|, $path-template, "
        "-o/--opt options with a following argument, -f<flag> boolean form) with names x,y,z; shell.define must accept each template, the defined "
        "class must carry the spelled fields / types / optionality / multiplicity / defaults / option strings / output path templates "
        "(spec.shell.tmpl_fields) and the argv handed to the environment's execute() for three value assignments (everything set, only mandatory "
        "set, alternates incl. explicit output paths) must follow template order (spec.shell.tmpl_argv)."
    )
    rnd = random.Random(ctx.seed)
    variants = {n: item_variants(n, in_types, out_types, defaults) for n in NAMES}
    variants3 = {n: item_variants(n, base_in, base_out, defaults) for n in NAMES}
    nv, nv3 = len(variants["x"]), len(variants3["x"])

    def templates(k, variants=variants):
        for combo in itertools.product(*[variants[NAMES[i]] for i in range(k)]):
            if S.tmpl_n_tokens("cmd", list(combo)) <= 6:
                yield list(combo)

    with Runner(ctx, procs=ctx.pick(8, 16)) as R:
        dom = ctx.domain(
            "templates-1-2-fields",
            bound=f"every template `cmd item1 [item2]` with items from the {nv} documented spellings per field name (input types {in_types}, output types {out_types}, defaults =3 / ='foo' / =1.5 / =True), "
            "and `cmd sub item1` (two-word executable); <= 6 tokens",
            rule="one case per template (definition + field check) plus one per (template, value assignment) for argv; non-trivial = always (every template has at least one field)",
            exhaustive=True,
        )
        work = [("cmd", t) for t in templates(1)] + [(["cmd", "sub"], t) for t in templates(1)] + [("cmd", t) for t in templates(2)]
        R.run(dom, _worker, chunked(work, 150))

        n3 = ctx.pick(2500, None)
        dom3 = ctx.domain(
            "templates-3-fields",
            bound=f"templates `cmd item1 item2 item3` over {nv3} spellings per name (input types {base_in}, output types {base_out}) with <= 6 tokens"
            + (f"; quick tier: {n3} templates sampled with seed {ctx.seed}" if n3 else " (all of them)"),
            rule="as above",
            exhaustive=not n3,
        )
        if n3:
            seen, work = set(), []
            while len(work) < n3:
                idx = tuple(rnd.randrange(nv3) for _ in range(3))
                if idx in seen:
                    continue
                seen.add(idx)
                t = [variants3[NAMES[i]][idx[i]] for i in range(3)]
                if S.tmpl_n_tokens("cmd", t) <= 6:
                    work.append(("cmd", t))
            R.run(dom3, _worker, chunked(work, 150))
        else:

            def gen():
                buf = []
                for t in templates(3, variants3):
                    buf.append(("cmd", t))
                    if len(buf) >= 400:
                        yield buf
                        buf = []
                if buf:
                    yield buf

            R.run(dom3, _worker, gen())


def replay(rec):
    import ast

    case = rec["case"]
    if "positions" in case and "items" not in case:
        # counterexample of the remaining_positions obligation: re-run the real function on it
        from types import SimpleNamespace as NS

        from pydra.compose.shell.builder import remaining_positions

        ps = case["positions"]
        n = len(ps)
        args = [NS(name=f"f{i}", position=p) for i, p in enumerate(ps)] + [NS(name="append_args", position=None)]
        taken = [p if p >= 0 else n + p for p in ps if p is not None]
        try:
            got = remaining_positions(list(args))
        except ValueError:
            got = "ValueError"
        exp = "ValueError" if len(set(taken)) != len(taken) else [i for i in range(n) if i not in taken]
        print(f"replay C25: remaining_positions for explicit positions {ps}: free positions {got}, expected {exp}")
        if got != exp:
            print(f"VIOLATION property=C25 replay={rec.get('_path', '')}")
            return 1
        return 0
    for it in case["items"]:  # JSON turned tuple defaults into lists
        if it.get("mod") == "=":
            it["default"] = ast.literal_eval(it["default_text"])
    agg = Agg()
    with Harness() as H:
        check_template(agg, case["executable"], case["items"], H)
    n = sum(v[0] for v in agg.fails.values())
    print(f"replay C25: template {case['template']!r}: {n} problem(s)")
    for k, (cnt, what, cases) in agg.fails.items():
        for w, c in cases:
            print("  ", k, w[:400])
    if n:
        print(f"VIOLATION property=C25 replay={rec.get('_path', '')}")
        return 1
    return 0
