"""C26 -- output path templates resolve inside the job's cache directory.

Engine B.  Real objects: `shell.define("cmd", inputs=..., outputs={"out": shell.outarg(path_template=...,
keep_extension=...)})`, a real `Job(task, submitter)` on a temp cache root, `Job.inputs`
(-> template_update / template_update_single / _template_formatting / _element_formatting), the argv
handed to the environment's execute(), and `ShellOutputs._from_job` (-> `_resolve_value`) for what
is collected.  Oracle: spec.shell.strictly_inside / extension_demand / extension_clause_ok (property text).

Contract per case (template, keep_extension, output type, input values, how `out` is supplied):
  template mode  : every resolved path is strictly inside job.cache_dir; a second, independently built
                   job on another cache root resolves to the same relative name (deterministic function of
                   the inputs); where the template references a file input and spells no extension of
                   its own, the input file's extension is kept / dropped as declared (every reading of
                   "extension" and of "kept" accepted; the rest of the file name is NOT checked -- the
                   property does not say it equals the formatted template); argv carries exactly that
                   path; the collected output is that path.
  explicit mode  : Job.inputs, argv and the collected output carry the supplied path unchanged.
"""

from __future__ import annotations

import os
import re
from pathlib import Path

import spec.shell as S
from props.C22 import Agg, Harness, Runner, chunked

K_DOTS = "template-formats-to-dot-or-dotdot-escapes-job-dir"
K_FMTDOT = "format-spec-dot-taken-for-template-extension"

FILES = ["data", "data.txt", "data.tar.gz"]
STRS = ["abc", "ab.cd", "a/b", "..", ".", ""]
INTS = [3, 0]
FLOATS = [1.5, 0.25]
LISTS = [["p", "q"], ["p.txt"]]

TEMPLATES = [
    # (template, referenced inputs)
    ("out", ()),
    ("out.txt", ()),
    ("sub/out.txt", ()),
    ("{f}", ("f",)),
    ("{f}_out", ("f",)),
    ("pre_{f}", ("f",)),
    ("{f}_out.nii", ("f",)),
    ("{f}.nii", ("f",)),
    ("sub/{f}_out", ("f",)),
    ("{s}", ("s",)),
    ("{s}_out", ("s",)),
    ("pre_{s}.txt", ("s",)),
    ("{n}_out", ("n",)),
    ("{n:03d}.txt", ("n",)),
    ("{x}_out", ("x",)),
    ("{x:.1f}_out", ("x",)),
    ("{f}_{s}", ("f", "s")),
    ("{s}_{f}", ("f", "s")),
    ("{f}_{n}", ("f", "n")),
    ("{f}_{x:.1f}", ("f", "x")),
    ("{f}_{s}.nii", ("f", "s")),
    ("{s}_{n}", ("s", "n")),
    ("{s}_{x}", ("s", "x")),
    ("{l}_out", ("l",)),
    ("{f}_{l}", ("f", "l")),
    ("{l}_{s}", ("l", "s")),
]
POOLS = {"f": FILES, "s": STRS, "n": INTS, "x": FLOATS, "l": LISTS}
POOLS_THOROUGH = {
    "f": FILES + ["other.nii.gz", ".hidden"],
    "s": STRS + ["abc.tar.gz", "../x"],
    "n": INTS + [-1],
    "x": FLOATS + [2.0],
    "l": LISTS + [["a.txt", "b.txt"]],
}
OUT_MODES = ["default", "true", "explicit-abs", "explicit-rel"]


def otypes_for(refs):
    return ["multi", "file"] if "l" in refs else ["file", "optional"]


def build(template, keep, otype):
    from fileformats.generic import File
    from pydra.compose import shell
    from pydra.utils.typing import MultiOutputFile

    t = {"file": File, "optional": File | None, "multi": MultiOutputFile}[otype]
    inputs = {
        "f": shell.arg(type=File | None, argstr="", position=1, default=None, help=""),
        "s": shell.arg(type=str | None, argstr=None, default=None, help=""),
        "n": shell.arg(type=int | None, argstr=None, default=None, help=""),
        "x": shell.arg(type=float | None, argstr=None, default=None, help=""),
        "l": shell.arg(type=list[str] | None, argstr=None, default=None, help=""),
    }
    return shell.define("cmd", inputs=inputs, outputs={"out": shell.outarg(type=t, path_template=template, keep_extension=keep, argstr="-o", help="")})


def cases(pools=POOLS):
    import itertools

    for template, refs in TEMPLATES:
        for combo in itertools.product(*[pools[r] for r in refs]):
            vals = dict(zip(refs, combo))
            for keep in (True, False):
                for otype in otypes_for(refs):
                    for mode in OUT_MODES:
                        if otype == "optional" and mode == "default":
                            continue  # an optional output left unset is not produced at all
                        if otype == "multi" and mode.startswith("explicit"):
                            continue
                        yield dict(template=template, refs=list(refs), values=vals, keep=keep, otype=otype, mode=mode)


def case_key(c):
    return (c["template"], c["keep"], c["otype"], c["mode"], tuple(sorted((k, repr(v)) for k, v in c["values"].items())))


_CLS = {}


def observe(H, c):
    """drive the real code; returns a dict of observations (paths as strings)"""
    from pydra.engine.job import Job
    from pydra.engine.submitter import Submitter

    k = (c["template"], c["keep"], c["otype"])
    if k not in _CLS:
        _CLS[k] = build(*k)
    cls = _CLS[k]
    vals = {}
    for n, v in c["values"].items():
        vals[n] = H.decode({"__file__": v}) if n == "f" else v
    explicit = None
    if c["mode"] == "true":
        vals["out"] = True
    elif c["mode"] == "explicit-abs":
        explicit = H.tmp / "elsewhere" / "given.out"
        vals["out"] = explicit
    elif c["mode"] == "explicit-rel":
        explicit = "reldir/given.out"
        vals["out"] = explicit
    if not hasattr(H, "sub2"):
        H.sub2 = Submitter(cache_root=H.tmp / "cache2", worker="debug")
    o = {"explicit": None if explicit is None else str(explicit)}

    def as_list(p):
        return [str(q) for q in p] if isinstance(p, (list, tuple)) else [str(p)]

    job1 = Job(cls(**vals), submitter=H.sub, name="main")
    p1 = job1.inputs["out"]
    o["cache_dir"] = str(job1.cache_dir)
    o["input_type"] = type(p1).__name__
    o["paths"] = as_list(p1)
    o["paths_again"] = as_list(job1.inputs["out"])
    del H.rec[:]
    job1.environment.execute(job1)
    o["argv"] = H.rec[-1]
    job2 = Job(cls(**vals), submitter=H.sub2, name="other")
    o["cache_dir2"] = str(job2.cache_dir)
    o["paths2"] = as_list(job2.inputs["out"])
    # what is collected after the run: create the files the command would have written, then _from_job
    if c["mode"] != "explicit-rel" and all(os.path.isabs(p) for p in o["paths"]):
        made = []
        try:
            for p in o["paths"]:
                if S.strictly_inside(p, H.tmp) and not os.path.exists(p):
                    os.makedirs(os.path.dirname(p), exist_ok=True)
                    Path(p).write_text("x")
                    made.append(p)
            job1.return_values = {"return_code": 0, "stdout": "", "stderr": ""}
            outs = cls.Outputs._from_job(job1)
            got = outs.out
            o["collected"] = [os.fspath(g) for g in got] if isinstance(got, (list, tuple)) else [os.fspath(got)]
        except Exception as e:  # noqa
            o["collected_error"] = [type(e).__name__, str(e)[:200]]
        finally:
            for p in made:
                try:
                    os.unlink(p)
                except OSError:
                    pass
    return o


def oracle_refs(c, elem=None):
    refs = {}
    for n, v in c["values"].items():
        if n == "f":
            refs[n] = ("file", v)
        elif n == "l":
            refs[n] = elem
        else:
            refs[n] = v
    return refs


def problems(c, o):
    """-> list of (clause, klass, text)"""
    bad = []
    cd = o["cache_dir"]
    if c["mode"].startswith("explicit"):
        given = o["explicit"]
        if o["paths"] != [given]:
            bad.append(("explicit-input", None, f"Job.inputs carries {o['paths']} instead of the supplied {given}"))
        if given not in o["argv"]:
            bad.append(("explicit-argv", None, f"argv {o['argv']} does not carry the supplied {given}"))
        if "collected" in o and o["collected"] != [given]:
            bad.append(("explicit-collected", None, f"collected output {o['collected']} is not the supplied {given}"))
        if "collected_error" in o:
            bad.append(("explicit-collected", None, f"collecting the explicit output raised {o['collected_error']}"))
        return bad
    # ---- template mode
    n_expected = len(c["values"]["l"]) if (c["otype"] == "multi" and "l" in c["values"]) else 1
    if len(o["paths"]) != n_expected:
        bad.append(("count", None, f"{len(o['paths'])} path(s) resolved, {n_expected} expected"))
        return bad
    elems = c["values"]["l"] if (c["otype"] == "multi" and "l" in c["values"]) else [None]
    for p, e in zip(o["paths"], elems):
        refs = oracle_refs(c, e)
        if not S.strictly_inside(p, cd):
            # narrow: the formatted template has no usable last component ('..', '.', '')
            whole_list = "l" in c["values"] and c["otype"] != "multi"
            klass = K_DOTS if (not whole_list and S.no_usable_last_component(c["template"], refs)) else None
            bad.append(("inside", klass, f"resolved path {p} is not strictly inside the job directory {cd}"))
            continue
        if "f" in c["values"]:
            plain = {n: v for n, v in refs.items() if n != "f"}
            if S.extension_demand(c["template"], "f", plain):
                name = os.path.relpath(p, cd)
                if not S.extension_clause_ok(name, c["values"]["f"], c["keep"]):
                    verb = "kept" if c["keep"] else "dropped"
                    bad.append(("extension", classify_extension(c, name), f"keep_extension={c['keep']} but the extension of input file {c['values']['f']!r} is not {verb} in the resolved name {name!r}"))
    rel1 = [os.path.relpath(p, cd) for p in o["paths"]]
    rel2 = [os.path.relpath(p, o["cache_dir2"]) for p in o["paths2"]]
    if rel1 != rel2 or o["paths"] != o["paths_again"]:
        bad.append(("deterministic", None, f"same inputs resolve to {rel1} and {rel2} (re-read: {o['paths_again']})"))
    whole_list_in_name = "l" in c["values"] and c["otype"] != "multi"  # "['p', 'q']_out": quotes / blanks in an argument are C23's subject
    for p in o["paths"]:
        if p not in o["argv"] and not whole_list_in_name:
            bad.append(("argv", None, f"argv {o['argv']} does not carry the resolved path {p}"))
    uniq = lambda xs: list(dict.fromkeys(xs))  # noqa: E731  (two list elements may format to the same name)
    if "collected" in o and uniq(o["collected"]) != uniq(o["paths"]):
        bad.append(("collected", None, f"collected output {o['collected']} differs from the path given to the command {o['paths']}"))
    if "collected_error" in o and all(S.strictly_inside(p, cd) for p in o["paths"]):
        bad.append(("collected", None, f"collecting the output raised {o['collected_error']}"))
    return bad


def classify_extension(c, name):
    """narrow class predicate for a violated extension clause: keep_extension=True, the template's only
    dots sit inside format specs of other fields ({x:.1f}), and the input file's extension is gone"""
    t = c["template"]
    literal = re.sub(r"{[^{}]*}", "", t)
    if c["keep"] and "." not in literal and re.search(r"{\w+:[^{}]*\.[^{}]*}", t):
        return K_FMTDOT
    return None


def _worker(chunk):
    agg = Agg()
    with Harness() as H:
        try:
            for c in chunk:
                try:
                    o = observe(H, c)
                except Exception as e:  # noqa
                    agg.case(case_key(c), True, dict(c, error=[type(e).__name__, str(e)[:200]]))
                    agg.fail(None, f"{c}: resolving raised {type(e).__name__}: {str(e)[:200]}", dict(c, got=["error", type(e).__name__, str(e)[:300]]))
                    continue
                agg.case(case_key(c), bool(c["refs"]) or c["mode"].startswith("explicit"), dict(c, observed={k: o[k] for k in ("paths", "argv", "cache_dir") if k in o}))
                for clause, klass, text in problems(c, o):
                    agg.fail(klass, f"[{clause}] template {c['template']!r} keep_extension={c['keep']} type={c['otype']} out={c['mode']} inputs={c['values']}: {text}", dict(c, clause=clause, observed=o))
        finally:
            if hasattr(H, "sub2"):
                try:
                    H.sub2.close()
                except Exception:
                    pass
    return agg


def deductive(ctx):
    """engine D: template_update_single re-roots a templated path as cache_dir / <formatted>.name on every
    path and returns an explicit value as stored"""
    from contracts import templating as T
    from pyvc.verify import verify, summarize

    summarize(ctx, verify(ctx, T.contract()))


def run(ctx):
    deductive(ctx)
    _run_bounded(ctx)


def _run_bounded(ctx):
    ctx.level = "other"
    ctx.explanation = (
        "bounded (engine B): outarg definitions with generated path templates referencing 0-2 inputs (files with 0-2 extensions, strings incl. "
        "'a/b', '..', '.', '', ints, floats with/without format spec, lists with MultiOutputFile) x keep_extension on/off x how the output is "
        "supplied (default, True, explicit absolute path, explicit relative path); a real Job on a temp cache root resolves Job.inputs, the argv "
        "handed to execute() and the collected output (ShellOutputs._from_job). Checked: strictly inside job.cache_dir, same relative name from an "
        "independently built job on another cache root, the input file's extension kept/dropped as declared where the template spells none of "
        "its own (all readings; the remainder of the name is not constrained by the property), explicit paths carried unchanged."
    )
    pools = ctx.pick(POOLS, POOLS_THOROUGH)
    allc = list(cases(pools))
    dom = ctx.domain(
        "path-templates",
        bound=f"{len(TEMPLATES)} templates ({', '.join(t for t, _ in TEMPLATES)}) x file names {pools['f']} x strings {pools['s']} x ints {pools['n']} x floats {pools['x']} x lists {pools['l']} "
        f"x keep_extension x output type (File, File|None, MultiOutputFile for list references) x out in {OUT_MODES}: {len(allc)} cases",
        rule="one case per (template, keep_extension, type, values, out mode); non-trivial = the template references an input or an explicit path is supplied",
        exhaustive=True,
    )
    with Runner(ctx, procs=ctx.pick(8, 16)) as R:
        R.run(dom, _worker, chunked(allc, 60))


def replay(rec):
    c = rec["case"]
    c = {k: c[k] for k in ("template", "refs", "values", "keep", "otype", "mode")}
    with Harness() as H:
        try:
            o = observe(H, c)
            probs = problems(c, o)
        finally:
            if hasattr(H, "sub2"):
                H.sub2.close()
    print(f"replay C26: {c}\n  observed paths={o['paths']} cache_dir={o['cache_dir']}\n  argv={o['argv']} collected={o.get('collected', o.get('collected_error'))}")
    for clause, klass, text in probs:
        print(f"  [{clause}] {text}")
    if probs:
        print(f"VIOLATION property=C26 replay={rec.get('_path', '')}")
        return 1
    return 0
