"""C27 — container environments run the native command with remapped, mounted paths.

B: real `Job.run()` of generated shell tasks (file / list-of-file / directory inputs in several
   host directories, copy modes, output paths) under native.Environment, docker.Environment and
   singularity.Environment.  `pydra.environments.base.execute` (the process launcher) is replaced
   by a recorder inside the harness process, so no container runtime is needed.  The recorded
   container argv is judged by spec.envs.container_argv_problems against the argv recorded for
   the SAME task in the SAME cache directory under the native environment.
"""

from __future__ import annotations

import itertools
import multiprocessing as mp
import os
import re
import shutil
import tempfile
from pathlib import Path

import spec.envs as SE

PID = "C27"
NPROC = max(1, min(16, int(os.environ.get("VF_PROCS", "1") or 1)))  # measured: forked pools are slower than one process on a loaded VM


def _tmpbase():
    """temp dirs on tmpfs when there is one (the harness makes ~10 small files per Job.run)"""
    return "/dev/shm" if os.path.isdir("/dev/shm") and os.access("/dev/shm", os.W_OK) else None


class _HarnessEnv:
    """process-wide settings for the harness: pydra's persistent file-hash cache in a temp dir (not
    ~/.cache), no etelemetry network request from Submitter.__init__, pydra's error log silenced"""

    def __enter__(self):
        import logging

        self.hash_cache = tempfile.mkdtemp(prefix="vf_hashes_", dir=_tmpbase())
        self.old = {k: os.environ.get(k) for k in ("PYDRA_HASH_CACHE", "NO_ET")}
        os.environ["PYDRA_HASH_CACHE"] = self.hash_cache
        os.environ["NO_ET"] = "1"
        self.logger = logging.getLogger("pydra")
        self.level = self.logger.level
        self.logger.setLevel(logging.CRITICAL + 1)
        try:  # a SIGTERM must still run the `finally` blocks that remove the temp dirs
            import signal

            self.sigterm = signal.signal(signal.SIGTERM, lambda *_: (_ for _ in ()).throw(SystemExit(143)))
        except ValueError:  # not in the main thread
            self.sigterm = None
        return self

    def __exit__(self, *exc):
        self.logger.setLevel(self.level)
        if self.sigterm is not None:
            import signal

            signal.signal(signal.SIGTERM, self.sigterm)
        shutil.rmtree(self.hash_cache, ignore_errors=True)
        for k, v in self.old.items():
            if v is None:
                os.environ.pop(k, None)
            else:
                os.environ[k] = v
        return False

SINGLE_KINDS = ("pos", "flag", "fmt", "dir")  # one path per field
LIST_KINDS = ("rep", "sep", "lpos")  # list[File] fields
DIRS = ("A", "B", "S")  # S = A/sub (nested below A)
ROOTS = ("/mnt/pydra", "/r/", "/", "/a/b")
XARGS = ([], ["--rm"], "--rm -it")
OUTS = (None, "template", "A", "S")


# ------------------------------------------------------------------------------ case space


LEN2_QUICK = (("A", "A"), ("A", "B"), ("S", "A"))


def field_configs(dirs=DIRS, max_len=2, len2=None):
    out = []
    for kind in SINGLE_KINDS:
        for copy in (False, True):
            for d in dirs:
                out.append({"kind": kind, "copy": copy, "dirs": [d]})
    for kind in LIST_KINDS:
        for copy in (False, True):
            for n in range(1, max_len + 1):
                for ds in itertools.product(dirs, repeat=n) if (n == 1 or len2 is None) else len2:
                    out.append({"kind": kind, "copy": copy, "dirs": list(ds)})
    return out


def _ev(rt, root=None, xargs=(), image="busybox", tag=None):
    return {"runtime": rt, "root": root, "xargs": xargs if isinstance(xargs, str) else list(xargs), "image": image, "tag": tag}


def env_variants(full):
    vs = []
    for rt in ("docker", "singularity"):
        if full:
            for root in ROOTS:
                for xa in XARGS:
                    vs.append(_ev(rt, root, xa))
        else:
            for root in ROOTS:
                vs.append(_ev(rt, root))
            for xa in XARGS[1:]:
                vs.append(_ev(rt, None, xa, "repo/img", "1.2"))
    return vs


BOUNDS = {}


def groups_one_field(ctx):
    """every field configuration x output x environment variant (thorough: full cross product;
    quick: configurations x all environment variants without output, and single-directory
    configurations x every output under the two default environments)"""
    if ctx.thorough:
        envs = env_variants(True)
        fcs = field_configs()
        BOUNDS["one"] = (
            f"{len(fcs)} field configurations = kind {SINGLE_KINDS + LIST_KINDS} (lists of length 1-2) x copy_mode any/copy x host dirs {DIRS} (S nested in A), "
            f"x output {OUTS} x {len(envs)} environment variants = (docker, singularity) x roots {ROOTS} x xargs {XARGS}"
        )
        for fc in fcs:
            for out in OUTS:
                yield {"fields": [fc], "out": out, "envs": envs}
    else:
        envs = env_variants(False)
        fcs = field_configs(len2=LEN2_QUICK)
        fcs1 = field_configs(max_len=1)
        BOUNDS["one"] = (
            f"(a) {len(fcs)} field configurations = kind {SINGLE_KINDS + LIST_KINDS} x copy_mode any/copy x host dirs {DIRS} (lists: length 1, and length 2 over {LEN2_QUICK}), no output, "
            f"x {len(envs)} environment variants = (docker, singularity) x (roots {ROOTS} without xargs + xargs {XARGS[1:]} with default root and explicit tag); "
            f"(b) {len(fcs1)} single-directory configurations x output {OUTS[1:]} x (docker, singularity) default root"
        )
        for fc in fcs:
            yield {"fields": [fc], "out": None, "envs": envs}
        for fc in fcs1:
            for out in OUTS[1:]:
                yield {"fields": [fc], "out": out, "envs": [_ev("docker"), _ev("singularity")]}
    # optional file input left unset, and a task without any file input (trivial)
    yield {"fields": [{"kind": "unset", "copy": False, "dirs": []}], "out": None, "envs": envs}
    yield {"fields": [], "out": None, "envs": envs}


def groups_two_fields(ctx):
    envs = [_ev("docker"), _ev("singularity")]
    if ctx.thorough:
        fcs = field_configs(max_len=1)
        outs = (None, "A")
        BOUNDS["two"] = f"all ordered pairs of the {len(fcs)} single-directory field configurations (dirs {DIRS}) x output (none, explicit path in A) x (docker, singularity) default root"
    else:
        fcs = [fc for fc in field_configs(dirs=("A", "S"), max_len=1) if fc["kind"] in ("pos", "dir", "rep")]
        outs = (None,)
        BOUNDS["two"] = f"all ordered pairs of {len(fcs)} field configurations (kinds pos, dir, rep; copy any/copy; dirs A, S) without output x (docker, singularity) default root"
    for f1 in fcs:
        for f2 in fcs:
            for out in outs:
                yield {"fields": [f1, f2], "out": out, "envs": envs}


def groups_space_dir(ctx):
    envs = [_ev("docker"), _ev("singularity")]
    for kind in ("pos", "flag"):
        yield {"fields": [{"kind": kind, "copy": False, "dirs": ["W"]}], "out": None, "envs": envs}


def groups_inside_cache_root(ctx):
    """inputs that live inside the job's cache root (outputs of an upstream job): the parent directory of such a path is
    still mounted on its own, read-only unless the input is copied -- the read-write mount of the cache root does not replace it"""
    envs = [_ev("docker"), _ev("singularity")] + ([_ev("docker", "/r/"), _ev("singularity", "/")] if ctx.thorough else [])
    for kind in ("pos", "flag", "dir", "rep", "sep"):
        for copy in (False, True):
            yield {"fields": [{"kind": kind, "copy": copy, "dirs": ["C"] if kind not in LIST_KINDS else ["C", "A"]}], "out": None, "envs": envs}
    yield {"fields": [{"kind": "pos", "copy": False, "dirs": ["C"]}, {"kind": "pos", "copy": False, "dirs": ["A"]}], "out": "template", "envs": envs}


# ------------------------------------------------------------------------------ native harness


def _host_dirs(tmp):
    # C: the directory of an upstream job INSIDE the cache root (an upstream node's output fed to a container node)
    return {"A": tmp / "inA", "B": tmp / "inB", "S": tmp / "inA" / "sub", "W": tmp / "in W", "C": tmp / "cache" / "shell-0123456789abcdef0123456789abcdef"}


def _build_task(group, tmp):
    """-> (task, originals) ; originals[i] = list of host paths given to field i"""
    from pydra.compose import shell
    from fileformats.generic import File, Directory

    hd = _host_dirs(tmp)
    for d in hd.values():
        d.mkdir(parents=True, exist_ok=True)
    inputs, values, originals = [], {}, []
    pos = 0
    for i, fc in enumerate(group["fields"]):
        pos += 1
        name = f"f{i}"
        copy_mode = File.CopyMode.copy if fc["copy"] else File.CopyMode.any
        paths = []
        for j, d in enumerate(fc["dirs"]):
            p = hd[d] / (f"d{i}{j}" if fc["kind"] == "dir" else f"f{i}{j}.txt")
            if fc["kind"] == "dir":
                p.mkdir(exist_ok=True)
                (p / "inner.txt").write_text("x")
            else:
                p.write_text(f"{i}{j}")
            paths.append(p)
        originals.append([str(p) for p in paths])
        k = fc["kind"]
        if k == "pos":
            inputs.append(shell.arg(name=name, type=File, position=pos, argstr="", copy_mode=copy_mode, help=""))
            values[name] = paths[0]
        elif k == "flag":
            inputs.append(shell.arg(name=name, type=File, position=pos, argstr=f"-{name}", copy_mode=copy_mode, help=""))
            values[name] = paths[0]
        elif k == "fmt":
            inputs.append(shell.arg(name=name, type=File, position=pos, argstr=f"--{name}={{{name}}}", copy_mode=copy_mode, help=""))
            values[name] = paths[0]
        elif k == "dir":
            inputs.append(shell.arg(name=name, type=Directory, position=pos, argstr=f"-{name}", copy_mode=copy_mode, help=""))
            values[name] = paths[0]
        elif k == "rep":
            inputs.append(shell.arg(name=name, type=list[File], position=pos, argstr=f"-{name}...", copy_mode=copy_mode, help=""))
            values[name] = paths
        elif k == "sep":
            inputs.append(shell.arg(name=name, type=list[File], position=pos, argstr=f"-{name}", sep=",", copy_mode=copy_mode, help=""))
            values[name] = paths
        elif k == "lpos":
            inputs.append(shell.arg(name=name, type=list[File], position=pos, argstr="", copy_mode=copy_mode, help=""))
            values[name] = paths
        elif k == "unset":
            inputs.append(shell.arg(name=name, type=File | None, default=None, position=pos, argstr=f"-{name}", help=""))
        else:
            raise ValueError(k)
    # non-file inputs that must pass through untouched
    inputs.append(shell.arg(name="txt", type=str, position=pos + 1, argstr="--txt", help=""))
    inputs.append(shell.arg(name="num", type=int, position=pos + 2, argstr="-n", help=""))
    inputs.append(shell.arg(name="vflag", type=bool, position=pos + 3, argstr="-v", help=""))
    values.update(txt="mnt/pydra:ro", num=3, vflag=True)
    outputs = []
    out_host = None
    if group["out"] is not None:
        if group["out"] == "template":
            outputs.append(shell.outarg(name="o", type=File, path_template="made_by_task.out", argstr="-o", position=pos + 4, help=""))
        else:
            outputs.append(shell.outarg(name="o", type=File, path_template="unused.out", argstr="-o", position=pos + 4, help=""))
            out_host = str(hd[group["out"]] / "explicit.out")
            values["o"] = out_host
    Task = shell.define("vfcmd", inputs=inputs, outputs=outputs)
    return Task(**values), originals, out_host


def _make_env(ev):
    from pydra.environments import docker, singularity

    cls = {"docker": docker.Environment, "singularity": singularity.Environment}[ev["runtime"]]
    kw = {"image": ev["image"], "xargs": ev["xargs"]}
    if ev["root"] is not None:
        kw["root"] = ev["root"]
    if ev["tag"] is not None:
        kw["tag"] = ev["tag"]
    return cls(**kw)


def run_group(group):
    """one task, run natively and under every container variant of the group.
    -> list of per-variant records (json-able)"""
    import pydra.environments.base as base
    from pydra.engine.job import Job
    from pydra.engine.submitter import Submitter
    from pydra.environments import native

    tmp = Path(tempfile.mkdtemp(prefix="vf_c27_", dir=_tmpbase()))
    real_execute = base.execute
    cwd0 = os.getcwd()
    recs = []
    try:
        task, originals, out_host = _build_task(group, tmp)
        cache_root = tmp / "cache"
        cache_root.mkdir(exist_ok=True)
        calls = []
        touch = []

        def recorder(cmd, strip=False, **kw):
            calls.append([str(c) for c in cmd])
            for t in touch:  # the effect of the command: the declared output file appears on the host
                Path(t).parent.mkdir(parents=True, exist_ok=True)
                Path(t).write_text("out")
            return (0, "", "")

        base.execute = recorder
        sub = Submitter(cache_root=cache_root, worker="debug")
        # ---- native reference run
        job = Job(task=task, submitter=sub, name="vf", environment=native.Environment())
        cache_dir = str(job.cache_dir)
        if group["out"] == "template":
            touch.append(str(job.cache_dir / "made_by_task.out"))
        elif out_host:
            touch.append(out_host)
        job.run()
        if len(calls) != 1:
            raise RuntimeError(f"native run made {len(calls)} launcher calls")
        native_argv = calls.pop()
        # host paths, from what the harness gave to the task and the native argv itself
        ro_paths, rw_paths = [], []
        n_copied = 0
        for fc, orig in zip(group["fields"], originals):
            if fc["copy"]:
                n_copied += len(orig)
            else:
                ro_paths += orig
        in_cache = re.findall(re.escape(cache_dir) + r"/[A-Za-z0-9_.\-/]+", " ".join(native_argv))
        rw_paths += in_cache
        if out_host:
            rw_paths.append(out_host)
        expect_in_cache = n_copied + (1 if group["out"] == "template" else 0)
        space = any("W" in fc["dirs"] for fc in group["fields"])
        if len(in_cache) != expect_in_cache or (not space and any(not any(p in a for a in native_argv) for p in ro_paths)):
            raise RuntimeError(f"harness misreads the native argv {native_argv}: {len(in_cache)} paths in the cache dir, expected {expect_in_cache}")
        # ---- container runs of the same task in the same cache directory
        for ev in group["envs"]:
            shutil.rmtree(cache_dir, ignore_errors=True)
            os.chdir(cwd0)
            del calls[:]
            env = _make_env(ev)
            root = env.root
            xargs = ev["xargs"].split() if isinstance(ev["xargs"], str) else list(ev["xargs"])
            job = Job(task=task, submitter=sub, name="vf", environment=env)
            exc = None
            try:
                job.run(rerun=True)
            except Exception as e:  # noqa
                exc = f"{type(e).__name__}: {e}"[:300]
            rec = {
                "spec": {"fields": group["fields"], "out": group["out"], "env": ev},
                "native_argv": _rel(native_argv, tmp),
                "container_argv": [_rel(c, tmp) for c in calls],
                "raised": _relstr(exc, tmp) if exc else None,
                "problems": [],
            }
            if exc is not None:
                rec["problems"].append(f"crash: {_relstr(exc, tmp)}")
            elif len(calls) != 1:
                rec["problems"].append(f"launcher: {len(calls)} calls of the process launcher")
            else:
                tag = ev["tag"] or "latest"
                probs = SE.container_argv_problems(
                    ev["runtime"],
                    calls[0],
                    image=ev["image"],
                    tag=tag,
                    xargs=xargs,
                    root=root,
                    cache_root=str(cache_root),
                    cache_dir=cache_dir,
                    native_argv=native_argv,
                    ro_paths=ro_paths,
                    rw_paths=rw_paths,
                )
                rec["problems"] = [_relstr(p, tmp) for p in probs]
                rec["expected_argv"] = _rel(
                    SE.container_argv_ref(ev["runtime"], ev["image"], tag, xargs, root, str(cache_root), cache_dir, native_argv, ro_paths, rw_paths), tmp
                )
            recs.append(rec)
        return recs
    finally:
        base.execute = real_execute
        os.chdir(cwd0)
        shutil.rmtree(tmp, ignore_errors=True)


def _relstr(s, tmp):
    return s.replace(str(tmp), "<T>") if isinstance(s, str) else s


def _rel(argv, tmp):
    return [_relstr(a, tmp) for a in argv]


def classify(rec):
    """finding class of a failing record (narrow: input shape + failure site), None = unclassified"""
    fields = rec["spec"]["fields"]
    has_list = any(f["kind"] in LIST_KINDS and f["dirs"] for f in fields)
    probs = rec["problems"]
    if any("W" in f["dirs"] for f in fields):
        return "whitespace-in-directory-name"
    if has_list and probs and all(p.startswith("crash: AttributeError: 'list' object has no attribute 'parent'") for p in probs):
        return "list-of-files-input:get_bindings-AttributeError"
    return None


def _run_group_safe(group):
    try:
        return ("ok", group, run_group(group))
    except Exception as e:  # harness failure, not a verdict
        import traceback

        return ("error", group, traceback.format_exc()[-1500:] + repr(e))


def _drive(ctx, dom, groups):
    from vf.core import CheckerError

    groups = list(groups)
    # pydra is imported (and one job run) in the parent so that forked workers share the warm modules
    run_group({"fields": [{"kind": "dir", "copy": True, "dirs": ["A"]}], "out": "template", "envs": [_ev("docker")]})
    pool = mp.get_context("fork").Pool(NPROC) if NPROC > 1 else None
    try:
        results = pool.imap(_run_group_safe, groups, chunksize=2) if pool else map(_run_group_safe, groups)
        for status, group, recs in results:
            if status == "error":
                raise CheckerError(f"C27 harness failed on {group['fields']}: {recs}")
            for rec in recs:
                key = repr(rec["spec"])
                nontrivial = any(f["dirs"] for f in rec["spec"]["fields"])
                dom.case(key, nontrivial=nontrivial, sample=rec)
                if rec["problems"]:
                    ctx.fail(classify(rec), f"{rec['spec']['env']['runtime']}: " + "; ".join(rec["problems"])[:400], rec, domain=dom)
    finally:
        if pool:
            pool.terminate()
            pool.join()


def deductive(ctx):
    """engine D: Docker.execute / Singularity.execute hand the launcher runtime prefix ... working
    directory flag, image:tag and then exactly the native argv of the re-mapped values, on every path"""
    from contracts import container as CT
    from pyvc.verify import verify, summarize

    for kind in ("docker", "singularity"):
        summarize(ctx, verify(ctx, CT.container_contract(kind)))


def run(ctx):
    deductive(ctx)
    _run_bounded(ctx)


def _run_bounded(ctx):
    ctx.level = "other"
    ctx.explanation = (
        "Real Job.run() of generated shell tasks under docker.Environment and singularity.Environment with the process "
        "launcher (environments.base.execute) replaced by a recorder: the recorded argv is parsed by the runtime's CLI "
        "grammar and must consist of the runtime prefix, the user's extra args, bind mounts, one working directory, the "
        "image and then exactly the argv recorded for the same task under native.Environment with every host file path "
        "p replaced by <root>p; the parent of every such path must be visible at <root><parent> (ro, or rw for copied "
        "inputs / outputs / anything below the cache root), the cache root rw, the working directory <root><job cache dir>. "
        "Bounded: one or two file-typed fields per task; no container is started, so what docker/singularity do with "
        "the argv is outside the check."
    )
    ctx.trust(
        "the recorder replaces pydra.environments.base.execute; docker/singularity themselves are not run (their CLI grammar -v/-B src:dst:mode, -w/--pwd is assumed)",
        "the native argv of the same task in the same cache directory is the reference (its own correctness is C22/C23)",
    )
    with _HarnessEnv():
        _run(ctx)


def _run(ctx):
    g1 = list(groups_one_field(ctx))
    d1 = ctx.domain(
        "one-file-field",
        bound=BOUNDS["one"] + "; + an unset optional file field and a task without file inputs under every variant",
        rule="one Job.run per (task, environment variant), plus one native Job.run per task as reference; non-trivial = the argv contains at least one host input path",
        exhaustive=True,
    )
    _drive(ctx, d1, g1)
    g2 = list(groups_two_fields(ctx))
    d2 = ctx.domain("two-file-fields", bound=BOUNDS["two"], rule="as one-file-field", exhaustive=True)
    _drive(ctx, d2, g2)
    d3 = ctx.domain(
        "directory-name-with-space",
        bound="one file field (positional, flag) in a host directory whose name contains a space x (docker, singularity)",
        rule="as one-file-field",
        exhaustive=True,
    )
    _drive(ctx, d3, groups_space_dir(ctx))
    d4 = ctx.domain(
        "inputs-inside-the-cache-root",
        bound="one file / directory / list-of-files field (pos, flag, dir, rep, sep; copy_mode any/copy) whose path lies in an upstream job's directory inside the cache root (lists: one element there, one outside), and a two-field task with a templated output, x (docker, singularity)" + (" x roots default, /r/, /" if ctx.thorough else ""),
        rule="as one-file-field: the parent of the input is mounted on its own (read-only unless copied) next to the read-write cache-root mount",
        exhaustive=True,
    )
    _drive(ctx, d4, groups_inside_cache_root(ctx))


def replay(rec):
    case = rec["case"]
    spec = case["spec"]
    group = {"fields": spec["fields"], "out": spec["out"], "envs": [spec["env"]]}
    with _HarnessEnv():
        out = run_group(group)[0]
    print(f"replay {PID}: spec={spec}")
    print(f"  native argv   : {out['native_argv']}")
    print(f"  container argv: {out['container_argv']}")
    print(f"  expected argv : {out.get('expected_argv')}")
    print(f"  raised        : {out['raised']}")
    print(f"  problems      : {out['problems']}")
    if out["problems"]:
        print(f"VIOLATION property={PID} replay={rec.get('_path', '')}")
        return 1
    return 0
