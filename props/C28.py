"""C28 — batch-scheduler workers follow the scheduler's verdict.

B: the scheduler is an INPUT.  A scripted scheduler (a timeline of abstract job states, one per
   polling interval of the worker: pending, running, completed, failed, cancelled, timeout,
   preempted, node failure, missing accounting, ...) answers the sbatch/squeue/sacct/scontrol
   (SLURM) and qsub/qstat/qacct (SGE) calls of the real workers: `pydra.workers.base.read_and_display_async` is replaced inside the
   harness process and every argv is recorded; `asyncio.sleep` inside the two worker modules is
   virtual.  The real `Submitter(worker="slurm"|"sge", ...)(task)` is called; when the script says
   the job ran, the batch script the worker wrote is executed in-process (the real
   `load_and_run` on the real job pickle), so a result (or an errored result and an error file)
   exists exactly when the scripted scheduler says so.  Outcome (complete / failed / still waiting,
   number of requeue or resubmit actions, event it was decided on) is judged by
   spec.envs.scheduler_verdict_ref, the submit argv by spec.envs.submit_option_problems.
"""

from __future__ import annotations

import asyncio
import itertools
import json
import os
import re
import shutil
import sys
import tempfile
import traceback
from pathlib import Path

import spec.envs as SE
from pydra.compose import python

PID = "C28"


def _tmpbase():
    return "/dev/shm" if os.path.isdir("/dev/shm") and os.access("/dev/shm", os.W_OK) else None


class _HarnessEnv:
    """process-wide settings for the harness: pydra's persistent file-hash cache in a temp dir (not
    ~/.cache), no etelemetry network request from Submitter.__init__, pydra's error log silenced"""

    def __enter__(self):
        import logging

        self.hash_cache = tempfile.mkdtemp(prefix="vf_hashes_", dir=_tmpbase())
        self.old = {k: os.environ.get(k) for k in ("PYDRA_HASH_CACHE", "NO_ET")}
        os.environ["PYDRA_HASH_CACHE"] = self.hash_cache
        os.environ["NO_ET"] = "1"
        self.logger = logging.getLogger("pydra")
        self.level = self.logger.level
        self.logger.setLevel(logging.CRITICAL + 1)
        try:  # a SIGTERM must still run the `finally` blocks that remove the temp dirs
            import signal

            self.sigterm = signal.signal(signal.SIGTERM, lambda *_: (_ for _ in ()).throw(SystemExit(143)))
        except ValueError:  # not in the main thread
            self.sigterm = None
        return self

    def __exit__(self, *exc):
        self.logger.setLevel(self.level)
        if self.sigterm is not None:
            import signal

            signal.signal(signal.SIGTERM, self.sigterm)
        shutil.rmtree(self.hash_cache, ignore_errors=True)
        for k, v in self.old.items():
            if v is None:
                os.environ.pop(k, None)
            else:
                os.environ[k] = v
        return False


@python.define
def C28Body(a: int) -> int:
    if os.environ.get("VF_C28_NODE_FAILS"):
        raise RuntimeError("the task failed on the node")
    return a + 1


class ScriptExhausted(BaseException):
    """the scripted scheduler has no further answer: the worker is still waiting"""


# ------------------------------------------------------------------------------ scripted scheduler


class FakeScheduler:
    """Time-driven scripted scheduler.  script[t] is the state of the (latest) submitted job during
    tick t; tick 0 starts at the first submission and every sleep of the worker afterwards moves
    the clock one tick.  Status queries report on the current tick and do not change anything.
    A definite verdict (completed / failed) at the end of the script is permanent, as in real
    accounting; when the script ends otherwise the observation ends (ScriptExhausted)."""

    STICKY_TICKS = 200  # how long a worker may take to act on a permanent verdict
    MAX_QUERIES_PER_TICK = 40

    def __init__(self, kind, script, gone_form="empty"):
        self.kind, self.script, self.gone_form = kind, list(script), gone_form
        self.tick = None  # None = nothing submitted yet
        self.commands = []
        self.jobs = {}
        self.next_id = 4100
        self.requeues = 0
        self.submits = []
        self.queries_this_tick = 0
        self.virtual_time = 0.0
        self.effects_done = set()
        self.observed = set()
        self.notes = []
        self.current_job = None

    # ---- time
    def on_sleep(self, d):
        self.virtual_time += float(d or 0)
        if self.tick is None:
            return
        self.tick += 1
        self.queries_this_tick = 0
        n = len(self.script)
        if self.tick >= n:
            if not (n and self.script[-1] in SE.TERMINAL):
                raise ScriptExhausted()
            if self.tick >= n + self.STICKY_TICKS:
                raise ScriptExhausted(f"no reaction {self.STICKY_TICKS} ticks after a permanent verdict")
        self._effects()

    def index(self):
        return min(self.tick, len(self.script) - 1)

    def _event(self, reveals=True):
        """the event a status command issued now reports on"""
        if self.tick is None or not self.script:
            raise ScriptExhausted()
        self.queries_this_tick += 1
        if self.queries_this_tick > self.MAX_QUERIES_PER_TICK:
            raise ScriptExhausted("busy loop: status queries without sleeping")
        i = self.index()
        if reveals:
            self.observed.add(i)
        return self.script[i]

    # ---- what happened on the node
    def _effects(self):
        if self.tick is None or not self.script or self.tick >= len(self.script) or self.tick in self.effects_done:
            return
        self.effects_done.add(self.tick)
        ev = self.script[self.tick]
        job = self.jobs[self.current_job]
        if ev == SE.COMPLETED:
            self._run_payload(job, fail=False)
        elif ev == SE.FAILED:
            self._run_payload(job, fail=True)
        elif ev in (SE.TIMEOUT, SE.PREEMPTED):
            self._killed_while_running(job)

    def _payload(self, job):
        script = Path(job["script"])
        text = script.read_text()
        if self.kind == "slurm":
            m = re.search(r" -c '(.*)'\s*$", text, re.S)
            if not m:
                raise RuntimeError(f"harness: no python payload in batch script {text!r}")
            return m.group(1), ["-c"]
        py = script.with_suffix(".py")
        return py.read_text(), [str(py), "1"]

    def _job_pkl(self, job):
        src, _ = self._payload(job)
        m = re.search(r"""load_and_run\(\s*["']([^"']+)["']""", src) or re.search(r"""\(\s*['"]([^'"]+_job\.pklz)['"]""", src)
        return m.group(1) if m else None

    def _run_payload(self, job, fail):
        from pydra.engine.job import load_job

        src, argv = self._payload(job)
        pkl = self._job_pkl(job)
        if pkl:
            try:
                j = load_job(job_pkl=pkl)
                if j.lockfile.exists():
                    self.notes.append("stale lock of a killed run was still there when the requeued job started")
                    j.lockfile.unlink()
            except Exception as e:  # noqa
                self.notes.append(f"job pickle unreadable: {e!r}"[:200])
        old_argv, cwd = sys.argv, os.getcwd()
        if fail:
            os.environ["VF_C28_NODE_FAILS"] = "1"
        err = ""
        try:
            sys.argv = argv
            exec(compile(src, "<batch-script-payload>", "exec"), {"__name__": "__main__"})  # noqa: S102
        except Exception:
            err = traceback.format_exc()
        finally:
            sys.argv = old_argv
            os.environ.pop("VF_C28_NODE_FAILS", None)
            os.chdir(cwd)
        if bool(err) != bool(fail):
            self.notes.append(f"node payload {'failed' if err else 'succeeded'} unexpectedly: {err[-300:]}")
        for key in ("err", "out"):
            if job.get(key):
                p = Path(job[key].replace("%j", job["id"]))
                try:
                    p.parent.mkdir(parents=True, exist_ok=True)
                    p.write_text(err if key == "err" else "")
                except OSError:
                    pass

    def _killed_while_running(self, job):
        """what a SIGKILLed Job.run leaves behind: the lock file and <uid>_info.json"""
        from pydra.engine.job import load_job

        pkl = self._job_pkl(job)
        if not pkl:
            return
        try:
            j = load_job(job_pkl=pkl)
            j.cache_root.mkdir(parents=True, exist_ok=True)
            j.lockfile.write_text("")
            (j.cache_root / f"{j.uid}_info.json").write_text(json.dumps({"checksum": j.checksum}))
        except Exception as e:  # noqa
            self.notes.append(f"could not simulate the killed run: {e!r}"[:200])

    # ---- the commands
    async def __call__(self, *cmd, hide_display=False, strip=False):
        cmd = [str(c) for c in cmd]
        self.commands.append(cmd)
        handler = getattr(self, "_cmd_" + cmd[0], None)
        if handler is None:
            return 127, "", f"{cmd[0]}: command not found\n"
        rc, out, err = handler(cmd)
        return rc, (out.strip() if strip else out), err

    def _submit(self, cmd):
        jid = str(self.next_id)
        self.next_id += 7
        occ = SE.submit_option_occurrences(self.kind, cmd[1:-1])
        self.jobs[jid] = {"id": jid, "script": cmd[-1], "argv": cmd, "err": (occ["error"] or [None])[-1], "out": (occ["output"] or [None])[-1]}
        self.submits.append(cmd)
        self.current_job = jid
        if self.tick is None:
            self.tick = 0
            self._effects()
        return jid

    # SLURM ------------------------------------------------------------
    def _cmd_sbatch(self, cmd):
        jid = self._submit(cmd)
        return 0, f"Submitted batch job {jid}\n", ""

    def _cmd_squeue(self, cmd):
        ev = self._event(reveals=False)
        jid = cmd[-1]
        if ev in (SE.PENDING, SE.RUNNING):
            self.observed.add(self.index())
        if ev == SE.PENDING:
            return 0, f"{jid:>18} debug vf.main   tester PD       0:00      1 (Priority)\n", ""
        if ev == SE.RUNNING:
            return 0, f"{jid:>18} debug vf.main   tester  R       0:07      1 node001\n", ""
        if self.gone_form == "error":
            return 1, "", "slurm_load_jobs error: Invalid job id specified\n"
        return 0, "", ""

    _SACCT = {
        SE.PENDING: ("PENDING", "0:0"),
        SE.RUNNING: ("RUNNING", "0:0"),
        SE.RUNNING_ACCT: ("RUNNING", "0:0"),
        SE.COMPLETED: ("COMPLETED", "0:0"),
        SE.COMPLETED_NORESULT: ("COMPLETED", "0:0"),
        SE.FAILED: ("FAILED", "1:0"),
        SE.CANCELLED: ("CANCELLED+", "0:0"),
        SE.TIMEOUT: ("TIMEOUT", "0:0"),
        SE.PREEMPTED: ("PREEMPTED", "0:0"),
        SE.NODE_FAIL: ("NODE_FAIL", "1:0"),
    }

    def _cmd_sacct(self, cmd):
        ev = self._event()
        jid = cmd[cmd.index("-j") + 1] if "-j" in cmd else cmd[-1]
        if ev == SE.MISSING:
            return 0, "", ""
        state, code = self._SACCT[ev]
        return 0, f"{jid:<12} {state:>10} {code:>8} \n", ""

    def _cmd_scontrol(self, cmd):
        if cmd[1:2] == ["requeue"]:
            self.requeues += 1
            return 0, "", ""
        return 1, "", "scontrol: unsupported in the simulation\n"

    # SGE --------------------------------------------------------------
    def _cmd_qsub(self, cmd):
        jid = self._submit(cmd)
        return 0, f'Your job-array {jid}.1-1:1 ("vf.main") has been submitted\n', ""

    def _cmd_qstat(self, cmd):
        ev = self._event(reveals=False)
        jid = cmd[-1]
        if ev in (SE.PENDING, SE.RUNNING):
            self.observed.add(self.index())
            return 0, f"==============================================================\njob_number: {jid}\n", ""
        return 1, "", f"Following jobs do not exist: \n{jid}\n"

    _QACCT = {
        SE.COMPLETED: ("0", "0"),
        SE.COMPLETED_NORESULT: ("0", "0"),
        SE.FAILED: ("0", "1"),
        SE.CANCELLED: ("100 : assumedly after job", "137"),
        SE.TIMEOUT: ("37  : qmaster enforced h_rt, h_cpu, or h_vmem limit", "137"),
        SE.PREEMPTED: ("25  : rescheduling", "0"),
        SE.NODE_FAIL: ("21  : in recognizing job", "0"),
    }

    def _cmd_qacct(self, cmd):
        ev = self._event()
        jid = cmd[-1]
        if ev in SE.WAIT:
            return 1, "", f"error: job id {jid} not found\n"
        if ev == SE.MISSING:
            return 0, "", ""
        failed, status = self._QACCT[ev]
        return 0, (f"==============================================================\nqname        all.q\njobname      vf.main\njobnumber    {jid}\ntaskid       1\n" f"failed       {failed}\nexit_status  {status}\n"), ""


class _VirtualAsyncio:
    """stands in for the `asyncio` name inside a worker module: sleep costs no wall time"""

    def __init__(self, fake):
        self._fake = fake

    def __getattr__(self, name):
        return getattr(asyncio, name)

    async def sleep(self, delay=0, result=None):
        self._fake.on_sleep(delay)
        return result


# ------------------------------------------------------------------------------ one case

USER_VALUES = {"name": "myjob", "output": "{T}/user/out-%j.txt", "error": "{T}/user/err-%j.txt"}


def user_tokens(kind, forms, tmp):
    """forms = {"name": "short"|"long"|None, ...} -> (argument string, {kind: (tokens, value)})"""
    toks, user = [], {}
    for k in ("name", "output", "error"):
        form = forms.get(k)
        if not form:
            continue
        short, long = SE.SUBMIT_OPTIONS[kind][k]
        value = USER_VALUES[k].replace("{T}", str(tmp))
        t = [short, value] if form == "short" else [f"{long}={value}"]
        toks += t
        user[k] = (t, value)
    return " ".join(toks), user


def run_case(case):
    """case = {"scheduler", "mode", "script", "options": {kind: form}, "gone"} -> observation dict"""
    from pydra.engine.submitter import Submitter  # first: pydra.workers.base alone is a circular import

    import pydra.workers.base as wbase
    import pydra.workers.sge as sge_mod
    import pydra.workers.slurm as slurm_mod

    kind = case["scheduler"]
    tmp = Path(tempfile.mkdtemp(prefix="vf_c28_", dir=_tmpbase()))
    fake = FakeScheduler(kind, case["script"], case.get("gone", "empty"))
    argstr, user = user_tokens(kind, case.get("options", {}), tmp)
    real_rada = wbase.read_and_display_async
    mods = (slurm_mod, sge_mod)
    real_aio = [m.asyncio for m in mods]
    real_load_job = sge_mod.load_job
    cwd0 = os.getcwd()
    obs = {"case": case, "argument_string": argstr.replace(str(tmp), "<T>")}
    wbase.read_and_display_async = fake
    for m in mods:
        m.asyncio = _VirtualAsyncio(fake)
    sub = None
    try:
        kw = {"sbatch_args": argstr} if kind == "slurm" else {"qsub_args": argstr}
        if kind == "sge" and case.get("mode") == "poll-scheduler":
            kw["poll_for_result_file"] = False
        cache_root = tmp / "cache"
        cache_root.mkdir()
        final, exc, tb_fns = None, None, []
        try:
            sub = Submitter(worker=kind, cache_root=cache_root, **kw)
            # SGE only: harness-side workarounds of known defects, so that the code behind them is reached
            if kind == "sge" and case.get("workaround", 0) >= 1:
                sub.worker.threads_used = 0
            if kind == "sge" and case.get("workaround", 0) >= 2:
                sge_mod.load_job = lambda job_pkl, ind=None: real_load_job(job_pkl=job_pkl)
            res = sub(C28Body(a=1))
            final = "failed" if res.errored else "complete"
            if final == "complete" and res.outputs.out != 2:
                final = "complete-with-wrong-output"
        except ScriptExhausted:
            final = "waiting"
        except Exception as e:  # noqa
            final = "failed"
            exc = f"{type(e).__name__}: {e}"[:200]
            tb_fns = [f.name for f in traceback.extract_tb(e.__traceback__) if "/pydra/workers/" in f.filename]
        n_requeue = fake.requeues + max(0, len(fake.submits) - 1)
        decided_at = len(case["script"]) if final == "waiting" else (-1 if fake.tick is None or not case["script"] else fake.index())
        observed = sorted(fake.observed)
        obs.update(
            final=final,
            raised=exc.replace(str(tmp), "<T>") if exc else None,
            raised_in=tb_fns,
            requeues=n_requeue,
            decided_at=decided_at,
            observed_events=observed,
            virtual_time_s=round(fake.virtual_time, 1),
            commands=[[a.replace(str(tmp), "<T>") for a in c] for c in fake.commands][:12],
            notes=fake.notes,
        )
        probs = []
        allowed = SE.scheduler_verdict_ref(tuple(case["script"]), observed)
        if not SE.verdict_allowed(tuple(case["script"]), final, n_requeue, decided_at, observed):
            probs.append(["verdict", f"reported {final} after {n_requeue} requeue/resubmit action(s), decided on event {decided_at}; allowed (final, requeues, event): {sorted(allowed, key=repr)}"])
        for sargv in fake.submits:
            for what, k in SE.submit_option_problems(kind, sargv[1:], user):
                probs.append(["option", f"{what}:{k}"])
        obs["problems"] = probs
        return obs
    finally:
        wbase.read_and_display_async = real_rada
        sge_mod.load_job = real_load_job
        for m, a in zip(mods, real_aio):
            m.asyncio = a
        os.chdir(cwd0)
        try:
            if sub is not None:
                sub.close()
        except Exception:  # noqa
            pass
        shutil.rmtree(tmp, ignore_errors=True)


def classes(obs):
    """{finding class or None: [problems]}; class predicates are narrow: scheduler + the user
    option / call site + the exception raised there"""
    case = obs["case"]
    kind, opts = case["scheduler"], case.get("options", {})
    by = {}
    for p in obs["problems"]:
        k = None
        raised, fns = obs.get("raised") or "", obs.get("raised_in") or []
        if p[0] == "verdict" and obs["final"] == "failed":
            if kind == "slurm" and opts.get("error") and raised.startswith("AttributeError: 'NoneType' object has no attribute 'replace'") and fns[-1:] == ["run"]:
                k = "slurm-user-error-option:error_file-None.replace"
            elif kind == "sge" and raised.startswith("TypeError: load_job() got an unexpected keyword argument 'ind'"):
                k = "sge-load_job-ind-kwarg@" + (fns[-1] if fns else "?")
            elif kind == "sge" and raised.startswith("TypeError: unsupported operand type(s) for +=: 'dict' and 'int'") and fns[-1:] == ["run"]:
                k = "sge-threads_used-is-a-dict"
            elif kind == "sge" and case.get("mode") == "poll-scheduler" and raised.startswith("KeyError:") and fns[-1:] == ["_rerun_job_array"]:
                k = "sge-rerun-KeyError-result_files_by_jobid@poll-scheduler"
        elif p[0] == "option" and kind == "sge" and p[1].startswith("dropped:"):
            k = "sge-qsub_args-never-passed-to-qsub"
        by.setdefault(k, []).append(p)
    return by


# ------------------------------------------------------------------------------ case space


def option_forms(kind, long_forms):
    forms = (None, "short", "long") if (kind == "slurm" and long_forms) else (None, "short")
    for n, o, e in itertools.product(forms, repeat=3):
        yield {k: v for k, v in (("name", n), ("output", o), ("error", e)) if v}


def _drive(ctx, dom, cases):
    for case in cases:
        obs = run_case(case)
        script = case["script"]
        nontrivial = any(e not in SE.WAIT for e in script) or bool(case.get("options"))
        dom.case(repr(case), nontrivial=nontrivial, sample=obs)
        for n, (klass, probs) in enumerate(classes(obs).items()):
            what = f"{case['scheduler']} {case.get('mode', '')} options={case.get('options')} script={list(script)}: {probs[:2]} raised={obs.get('raised')}"
            ctx.fail(klass, what[:600], obs, domain=dom if n == 0 else None)  # a case counts once as failed


def deductive(ctx):
    """engine D: SlurmWorker._verify_exit_code follows the scheduler's verdict on every path"""
    from contracts import slurm as SL
    from pyvc.verify import verify, summarize

    res = verify(ctx, SL.verify_exit_code_contract())
    summarize(ctx, res, replay=lambda rec: replay_verify_exit_code(rec))


# State column of `sacct -X -o JobID,State,ExitCode` (slurm manual, JOB STATE CODES)
SACCT_STATES = ["COMPLETED", "FAILED", "NODE_FAIL", "OUT_OF_MEMORY", "BOOT_FAIL", "DEADLINE", "CANCELLED", "TIMEOUT", "PREEMPTED", "RUNNING", "PENDING", "REQUEUED", "SUSPENDED"]


def sacct_verdict_table(ctx):
    dom = ctx.domain(
        "sacct verdict table -> SlurmWorker._verify_exit_code",
        bound=f"state words {SACCT_STATES} x exit code in {{0, 1, 2, 137}} x signal in {{0, 9}}; the real _verify_exit_code with `sacct` answered by the table entry (one line, manual format) and an error file ending in an Exception line",
        rule="one case per (state, exit code, signal); complete only for COMPLETED with exit code 0; CANCELLED/TIMEOUT/PREEMPTED handed back; RUNNING/PENDING no verdict; everything else a reported failure",
        exhaustive=True,
    )
    for st_ in SACCT_STATES:
        for ec in (0, 1, 2, 137):
            for sig in (0, 9):
                got = native_verify_exit_code(st_, ec, sig)
                if got[0] == "unparsed":
                    raise CheckerError(f"sacct line for {st_} not parsed by the worker's own expression: {got[1]!r}")
                shown = st_[:9] if len(st_) > 10 else st_
                dom.case((st_, ec, sig), nontrivial=not (st_ == "COMPLETED" and ec == 0), sample={"state": st_, "exit": f"{ec}:{sig}", "answer": list(map(str, got))})
                for p in exit_code_verdict_problems(shown, ec, got):
                    ctx.fail(None, f"sacct `{st_} {ec}:{sig}`: {p}", {"sacct_status": st_, "sacct_exit_code": ec, "signal": sig, "kind": "verify_exit_code"}, domain=dom)


def native_verify_exit_code(status, exit_code, signal=0):
    """the real SlurmWorker._verify_exit_code on one sacct answer; -> ('return', value) | ('raise', type name)"""
    import asyncio
    import tempfile as _tf
    import pydra.workers.base as WB
    from pydra.workers.slurm import SlurmWorker

    shown = status[:9] + "+" if len(status) > 10 else status  # sacct truncates long state names: OUT_OF_ME+
    line = f"{4242:<13}{shown:>10} {exit_code:>6}:{signal} \n"
    status = shown.rstrip("+")
    tmp = Path(_tf.mkdtemp(prefix="vf_c28r_"))
    err = tmp / "err.txt"
    err.write_text("some output\nException: boom\n")
    real = WB.read_and_display_async

    async def fake(*cmd, **kw):
        return 0, line, ""

    WB.read_and_display_async = fake
    try:
        w = SlurmWorker()
        w.error = {"4242": str(err)}
        if w._sacct_re.search(line) is None or w._sacct_re.search(line).group("status") != status:
            return ("unparsed", line)
        loop = asyncio.new_event_loop()
        try:
            return ("return", loop.run_until_complete(w._verify_exit_code("4242")))
        except Exception as e:  # noqa
            return ("raise", type(e).__name__)
        finally:
            loop.close()
    finally:
        WB.read_and_display_async = real
        shutil.rmtree(tmp, ignore_errors=True)


def exit_code_verdict_problems(status, exit_code, got):
    """the property's clause on one sacct answer (status word, exit code): what _verify_exit_code must answer"""
    ok = status == "COMPLETED" and exit_code == 0
    if ok:
        return [] if got == ("return", True) else [f"scheduler says COMPLETED 0 but the worker answers {got}"]
    if got == ("return", True):
        return [f"scheduler says {status} with exit code {exit_code} but the worker reports the job complete"]
    if status in ("CANCELLED", "TIMEOUT", "PREEMPTED"):
        return [] if got == ("return", status) else [f"{status} must be handed back for a requeue, got {got}"]
    if status in ("RUNNING", "PENDING"):
        return [] if got == ("return", False) else [f"{status} is not a verdict, got {got}"]
    return [] if got[0] == "raise" else [f"scheduler says {status} {exit_code}: a failure must be reported, got {got}"]


def replay_verify_exit_code(rec):
    """the solver's (candidate) counterexample -> a concrete sacct answer -> the real function"""
    import z3

    m = rec.get("model")
    if m is None:
        return None, False
    cands = SACCT_STATES
    tried = []
    # the abstract status is any word; the candidate only says which of the compared literals it equals (or none):
    # replay every status word of the bounded scheduler vocabulary with exit codes 0 and 1
    for st_ in cands:
        for ec in (0, 1):
            got = native_verify_exit_code(st_, ec)
            if got[0] == "unparsed":
                continue
            probs = exit_code_verdict_problems(st_, ec, got)
            tried.append((st_, ec))
            if probs:
                return {"sacct_status": st_, "sacct_exit_code": ec, "worker_answer": list(map(str, got)), "problems": probs, "kind": "verify_exit_code"}, True
    return {"replayed": tried, "kind": "verify_exit_code"}, False


def run(ctx):
    deductive(ctx)
    sacct_verdict_table(ctx)
    _run_bounded(ctx)


def _run_bounded(ctx):
    ctx.level = "other"
    ctx.explanation = (
        "The real Submitter with the real SlurmWorker / SgeWorker is run against a scripted scheduler: every scheduler "
        "command is answered in-process from an enumerated response sequence (one abstract job state per polling interval, "
        "rendered as squeue/sacct resp. qstat/qacct output; every sleep of the worker moves the clock one step), and when the script says the job ran the batch "
        "script the worker wrote is executed in-process (real load_and_run on the real job pickle), so a result exists "
        "exactly when the scripted scheduler says so.  The reported outcome (complete / failed / still waiting, requeue or "
        "resubmit count, event it was decided on) must be one the property allows for the consumed response sequence; "
        "user-supplied job-name/output/error options must be in the submit argv once and unmodified.  Not covered: real "
        "schedulers, job arrays with more than one job, indirect submit hosts, wall-clock behaviour."
    )
    ctx.trust(
        "the rendering of scheduler states as squeue/sacct/qstat/qacct output (formats taken from the tools' manuals)",
        "running the batch-script payload in-process is equivalent to the node running it",
    )
    with _HarnessEnv():
        _run(ctx)


def _run(ctx):
    L = ctx.pick(3, 4)
    Lo = ctx.pick(1, 2)
    alphabet = f"{SE.ALPHABET}"
    hist = SE.histories(L)
    d = ctx.domain(
        "slurm-verdicts",
        bound=f"SLURM, no user options: every response sequence of length <= {L} over {alphabet} in which nothing follows a definite verdict ({len(hist)} sequences); sequences of length <= 2 also with squeue answering 'Invalid job id' instead of nothing for a finished job",
        rule="one real Submitter call per sequence; non-trivial = the sequence contains an event other than pending/running, or user options are given",
        exhaustive=True,
    )
    _drive(ctx, d, ({"scheduler": "slurm", "script": list(h), "options": {}} for h in hist))
    _drive(ctx, d, ({"scheduler": "slurm", "script": list(h), "options": {}, "gone": "error"} for h in SE.histories(2)))
    if ctx.thorough:
        red = (SE.PENDING, SE.COMPLETED, SE.FAILED, SE.CANCELLED, SE.TIMEOUT, SE.NODE_FAIL, SE.MISSING)
        h5 = [h for h in SE.histories(5, red) if len(h) == 5]
        d = ctx.domain(
            "slurm-verdicts-length-5",
            bound=f"SLURM, no user options: every response sequence of length exactly 5 over the reduced alphabet {red} in which nothing follows a definite verdict ({len(h5)} sequences)",
            rule="as slurm-verdicts",
            exhaustive=True,
        )
        _drive(ctx, d, ({"scheduler": "slurm", "script": list(h), "options": {}} for h in h5))
    hist_o = SE.histories(2)
    d = ctx.domain(
        "slurm-user-options",
        bound=f"SLURM: all 8 subsets of user -J/-o/-e (short form) x every response sequence of length <= 2 ({len(hist_o)}); all 27 combinations of (absent, short, --long=) forms x every sequence of length <= {Lo} ({len(SE.histories(Lo))})",
        rule="as slurm-verdicts",
        exhaustive=True,
    )
    _drive(ctx, d, ({"scheduler": "slurm", "script": list(h), "options": o} for o in option_forms("slurm", False) if o for h in hist_o))
    _drive(ctx, d, ({"scheduler": "slurm", "script": list(h), "options": o} for o in option_forms("slurm", True) if "long" in o.values() for h in SE.histories(Lo)))
    Ls = ctx.pick(2, 3)
    hist_s = SE.histories(Ls)
    d = ctx.domain(
        "sge-unmodified",
        bound="SGE worker as it is, both completion modes (poll_for_result_file True = default, False = qstat/qacct polling) x all 8 subsets of user -N/-o/-e in qsub_args x every response sequence of length <= 1 (12)",
        rule="as slurm-verdicts",
        exhaustive=True,
    )
    for mode in ("poll-result-file", "poll-scheduler"):
        _drive(ctx, d, ({"scheduler": "sge", "mode": mode, "script": list(h), "options": o, "workaround": 0} for o in option_forms("sge", False) for h in SE.histories(1)))
    d = ctx.domain(
        "sge-behind-known-crashes",
        bound=(
            "SGE worker with harness-side workarounds of the crashes found in sge-unmodified, so that the polling logic behind them is exercised: "
            "level 1 = worker.threads_used preset to 0, level 2 = additionally load_job called without its `ind` keyword; both completion modes; "
            f"no user options x every response sequence of length <= {Ls} ({len(hist_s)}); all 8 subsets of user -N/-o/-e x every sequence of length <= 1 (12)"
        ),
        rule="as slurm-verdicts; an eviction the worker never asked about need not be answered by a resubmission",
        exhaustive=True,
    )
    for wa in (1, 2):
        for mode in ("poll-result-file", "poll-scheduler"):
            _drive(ctx, d, ({"scheduler": "sge", "mode": mode, "script": list(h), "options": {}, "workaround": wa} for h in hist_s))
            _drive(ctx, d, ({"scheduler": "sge", "mode": mode, "script": list(h), "options": o, "workaround": wa} for o in option_forms("sge", False) if o for h in SE.histories(1)))


def replay(rec):
    if rec["case"].get("kind") == "verify_exit_code":
        c = rec["case"]
        got = native_verify_exit_code(c["sacct_status"], c["sacct_exit_code"], c.get("signal", 0))
        shown = c["sacct_status"][:9] if len(c["sacct_status"]) > 10 else c["sacct_status"]
        probs = exit_code_verdict_problems(shown, c["sacct_exit_code"], got)
        print(f"replay {PID}: sacct `{c['sacct_status']} {c['sacct_exit_code']}:{c.get('signal', 0)}` -> _verify_exit_code: {got}; problems: {probs}")
        if probs:
            print(f"VIOLATION property={PID} replay={rec.get('_path', '')}")
            return 1
        return 0
    case = rec["case"]["case"]
    with _HarnessEnv():
        obs = run_case(case)
    print(f"replay {PID}: case={case}")
    for k in ("argument_string", "final", "raised", "raised_in", "requeues", "decided_at", "commands", "notes", "problems"):
        print(f"  {k:16}: {obs.get(k)}")
    want = rec.get("class")
    if obs["problems"] and any(k == want for k in classes(obs)):
        print(f"VIOLATION property={PID} replay={rec.get('_path', '')}")
        return 1
    return 0
