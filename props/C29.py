"""C29 — jobs, tasks, submitters, workers and results survive serialization to another process.

B: every pooled task (python incl. by-value, file in/out, failing; shell; workflows incl. split,
   nested, file output) x worker/submitter configuration: the Job is cloudpickled in this
   process, loaded by the real load_job/load_and_run in a FRESH interpreter
   (/verif/.venv/bin/python, PYTHONPATH=/repo:/verif, its own PYTHONHASHSEED), observed and run
   there; the result it saved is read back here.  Submitter, Worker and Result objects are
   round-tripped on their own as well.
"""

import os
import pickle
import shutil
import subprocess
import tempfile
import time
from pathlib import Path

import cloudpickle as cp

import spec.tier3 as T

os.environ.setdefault("NO_ET", "true")  # no network: same switch as /repo/pydra/conftest.py

VERIF = Path(__file__).resolve().parent.parent
CHILD_CODE = "import sys; import spec.tier3 as T; T.c29_child(sys.argv[1], sys.argv[2])"


def _submitter(root: Path, cfg: dict, tmp: Path):
    from pydra.engine.submitter import Submitter

    kw = {k: v for k, v in cfg.items() if k not in ("readonly", "worker_instance")}
    if cfg.get("worker_instance") is not None:
        from pydra.workers.cf import ConcurrentFuturesWorker

        kw["worker"] = ConcurrentFuturesWorker(**cfg["worker_instance"])
    if cfg.get("readonly"):
        (tmp / "ro").mkdir(exist_ok=True)
        kw["readonly_caches"] = [tmp / "ro"]
    return Submitter(cache_root=root, **kw)


def _run_here(job):
    if job.is_async:
        job.submitter.submit(job)
    else:
        job.run()


def prepare_job_case(task_name, config_name, tmp: Path):
    """parent side, before the child runs: returns the request item and what the parent observed"""
    from pydra.engine.job import Job
    from pydra.engine.submitter import Submitter

    src = T.build_sources(tmp)
    factory, expected = T.p29_pool(src)[task_name]
    # (a) a result written by THIS process (debug worker), to be read by the child
    sub_pre = Submitter(cache_root=tmp / "pre", worker="debug")
    job_pre = Job(factory(), submitter=sub_pre, name="pre")
    pre_raised = None
    try:
        _run_here(job_pre)
    except Exception as e:
        pre_raised = f"{type(e).__name__}: {str(e)[:120]}"
    r = job_pre.result()
    pre_outputs = T.plain_outputs(r.outputs) if r is not None and not r.errored else None
    with open(tmp / "pre.pklz", "wb") as f:
        cp.dump(job_pre, f)
    sub_pre.close()
    # (b) the job that travels: pickled BEFORE its checksum is computed here
    sub = _submitter(tmp / "main", T.P29_CONFIGS[config_name], tmp)
    job = Job(factory(), submitter=sub, name="main")
    with open(tmp / "main.pklz", "wb") as f:
        cp.dump(job, f)
    obs = T.job_observables(job)
    item = {"id": f"{task_name}/{config_name}", "kind": "job", "pkl": str(tmp / "main.pklz"), "pre_pkl": str(tmp / "pre.pklz")}
    return item, {"job": job, "sub": sub, "obs": obs, "expected": expected, "pre_outputs": pre_outputs, "pre_raised": pre_raised}


def launch_child(items, tmp: Path, hashseed: int):
    req, resp = tmp / "request.pkl", tmp / "response.pkl"
    with open(req, "wb") as f:
        pickle.dump(items, f)
    env = {k: v for k, v in os.environ.items() if not k.startswith("VF_")}
    env.update(PYTHONPATH=f"{os.environ.get('PYDRA_VERIF_REPO', '/repo')}:{VERIF}", PYTHONHASHSEED=str(hashseed), NO_ET="true", PYTHONDONTWRITEBYTECODE="1")
    proc = subprocess.Popen(
        [str(VERIF / ".venv/bin/python"), "-c", CHILD_CODE, str(req), str(resp)],
        cwd=str(tmp), env=env, stdout=subprocess.PIPE, stderr=subprocess.STDOUT,
    )  # fmt: skip
    return proc, resp


def collect_child(proc, resp, timeout):
    try:
        out, _ = proc.communicate(timeout=timeout)
    except subprocess.TimeoutExpired:
        proc.kill()
        proc.communicate()
        return None, "timeout"
    if not Path(resp).exists():
        return None, f"child exited {proc.returncode} without a response: {out.decode(errors='replace')[-800:]}"
    with open(resp, "rb") as f:
        return pickle.load(f), None


def dict_diff(a: dict, b: dict, prefix=""):
    out = []
    for k in sorted(set(a) | set(b)):
        if isinstance(a.get(k), dict) and isinstance(b.get(k), dict):
            out += dict_diff(a[k], b[k], f"{prefix}{k}.")
        elif a.get(k, "<absent>") != b.get(k, "<absent>"):
            out.append(f"{prefix}{k}: {a.get(k, '<absent>')!r} here, {b.get(k, '<absent>')!r} in the other process")
    return out


def judge_job_case(rep: dict, parent: dict) -> list[str]:
    """property clauses for one travelling job"""
    probs = []
    if "child_error" in rep:
        return [f"unpickle: the other process could not load/observe the job: {' | '.join(rep['child_error'].strip().splitlines()[-3:])[-400:]}"]
    probs += ["identity: " + d for d in dict_diff(parent["obs"], rep["observables"])]
    probs += ["liveness: " + l for l in rep.get("liveness", [])]
    expected = parent["expected"]
    job = parent["job"]
    res = job.result()  # written by the other process, read here
    if expected == "errors":
        if rep["raised"] is None:
            probs.append("outputs: the failing task did not fail in the other process")
        if rep.get("result_errored") is not True:
            probs.append(f"result: the other process recorded errored={rep.get('result_errored')!r} for a failing task")
        if res is None or res.errored is not True:
            probs.append(f"result: read back here as {res!r}, expected an errored result")
        elif not res.errors:
            probs.append("result: errored result read back without its error record")
        if rep.get("pre_errored") is not True:
            probs.append(f"result: errored result written here is read as errored={rep.get('pre_errored')!r} by the other process")
        return probs
    if rep["raised"] is not None:
        probs.append(f"outputs: running the deserialized job raised {rep['raised']}")
        return probs
    probs += ["outputs: (other process) " + p for p in T.expected_matches(expected, rep.get("outputs"))]
    here = T.plain_outputs(res.outputs) if res is not None and not res.errored else None
    if here != rep.get("outputs"):
        probs.append(f"result: written by the other process as {rep.get('outputs')!r}, read back here as {here!r}")
    if parent["pre_raised"]:
        probs.append(f"outputs: reference run in this process raised {parent['pre_raised']}")
    elif rep.get("pre_outputs") != parent["pre_outputs"]:
        probs.append(f"result: written here as {parent['pre_outputs']!r}, read by the other process as {rep.get('pre_outputs')!r}")
    return probs


def object_items(config_name, tmp: Path):
    """Submitter / Worker / Result objects pickled on their own"""
    from pydra.engine.result import Result, Runtime

    cfg = T.P29_CONFIGS[config_name]
    items, parent = [], {}
    for tname, task, exp in (("py-add", T.P29Add(a=1, b=2), {"out": 3}), ("wf-chain", T.W29Chain(x=1, y=2), {"out": 6}), ("wf-split", T.W29Split(xs=[1, 2], y=1), {"out": 5})):
        sub = _submitter(tmp / f"sub-{tname}", cfg, tmp)
        iid = f"submitter/{config_name}/{tname}"
        items.append({"id": iid, "kind": "submitter", "blob": cp.dumps(sub), "task_blob": cp.dumps(task)})
        parent[iid] = {"obs": T.submitter_observables(sub), "expected": exp}
        sub.close()
    sub = _submitter(tmp / "sub-w", cfg, tmp)
    iid = f"worker/{config_name}"
    items.append({"id": iid, "kind": "worker", "blob": cp.dumps(sub.worker)})
    parent[iid] = {"obs": T.worker_observables(sub.worker)}
    sub.close()
    if config_name.startswith("debug"):
        out = T.P29Stats.Outputs(mean=1.5, n=2, label="L")
        variants = {
            "plain": Result(cache_dir=tmp / "r1", outputs=out, runtime=Runtime(rss_peak_gb=0.5, vms_peak_gb=1.5, cpu_peak_percent=99.0), errored=False, task=T.P29Stats(xs=[1.0, 2.0])),
            "errored": Result(cache_dir=tmp / "r2", outputs=None, runtime=None, errored=True, task=T.P29Add(a=1, b=2)),
            "no-task": Result(cache_dir=tmp / "r3", outputs=T.P29Add.Outputs(out=3), errored=False, task=None),
        }
        for vn, r in variants.items():
            import attrs

            iid = f"result/{config_name}/{vn}"
            items.append({"id": iid, "kind": "result", "blob": cp.dumps(r)})
            parent[iid] = {
                "result": {
                    "cache_dir": str(r.cache_dir),
                    "errored": r.errored,
                    "runtime": None if r.runtime is None else attrs.asdict(r.runtime),
                    "outputs": T.plain_outputs(r.outputs),
                    "task": None if r.task is None else type(r.task).__name__,
                    "task_checksum": None if r.task is None else r.task._checksum,
                }
            }
    return items, parent


def judge_object(rep, parent):
    import attrs

    if "child_error" in rep:
        return [f"unpickle: the other process could not load the object: {' | '.join(rep['child_error'].strip().splitlines()[-3:])[-400:]}"]
    probs = []
    if rep["kind"] == "submitter":
        probs += ["identity: " + d for d in dict_diff(parent["obs"], rep["observables"])]
        probs += ["liveness: " + l for l in rep.get("liveness", [])]
        if rep.get("raised"):
            probs.append(f"outputs: calling the deserialized submitter raised {rep['raised']}")
        else:
            probs += ["outputs: " + p for p in T.expected_matches(parent["expected"], rep.get("outputs"))]
    elif rep["kind"] == "worker":
        probs += ["identity: " + d for d in dict_diff(parent["obs"], rep["observables"])]
        if "pool_ok" in rep and not (rep["pool_ok"] and rep.get("pool_result") == 7):
            probs.append(f"liveness: the worker's process pool is not usable after unpickling ({rep.get('pool_ok')}, {rep.get('pool_result')})")
    elif rep["kind"] == "result":
        probs += ["result: " + d for d in dict_diff(parent["result"], rep["result"])]
        back = cp.loads(rep["reblob"])
        again = {
            "cache_dir": str(back.cache_dir),
            "errored": back.errored,
            "runtime": None if back.runtime is None else attrs.asdict(back.runtime),
            "outputs": T.plain_outputs(back.outputs),
            "task": None if back.task is None else type(back.task).__name__,
            "task_checksum": None if back.task is None else back.task._checksum,
        }
        probs += ["result: (after the way back) " + d for d in dict_diff(parent["result"], again)]
    return probs


def klass(probs, what):
    kinds = "+".join(sorted({p.split(":")[0] for p in probs}))
    detail = ""
    ids = sorted({p.split(":")[1].strip().split(" ")[0] for p in probs if p.startswith("identity:")})
    if ids:
        detail = "[" + ",".join(ids)[:80] + "]"
    return f"{kinds}{detail}@{what}"


def run_batches(ctx, batches, timeout, parallel):
    """batches: list of (label, items, tmp, hashseed); yields (label, reports|None, error)"""
    pending = list(batches)
    running = []
    while pending or running:
        while pending and len(running) < parallel:
            label, items, tmp, hs = pending.pop(0)
            proc, resp = launch_child(items, tmp, hs)
            running.append((label, proc, resp, time.time()))
        label, proc, resp, t0 = running.pop(0)
        reports, err = collect_child(proc, resp, max(5, timeout - (time.time() - t0)))
        yield label, reports, err


def _run(ctx):
    ctx.level = "other"
    ctx.explanation = (
        "Every pooled task (python: ints, containers incl. a frozenset, file input, file output, a class that must be "
        "pickled by value, a failing task; shell: echo, cp with an output path template; workflows: chain, split+combine, "
        "nested, file output) is wrapped in a real Job for each worker/submitter configuration, cloudpickled before its "
        "checksum is computed, and loaded with the real load_job in a fresh interpreter with its own hash seed. There its "
        "checksum, cache directory, lock file, caches, task fields and submitter/worker settings must equal what this "
        "process observes, its event loop / process pool must be usable, load_and_run must produce the outputs the task "
        "means, and the result it saves must be read back equal here (and a result saved here equal there, including "
        "errored results with their error record). Submitter, Worker and Result objects are also sent on their own and "
        "used / sent back."
    )
    tasks = list(T.p29_pool(Path("/nonexistent")))
    configs = ctx.pick(["debug-ro-cache", "cf-2", "cf-instance-3"], list(T.P29_CONFIGS))
    dom = ctx.domain(
        "jobs-in-a-fresh-interpreter",
        bound=f"{len(tasks)} tasks ({', '.join(tasks)}) x configurations {configs}{'' if ctx.thorough else ' (quick: wf-nested, wf-file, py-stats, py-file-in only under the debug worker)'}; {'one fresh interpreter per case' if ctx.thorough else 'one fresh interpreter per (configuration, task kind python/shell/workflow)'}, PYTHONHASHSEED = 1 + (seed + case index) mod 1000",
        rule="one real cloudpickle dump here + load_job/load_and_run there per case; non-trivial = always (another process is involved)",
        exhaustive=True,
    )
    base = Path(os.path.realpath(tempfile.mkdtemp(prefix="vf_c29_")))
    cwd0 = os.getcwd()
    try:
        prepared = {}
        batches = []
        i = 0
        for cname in configs:
            group = {}
            for tname in tasks:
                if not ctx.thorough and cname.startswith("cf") and tname in ("wf-nested", "wf-file", "py-stats", "py-file-in"):
                    continue  # quick: the pool-based worker gets the two basic workflows and the distinctive python tasks only
                tmp = base / f"case{i}"
                tmp.mkdir()
                item, parent = prepare_job_case(tname, cname, tmp)
                prepared[item["id"]] = (tname, cname, parent)
                hs = 1 + (ctx.seed + i) % 1000
                if ctx.thorough:
                    batches.append((item["id"], [item], tmp, hs))
                else:  # quick: one fresh interpreter per (configuration, kind of task)
                    group.setdefault(tname.split("-")[0], (tmp, hs, []))[2].append(item)
                i += 1
            for kind, (tmp, hs, items) in group.items():
                batches.append((f"{kind}/{cname}", items, tmp, hs))
        for label, reports, err in run_batches(ctx, batches, timeout=ctx.pick(300, 600), parallel=ctx.pick(6, 8)):
            ids = [it["id"] for b in batches if b[0] == label for it in b[1]]
            for n, iid in enumerate(ids):
                tname, cname, parent = prepared[iid]
                case = {"task": tname, "config": cname}
                dom.case((tname, cname), sample=case)
                if err == "timeout":
                    ctx.undecide(f"C29.job.{iid}", "the child interpreter did not finish in time (machine load or a hang)")
                elif err:
                    ctx.fail(f"child-crash@{tname}/{cname}", f"C29: {iid}: {err}", dict(case, error=err), domain=dom)
                else:
                    probs = judge_job_case(reports[n], parent)
                    if probs:
                        ctx.fail(klass(probs, f"{tname}/{cname}"), f"C29: job {iid}: {probs[0]}", dict(case, problems=probs[:6]), domain=dom)
                parent["sub"].close()

        dom2 = ctx.domain(
            "submitter-worker-result-objects",
            bound=f"per configuration {configs}: the Submitter pickled alone and called in the fresh interpreter on a python task and two workflows; its Worker pickled alone (pool used); debug configurations: three Result objects (with runtime, errored, without task) sent there and back",
            rule="one child interpreter per configuration; one case per object; non-trivial = always",
            exhaustive=True,
        )
        batches, parents = [], {}
        for j, cname in enumerate(configs):
            tmp = base / f"obj{j}"
            tmp.mkdir()
            items, parent = object_items(cname, tmp)
            parents.update(parent)
            batches.append((cname, items, tmp, 1 + (ctx.seed + 500 + j) % 1000))
        for label, reports, err in run_batches(ctx, batches, timeout=ctx.pick(240, 600), parallel=ctx.pick(6, 8)):
            if err == "timeout":
                ctx.undecide(f"C29.objects.{label}", "the child interpreter did not finish in time (machine load or a hang)")
                continue
            if err:
                ctx.fail(f"child-crash@objects/{label}", f"C29: objects {label}: {err}", {"objects": label, "error": err}, domain=dom2)
                continue
            for rep in reports:
                dom2.case(rep["id"], sample={"object": rep["id"]})
                probs = judge_object(rep, parents[rep["id"]])
                if probs:
                    ctx.fail(klass(probs, rep["id"]), f"C29: {rep['id']}: {probs[0]}", {"object": rep["id"], "config": label, "problems": probs[:6]}, domain=dom2)
    finally:
        os.chdir(cwd0)
        shutil.rmtree(base, ignore_errors=True)


def _replay(rec):
    case = rec["case"]
    base = Path(os.path.realpath(tempfile.mkdtemp(prefix="vf_c29_")))
    try:
        if "task" in case:
            item, parent = prepare_job_case(case["task"], case["config"], base)
            proc, resp = launch_child([item], base, 1)
            reports, err = collect_child(proc, resp, 600)
            probs = [err] if err else judge_job_case(reports[0], parent)
            parent["sub"].close()
        else:
            items, parents = object_items(case["config"], base)
            proc, resp = launch_child(items, base, 1)
            reports, err = collect_child(proc, resp, 600)
            probs = [err] if err else [p for r in reports if r["id"] == case["object"] for p in judge_object(r, parents[r["id"]])]
    finally:
        shutil.rmtree(base, ignore_errors=True)
    print(f"replay C29: {case} problems={probs}")
    if probs:
        print(f"VIOLATION property=C29 replay={rec.get('_path', '')}")
        return 1
    return 0


def deductive(ctx):
    """engine D: frames of the eight pickling hooks (contracts/pickling.py) on every path of the real functions, and the
    round-trip lemmas that follow from the frames plus cp.loads(cp.dumps(x)) == x (z3, theory of arrays)"""
    import time as _t

    import z3
    from contracts import pickling as PK
    from pyvc.verify import verify, summarize

    for mk in PK.ALL:
        summarize(ctx, verify(ctx, mk()))
    for name, goal, premises in PK.roundtrip_lemmas():
        s = z3.Solver()
        s.set("timeout", 10000)
        s.add(z3.Not(goal))
        t0 = _t.time()
        r = s.check()
        status = "discharged" if r == z3.unsat else ("refuted" if r == z3.sat else "unknown")
        ctx.add_obligation({"id": f"lemma.{name}", "function": "contracts/pickling.py:roundtrip_lemmas", "clause": f"lemma.{name}", "role": "property:C29", "status": status, "backend": "z3", "time_s": round(_t.time() - t0, 3), "goal": f"{premises} => round trip"})
        if status != "discharged":
            ctx.undecide(f"lemma.{name}", f"round-trip lemma not discharged ({status})")
    ctx.trust("cp.loads(cp.dumps(x)) == x and cp.dumps(x) is a bytes object (cloudpickle; exercised by the bounded part in fresh interpreters)")


def run(ctx):
    deductive(ctx)
    with T.private_hash_cache():
        _run(ctx)


def replay(rec):
    with T.private_hash_cache():
        return _replay(rec)
