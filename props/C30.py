"""C30 — workflow construction caching and repeated runs are transparent.

B: histories of construct / graph / run operations on a pool of small workflows (chain, split+
   combine, value-dependent branch, value-dependent loop, pass-through output, nested) with
   varying input values and lazy-field sets.  After every operation the workflow returned by
   the real Workflow.construct (exact hit, superset hit or fresh) is compared with a reference
   constructed with an empty cache, and run outputs with the workflow's arithmetic meaning.
"""

import os
import random
import shutil
import tempfile
from pathlib import Path

import spec.tier3 as T

os.environ.setdefault("NO_ET", "true")  # no network: same switch as /repo/pydra/conftest.py

_REF = {}


def _construct(entry, vi, lz, cache):
    from pydra.engine.workflow import Workflow

    task = entry["cls"](**entry["values"][vi])
    return Workflow.construct(task, lazy=sorted(lz), dont_cache=not cache)


def reference(name, kind, vi, lz):
    """fresh construction: empty cache before, nothing stored (dont_cache), empty cache after"""
    from pydra.engine.workflow import Workflow

    key = (name, kind, vi, lz)
    if key in _REF:
        return _REF[key]
    entry = T.wf_pool()[name]
    saved = Workflow._constructed_cache
    Workflow.clear_cache()
    try:
        try:
            wf = _construct(entry, vi, lz, cache=False)
            if kind == "G":
                wf.graph(detailed=True)
            ref = ("view", T.wf_view(wf, lz, entry["values"][vi]))
        except Exception as e:
            ref = ("raises", type(e).__name__)
    finally:
        Workflow._constructed_cache = saved
    _REF[key] = ref
    return ref


def run_history(name, history):
    """execute one history against the real cache; returns [(op index, [problems])]"""
    from pydra.engine.workflow import Workflow
    from pydra.engine.submitter import Submitter

    entry = T.wf_pool()[name]
    for kind, vi, lz, cache in history:
        if kind in ("C", "G"):
            reference(name, kind, vi, lz)
    Workflow.clear_cache()
    instances = {}
    failures = []
    tmp = None
    try:
        for idx, (kind, vi, lz, cache) in enumerate(history):
            values = entry["values"][vi]
            probs = []
            if kind in ("C", "G"):
                ref = reference(name, kind, vi, lz)
                try:
                    wf = _construct(entry, vi, lz, cache)
                    if kind == "G":
                        wf.graph(detailed=True)
                    got = ("view", T.wf_view(wf, lz, values))
                except Exception as e:
                    got = ("raises", type(e).__name__)
                if ref[0] != got[0]:
                    probs.append(f"outcome: fresh construction {ref[0]} {ref[1] if ref[0] == 'raises' else ''} but this one {got[0]} {got[1] if got[0] == 'raises' else ''}")
                elif ref[0] == "view":
                    probs += ["graph" + d for d in T.view_diff(ref[1], got[1])]
                    exp_in = T.expected_inputs_view(values, lz)
                    probs += ["leak" + d for d in T.view_diff(exp_in, got[1]["inputs"], ".inputs")]
            else:
                if tmp is None:
                    tmp = Path(tempfile.mkdtemp(prefix="vf_c30_"))
                if kind == "S":
                    task = instances.setdefault(vi, entry["cls"](**values))
                else:
                    task = entry["cls"](**values)
                exp = entry["semantics"](**values)
                croot = tmp / f"run{idx}"
                try:
                    with Submitter(cache_root=croot, worker="debug") as sub:
                        res = sub(task)
                    got = {k: getattr(res.outputs, k) for k in exp}
                    if got != exp:
                        probs.append(f"outputs: running {type(task).__name__}({values}) gave {got}, its meaning is {exp}")
                except Exception as e:
                    probs.append(f"outputs: running {type(task).__name__}({values}) raised {type(e).__name__}: {str(e)[:200]}")
                finally:
                    shutil.rmtree(croot, ignore_errors=True)
            if probs:
                failures.append((idx, probs))
    finally:
        Workflow.clear_cache()
        if tmp is not None:
            shutil.rmtree(tmp, ignore_errors=True)
    return failures


def classify(name, history, idx):
    """class predicate of the one known failure mode: an EARLIER cached construction left some input lazy
    that the constructor branches/loops on, agreed on every non-lazy value, and the failing operation
    supplies that input as a value (served from the cache by the 'superset of lazy inputs' rule)"""
    e = T.wf_pool()[name]
    kind, vi, lz, cache = history[idx]
    vals = e["values"][vi]
    for k2, vi2, lz2, cache2 in history[:idx]:
        if k2 in ("C", "G") and cache2 and lz2 > lz and (lz2 - lz) & e["value_dependent"]:
            if all(e["values"][vi2][n] == vals[n] for n in vals if n not in lz2):
                return "superset-hit@value-dependent-input"
    return None


def _fmt(history):
    return [[k, vi, sorted(lz), c] for k, vi, lz, c in history]


def _worker(args):
    name, history = args
    return name, history, run_history(name, history)


def histories_exhaustive(name, max_len, n_values):
    import itertools

    ops = [o for o in T.wf_ops(name, with_runs=False) if o[1] < n_values]
    for n in range(1, max_len + 1):
        yield from itertools.product(ops, repeat=n)


def histories_cached_triples(name, n_values):
    """every history of exactly 3 cached constructions (the shortest shape in which a cached entry can be
    damaged by a second operation and observed by a third)"""
    import itertools

    ops = [o for o in T.wf_ops(name, with_runs=False) if o[1] < n_values and o[0] == "C" and o[3]]
    yield from itertools.product(ops, repeat=3)


def histories_sampled(name, count, seed):
    rng = random.Random(f"{seed}-{name}")
    ops = T.wf_ops(name, with_runs=True)
    cons = [o for o in ops if o[0] in ("C", "G")]
    seen = set()
    while len(seen) < count:
        n = rng.randint(3, 6)
        h = []
        for _ in range(n):
            h.append(rng.choice(ops) if rng.random() < 0.25 else rng.choice(cons))
        h = tuple(h)
        if h not in seen:
            seen.add(h)
            yield h


def _run(ctx):
    import multiprocessing as mp

    ctx.level = "other"
    pool = T.wf_pool()
    ctx.explanation = (
        "Histories of operations on pooled workflows (chain; split+combine; a constructor that branches on a bool "
        "input; a constructor that loops over an int input; an input passed through to an output; a nested workflow): "
        "C = Workflow.construct(task, lazy=L, dont_cache=..), G = construct + graph(detailed), R = run a new task "
        "instance, S = run the same task instance again (debug worker, fresh cache root). After every C/G the returned "
        "workflow's nodes, task classes, resolved node inputs, splitters/combiners/states, edges, output connections "
        "and own input values must equal those of a construction made with an empty cache, and the workflow's inputs "
        "must be exactly the values given to THIS construction; after every R/S the outputs must equal the workflow's "
        "arithmetic meaning."
    )
    max_len = ctx.pick(2, 3)
    dom = ctx.domain(
        "construct-histories",
        bound=f"per workflow ({', '.join(pool)}): every history of <= {max_len} operations over C(cache)/C(dont_cache)/G x 2 input value sets x its lazy sets (<= 4: none, single fields, all)"
        + ("" if ctx.thorough else "; plus every history of exactly 3 cached C operations"),
        rule="one real history per case (cache cleared before); non-trivial = the history has >= 2 operations (cache interaction possible)",
        exhaustive=True,
    )
    dom2 = ctx.domain(
        "sampled-histories-with-runs",
        bound=f"per workflow {ctx.pick(40, 400)} random histories of 3..6 operations over C/G/R/S x all value sets x lazy sets (seed {ctx.seed})",
        rule="seeded sample (NOT exhaustive); non-trivial = always (>= 3 operations)",
        exhaustive=False,
    )
    jobs = []
    for name in pool:
        for h in histories_exhaustive(name, max_len, 2):
            jobs.append((dom, name, tuple(h)))
        if max_len < 3:
            for h in histories_cached_triples(name, 2):
                jobs.append((dom, name, tuple(h)))
        for h in histories_sampled(name, ctx.pick(40, 400), ctx.seed):
            jobs.append((dom2, name, h))
    with mp.get_context("fork").Pool(ctx.pick(4, 8)) as pl:
        results = pl.imap(_worker, [(n, h) for _, n, h in jobs], chunksize=32)
        for (d, name, h), (_, _, failures) in zip(jobs, results):
            case = {"workflow": name, "history": _fmt(h)}
            d.case((name, h), nontrivial=len(h) >= 2, sample=case)
            for idx, probs in failures[:1]:  # first failing operation of the history
                c = dict(case, failing_op=idx, problems=probs[:5])
                ctx.fail(classify(name, h, idx), f"C30: {name} history {_fmt(h)} op#{idx}: {probs[0]}", c, domain=d)


def _replay(rec):
    case = rec["case"]
    h = tuple((k, vi, frozenset(lz), c) for k, vi, lz, c in case["history"])
    failures = run_history(case["workflow"], h)
    print(f"replay C30: {case['workflow']} {case['history']} failures={failures}")
    if failures:
        print(f"VIOLATION property=C30 replay={rec.get('_path', '')}")
        return 1
    return 0


# ----------------------------------------------------------------------------- in-place modification between constructions

from pydra.compose import python as _py, workflow as _wf  # noqa: E402
import typing as _ty  # noqa: E402


class _Box:
    """an ordinary (hashable by identity) object wrapping mutable state"""

    def __init__(self, items):
        self.items = list(items)

    def __eq__(self, other):
        return isinstance(other, _Box) and self.items == other.items

    __hash__ = object.__hash__


@_py.define
def _Measure(v: _ty.Any) -> int:
    items = v.items if isinstance(v, _Box) else (v[0] if isinstance(v, tuple) else (list(v.values()) if isinstance(v, dict) else v))
    return sum(items) + 100 * len(items)


@_wf.define(outputs=["out"])
def _WfValue(v: _ty.Any):
    m = _wf.add(_Measure(v=v), name="m")
    return m.out


INPLACE_KINDS = {
    # kind -> (make a fresh value, modify it in place, plain snapshot)
    "list": (lambda: [1, 2], lambda v: v.append(10), lambda v: list(v)),
    "dict": (lambda: {"a": 1, "b": 2}, lambda v: v.update(c=10), lambda v: dict(v)),
    "tuple-holding-a-list": (lambda: ([1, 2], 3), lambda v: v[0].append(10), lambda v: (list(v[0]), v[1])),
    "object-holding-a-list": (lambda: _Box([1, 2]), lambda v: v.items.append(10), lambda v: list(v.items)),
}


def inplace_case(kind, first_op, second_op):
    """construct (or run) W(v1); modify v1 IN PLACE; construct (or run) W(v2) with v2 a fresh value equal to the original
    v1: the second construction holds v2's values, not v1's modified ones; returns the list of problems"""
    from pydra.engine.workflow import Workflow

    make, modify, snap = INPLACE_KINDS[kind]
    Workflow.clear_cache()
    tmp = Path(tempfile.mkdtemp(prefix="vf_c30i_"))
    cwd = os.getcwd()
    probs = []
    try:
        v1 = make()
        expected_out = _Measure(v=make())(cache_root=tmp / "ref", worker="debug").out
        if first_op == "construct":
            Workflow.construct(_WfValue(v=v1))
        else:
            _WfValue(v=v1)(cache_root=tmp / "one", worker="debug")
        modify(v1)
        v2 = make()
        if second_op == "construct":
            wf = Workflow.construct(_WfValue(v=v2))
            got = snap(wf.inputs.v)
            if got != snap(make()):
                probs.append(f"the second construction holds {got!r}: the first construction's value as modified later, not the value it was given ({snap(make())!r})")
            node_v = snap(wf["m"]._task.v) if not hasattr(wf["m"]._task.v, "_field") else None
            if node_v is not None and node_v != snap(make()):
                probs.append(f"node m of the second construction holds {node_v!r}")
        else:
            out = _WfValue(v=v2)(cache_root=tmp / "two", worker="debug").out
            if out != expected_out:
                probs.append(f"the second run returned {out}, a fresh run of the same task returns {expected_out}")
        if snap(v2) != snap(make()):
            probs.append("the caller's second value was modified")
        return probs
    finally:
        os.chdir(cwd)
        Workflow.clear_cache()
        shutil.rmtree(tmp, ignore_errors=True)


def reassign_case(kind, first_op, second_op):
    """construct / run t = W(v1); re-assign t.v = v2 (another value) on the SAME task object; construct / run t again:
    the second operation must be that of W(v2)"""
    from pydra.engine.workflow import Workflow

    make, modify, snap = INPLACE_KINDS[kind]
    Workflow.clear_cache()
    tmp = Path(tempfile.mkdtemp(prefix="vf_c30r_"))
    cwd = os.getcwd()
    probs = []
    try:
        v2 = make()
        modify(v2)  # a different value of the same kind
        expected_out = _Measure(v=v2)(cache_root=tmp / "ref", worker="debug").out
        t = _WfValue(v=make())
        if first_op == "construct":
            t.construct()
        else:
            t(cache_root=tmp / "one", worker="debug")
        t.v = v2
        if second_op == "construct":
            got = snap(t.construct().inputs.v)
            if got != snap(v2):
                probs.append(f"after t.v = {snap(v2)!r} the task constructs a workflow holding {got!r}")
        else:
            out = t(cache_root=tmp / "two", worker="debug").out
            if out != expected_out:
                probs.append(f"after t.v = {snap(v2)!r} the task returned {out}, a fresh task with that value returns {expected_out}")
        return probs
    finally:
        os.chdir(cwd)
        Workflow.clear_cache()
        shutil.rmtree(tmp, ignore_errors=True)


def inplace_domain(ctx):
    dom = ctx.domain(
        "in-place modification between two constructions",
        bound=f"value kinds {list(INPLACE_KINDS)} x first operation (construct, run) x second operation (construct, run): W(v1); v1 modified in place; W(v2) with v2 fresh and equal to the original v1",
        rule="one real history per case (cache cleared before); the second operation must see v2's values / give the outputs of a fresh run; non-trivial always",
        exhaustive=True,
    )
    for kind in INPLACE_KINDS:
        for a in ("construct", "run"):
            for b in ("construct", "run"):
                probs = inplace_case(kind, a, b)
                case = {"inplace": True, "kind": kind, "first": a, "second": b}
                dom.case((kind, a, b), sample=case)
                for p_ in probs:
                    ctx.fail(None, f"C30: {kind}: {a} W(v1), modify v1 in place, {b} W(v2): {p_}", dict(case, problem=p_), domain=dom)
    dom2 = ctx.domain(
        "input re-assigned on the same task object between two operations",
        bound=f"value kinds {list(INPLACE_KINDS)} x first operation (construct, run) x second operation (construct, run) on ONE task object t = W(v1) with t.v = v2 in between",
        rule="one real history per case; the second operation must be that of a fresh W(v2); non-trivial always",
        exhaustive=True,
    )
    for kind in INPLACE_KINDS:
        for a in ("construct", "run"):
            for b in ("construct", "run"):
                probs = reassign_case(kind, a, b)
                case = {"reassign": True, "kind": kind, "first": a, "second": b}
                dom2.case((kind, a, b), sample=case)
                for p_ in probs:
                    ctx.fail(None, f"C30: {kind}: {a} t = W(v1), t.v = v2, {b} t: {p_}", dict(case, problem=p_), domain=dom2)


def deductive(ctx):
    """engine D: on every path of the real WorkflowTask.construct the memoised workflow is handed out only after the identity
    it was stored under compared equal to the identity the inputs have now; a newly built one is memoised under that identity
    -- contracts/workflow_memo.py"""
    from contracts import workflow_memo as WM
    from pyvc.verify import verify, summarize

    summarize(ctx, verify(ctx, WM.contract()))


def run(ctx):
    deductive(ctx)
    with T.private_hash_cache():
        _run(ctx)
        inplace_domain(ctx)


def replay(rec):
    with T.private_hash_cache():
        if rec["case"].get("inplace") or rec["case"].get("reassign"):
            c = rec["case"]
            probs = (inplace_case if c.get("inplace") else reassign_case)(c["kind"], c["first"], c["second"])
            print(f"replay C30: {c['kind']} {c['first']} -> modify -> {c['second']}: {probs or 'as expected'}")
            if probs:
                print(f"VIOLATION property=C30 replay={rec.get('_path', '')}")
                return 1
            return 0
        return _replay(rec)
