"""C31 — requirement and mutual-exclusion rules are enforced exactly.

D: Requirement.satisfied, RequirementSet.satisfied, Task._rule_violations (loop invariants: an empty
   result implies the per-field rule for every field), Task._check_rules (returns only if no
   violation is listed), Job.__init__ (rules are checked before anything else happens).
B: every generated task with <= 5 fields x requirement sets x xor groups x value assignments
   against the three-valued oracle spec.rules.rules_ok (props/_c31_bounded.py); this also
   covers the mutual-exclusion rule, which is not under a deductive contract.
"""
from contracts import rules as R
from pyvc.verify import verify, summarize


def bounded_hierarchy(ctx):
    """rules declared on a task class that extends another task class, with every order in which
    tasks of the base and of the derived class are rule-checked (class-level state must not leak)"""
    import itertools
    from pydra.compose import python

    def base_fn(a: int, flag: bool = False) -> int:
        return a

    def derived_fn(a: int, flag: bool = False, opt: str | None = None, dep: str | None = None, alt: str | None = None) -> int:
        return a

    dom = ctx.domain(
        "class-hierarchy",
        bound="Base(a, flag) and 3 derived classes adding opt/dep/alt with (requires dep | requires dep in ('x','y') | xor(opt, alt)); every order of first rule-checks of a Base task and a Derived task x 9 value assignments of the derived fields",
        rule="fresh classes per history; non-trivial: the derived assignment violates a rule declared on the derived class only",
        exhaustive=True,
    )
    variants = {
        "requires": lambda: dict(inputs={"opt": python.arg(type=str | None, default=None, requires=["dep"]), "dep": python.arg(type=str | None, default=None), "alt": python.arg(type=str | None, default=None)}),
        "requires-allowed": lambda: dict(inputs={"opt": python.arg(type=str | None, default=None, requires=[[("dep", ["x", "y"])]]), "dep": python.arg(type=str | None, default=None), "alt": python.arg(type=str | None, default=None)}),
        "xor": lambda: dict(inputs={"opt": python.arg(type=str | None, default=None), "dep": python.arg(type=str | None, default=None), "alt": python.arg(type=str | None, default=None)}, xor=["opt", "alt"]),
    }
    values = [None, "x", "z"]
    for vname, kw in variants.items():
        for base_first in (True, False):
            for opt, dep, alt in itertools.product(values, repeat=3):
                Base = python.define(base_fn, name="Base")
                Derived = python.define(derived_fn, name="Derived", bases=[Base], **kw())
                if vname == "requires":
                    bad = opt is not None and dep is None
                elif vname == "requires-allowed":
                    bad = opt is not None and dep not in ("x", "y")
                else:
                    bad = (opt is not None and alt is not None) or (opt is None and alt is None)
                t = Derived(a=1, opt=opt, dep=dep, alt=alt)
                if base_first:
                    Base(a=1)._rule_violations()
                    got = t._rule_violations()
                else:
                    got = t._rule_violations()
                    Base(a=1)._rule_violations()
                    got2 = t._rule_violations()
                    if bool(got2) != bool(got):
                        got = got2 if bool(got2) != bad else got
                case = {"variant": vname, "base_checked_first": base_first, "opt": opt, "dep": dep, "alt": alt, "violations": got}
                dom.case((vname, base_first, opt, dep, alt), nontrivial=bad, sample=case)
                if bool(got) != bad:
                    ctx.fail(None, f"derived task {vname} opt={opt!r} dep={dep!r} alt={alt!r} (base checked first: {base_first}): _rule_violations()={got}, rules {'violated' if bad else 'hold'}", case, domain=dom)


def run(ctx):
    ctx.level = "other"
    ctx.explanation = (
        "Deductive: the requirement rule (Requirement/RequirementSet.satisfied), the soundness direction of "
        "Task._rule_violations for mandatory and requires rules (empty result => every field rule holds, with loop invariants), "
        "Task._check_rules and the position of the rule check in Job.__init__. The mutual-exclusion (xor) rule and the "
        "completeness direction (rules hold => no violation reported) are decided by the exhaustive bounded enumeration only."
    )
    for c in (R.requirement_contract(), R.requirement_set_contract(), R.rule_violations_contract(), R.check_rules_contract(), R.job_init_contract()):
        res = verify(ctx, c)
        summarize(ctx, res)
    from props import _c31_bounded as B

    B.bounded(ctx)
    bounded_hierarchy(ctx)


def replay(rec):
    from props import _c31_bounded as B

    if "variant" in rec.get("case", {}):
        from vf.core import Ctx

        c = Ctx("C31")
        bounded_hierarchy(c)
        print(f"replay C31 hierarchy domain: {len(c.violations)} failing case(s)")
        return 1 if c.violations else 0

    return B.replay(rec)
