"""C31 — requirement and mutual-exclusion rules are enforced exactly.

D: Requirement.satisfied, RequirementSet.satisfied, Task._rule_violations (loop invariants: an empty
   result implies the per-field rule for every field), Task._check_rules (returns only if no
   violation is listed), Job.__init__ (rules are checked before anything else happens).
B: every generated task with <= 5 fields x requirement sets x xor groups x value assignments
   against the three-valued oracle spec.rules.rules_ok (props/_c31_bounded.py); this also
   covers the mutual-exclusion rule, which is not under a deductive contract.
"""
from contracts import rules as R
from pyvc.verify import verify, summarize


def run(ctx):
    ctx.level = "other"
    ctx.explanation = (
        "Deductive: the requirement rule (Requirement/RequirementSet.satisfied), the soundness direction of "
        "Task._rule_violations for mandatory and requires rules (empty result => every field rule holds, with loop invariants), "
        "Task._check_rules and the position of the rule check in Job.__init__. The mutual-exclusion (xor) rule and the "
        "completeness direction (rules hold => no violation reported) are decided by the exhaustive bounded enumeration only."
    )
    for c in (R.requirement_contract(), R.requirement_set_contract(), R.rule_violations_contract(), R.check_rules_contract(), R.job_init_contract()):
        res = verify(ctx, c)
        summarize(ctx, res)
    from props import _c31_bounded as B

    B.bounded(ctx)


def replay(rec):
    from props import _c31_bounded as B

    return B.replay(rec)
