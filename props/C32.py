"""C32 — task definitions survive dictionary round trips.

B: structure(unstructure(T)) for generated shell and python task definitions; the recreated
   class is compared field by field (every declared attribute of every input/output field,
   xor, name) with the original and both are exercised on equal inputs (shell: cmdline;
   python: a real run).
"""

import os
import shutil
import tempfile
from pathlib import Path

import spec.tier3 as T

os.environ.setdefault("NO_ET", "true")  # no network: same switch as /repo/pydra/conftest.py


def check_definition(key, tmp: Path, run_python: bool):
    """returns (problems, description)"""
    from pydra.utils.general import unstructure, structure, get_fields

    kind = key[0]
    Orig = T.build_shell(key) if kind == "shell" else T.build_python(key)
    desc = {"key": key, "fields": [f.name for f in get_fields(Orig)], "outputs": [f.name for f in get_fields(Orig.Outputs)]}
    try:
        dct = unstructure(Orig)
    except Exception as e:
        return [f"unstructure-raises: {type(e).__name__}: {str(e)[:200]}"], desc
    if not isinstance(dct, dict):
        return [f"unstructure-not-a-dict: {type(dct).__name__}"], desc
    try:
        Re = structure(dct)
    except Exception as e:
        return [f"structure-raises: {type(e).__name__}: {str(e)[:300]}"], desc
    probs = T.definition_differences(Orig, Re)
    f = tmp / "in.txt"
    if not f.exists():
        f.write_text("content")
    sets = T.shell_input_sets(key, str(f)) if kind == "shell" else T.python_input_sets(key, str(f))
    for i, kw in enumerate(sets):
        try:
            t1 = Orig(**kw)
        except Exception as e:  # the generator produced inputs the ORIGINAL rejects: harness problem
            raise RuntimeError(f"generated inputs {kw} rejected by the original definition {key}: {e!r}")
        try:
            t2 = Re(**kw)
        except Exception as e:
            probs.append(f"behaviour: recreated class rejects inputs {kw} the original accepts: {type(e).__name__}: {str(e)[:160]}")
            continue
        if kind == "shell":
            try:
                c1 = t1.cmdline
            except Exception as e:
                c1 = f"<{type(e).__name__}>"
            try:
                c2 = t2.cmdline
            except Exception as e:
                c2 = f"<{type(e).__name__}>"
            desc.setdefault("cmdlines", []).append(c1)
            if c1 != c2:
                probs.append(f"behaviour: cmdline differs for {kw}: {c1!r} -> {c2!r}")
        elif run_python or i <= 1:
            o1 = t1(cache_root=tmp / f"c1_{i}")
            o2 = t2(cache_root=tmp / f"c2_{i}")
            v1 = {n: getattr(o1, n) for n in desc["outputs"]}
            v2 = {n: getattr(o2, n, "<absent>") for n in desc["outputs"]}
            desc.setdefault("results", []).append(repr(v1))
            if v1 != v2:
                probs.append(f"behaviour: outputs differ for {kw}: {v1!r} -> {v2!r}")
            shutil.rmtree(tmp / f"c1_{i}", ignore_errors=True)
            shutil.rmtree(tmp / f"c2_{i}", ignore_errors=True)
    return probs, desc


def classify(key, probs):
    """finding class from the failing definition: which declared feature does not round trip"""
    kind = key[0]
    extra = key[3] if kind == "shell" else key[1]
    first = probs[0]
    has_requires = any(n in ("k_req", "l_reqval", "g") for n in extra)
    if first.startswith("structure-raises") and has_requires and "requirements" in first:
        return "structure-raises@field-with-requires"
    if first.startswith("attr-differs") or first.startswith("class-attr-differs"):
        return ":".join(first.split(":")[:2]) + f"@{kind}"
    return first.split(":")[0] + f"@{kind}"


def _worker(args):
    key, base, run_python = args
    tmp = Path(base) / f"w{os.getpid()}"
    tmp.mkdir(parents=True, exist_ok=True)
    return key, check_definition(key, tmp, run_python)


def _run(ctx):
    import multiprocessing as mp

    ctx.level = "other"
    ctx.explanation = (
        "Shell and python task definitions are generated from a catalogue of field templates (types incl. unions, "
        "lists, dicts, files; defaults; help; argstr incl. templates and `...`; explicit/implicit/negative positions; "
        "sep; allowed_values; requires with and without allowed values; formatter; converter; copy_mode; argstr=None; "
        "outarg with path_template / keep_extension; out with callable; xor groups with and without None; list "
        "executables). structure(unstructure(T)) must give a class whose every field attribute, xor set and name "
        "equal the original's, the same cmdline for equal inputs (shell) and the same outputs from a real run (python)."
    )
    k_sh, k_py = ctx.pick(2, 3), ctx.pick(2, 3)
    keys = list(T.shell_definitions(k_sh, full_upto=ctx.pick(1, 3))) + list(T.python_definitions(k_py))
    n_sh = sum(1 for k in keys if k[0] == "shell")
    dom = ctx.domain(
        "generated-definitions",
        bound=f"shell: mandatory int arg at position None/1/-1 + every subset of <= {k_sh} of 16 further input templates x 5 output sets x xor variants x executable str/list ({n_sh} definitions" + ("" if ctx.thorough else "; quick: position/output-set variation only for subsets of <= 1 template") + "); "
        f"python: mandatory int + every subset of <= {k_py} of 13 input templates x 3 output sets x xor variants ({len(keys) - n_sh} definitions); three input value sets each, one of them leaving every field with a default unset (python definitions are really run: on all sets in thorough, on the first two in quick)",
        rule="one unstructure+structure per definition, compared attribute by attribute, then cmdline / real run on equal inputs; non-trivial = at least one optional template or output beyond the mandatory field",
        exhaustive=True,
    )
    base = tempfile.mkdtemp(prefix="vf_c32_")
    try:
        with mp.get_context("fork").Pool(ctx.pick(4, 8)) as pool:
            for key, (probs, desc) in pool.imap(_worker, [(k, base, ctx.thorough) for k in keys], chunksize=16):
                extra = key[3] if key[0] == "shell" else key[1]
                outs = key[4] if key[0] == "shell" else key[2]
                case = {"key": list(key), **{k: v for k, v in desc.items() if k != "key"}}
                dom.case(key, nontrivial=bool(extra) or bool(outs), sample=case)
                if probs:
                    case["problems"] = probs[:6]
                    ctx.fail(classify(key, probs), f"C32: {key}: {probs[0]}", case, domain=dom)
    finally:
        shutil.rmtree(base, ignore_errors=True)


def _tuplify(x):
    return tuple(_tuplify(i) for i in x) if isinstance(x, list) else x


def _replay(rec):
    key = _tuplify(rec["case"]["key"])
    tmp = Path(tempfile.mkdtemp(prefix="vf_c32_"))
    try:
        probs, desc = check_definition(key, tmp, True)
    finally:
        shutil.rmtree(tmp, ignore_errors=True)
    print(f"replay C32: {key} problems={probs}")
    if probs:
        print(f"VIOLATION property=C32 replay={rec.get('_path', '')}")
        return 1
    return 0


def deductive(ctx):
    """engine D: structure() hands every entry of a COPY of the dictionary to `define` of the module its `type` names
    (executor positional, everything else by keyword); filter_out_defaults omits an attribute only when it equals its default
    -- contracts/structure.py.  unstructure's comprehension pipeline and the `define` functions are bounded only."""
    from contracts import structure as ST
    from pyvc.verify import verify, summarize

    for mk in (ST.structure_contract, ST.filter_contract):
        summarize(ctx, verify(ctx, mk()))


def run(ctx):
    deductive(ctx)
    with T.private_hash_cache():
        _run(ctx)


def replay(rec):
    with T.private_hash_cache():
        return _replay(rec)
