"""C33 — workflow output files are collected without clashes or loss.

B: copyfile_workflow (hence copy_nested_files / TypeParser.apply_to_instances / FileSet.copy)
   on enumerated nested output values over a fixed source tree with colliding names, plus
   real workflows (debug worker) whose nodes all write `out.txt`.
"""

import functools
import itertools
import os
import shutil
import tempfile
import typing as ty
from pathlib import Path

from fileformats.generic import File, Directory
from pydra.compose import python, workflow

import spec.tier3 as T

os.environ.setdefault("NO_ET", "true")  # no network: same switch as /repo/pydra/conftest.py

@functools.lru_cache(None)
def _outputs_class():

    @python.define
    def _Id(x: int) -> int:
        return x

    @workflow.define(outputs={"o1": ty.Any, "o2": ty.Any})
    def CollectWf(x: int):
        n = workflow.add(_Id(x=x), name="n")
        return n.out, n.out

    return CollectWf.Outputs


_W = {}


def _worker_init(base):
    """per worker process: one source tree, rebuilt only if a case damaged it"""
    import os

    root = Path(base) / f"w{os.getpid()}"
    root.mkdir(parents=True, exist_ok=True)
    _W["root"] = root
    _W["src"] = T.build_sources(root)
    _W["before"] = T.snapshot(_W["src"])
    _W["n"] = 0


def run_case(args):
    """apply the real copyfile_workflow to one nested value; returns (shape, leaves, problems, description)"""
    from pydra.engine.result import copyfile_workflow

    shape_name, leaf_names = args
    shape = {s[0]: s for s in T.C33_SHAPES}[shape_name]
    root, src, before = _W["root"], _W["src"], _W["before"]
    _W["n"] += 1
    wf_dir = root / f"cache{_W['n']}" / "workflow-0123"
    try:
        leaves = T.leaf_factory(src)
        slots = [leaves[n]() for n in leaf_names]
        values = shape[2](slots)
        outputs = _outputs_class()(**values)
        wf_dir.mkdir(parents=True)
        (wf_dir / "_job.pklz").write_bytes(b"x")  # what a real workflow directory already holds
        try:
            new = copyfile_workflow(wf_dir, outputs)
        except Exception as e:  # the property promises collection, not an error
            return shape_name, leaf_names, [f"raised: {type(e).__name__}: {str(e)[:160]}".replace(str(root), "")], {"values": repr(values).replace(str(root), "")[:300]}
        new_values = {k: getattr(new, k) for k in values}
        probs = [p.replace(str(root), "") for p in T.c33_problems(values, new_values, wf_dir, before, src)]
        desc = {"values": repr(values).replace(str(root), "")[:300], "collected": repr(new_values).replace(str(root), "")[:300]}
        return shape_name, leaf_names, probs, desc
    finally:
        shutil.rmtree(wf_dir.parent, ignore_errors=True)
        if T.snapshot(src) != before:
            shutil.rmtree(src, ignore_errors=True)
            T.build_sources(root)


def run_cases(cases, procs):
    import multiprocessing as mp

    base = tempfile.mkdtemp(prefix="vf_c33_")
    try:
        if procs <= 1:
            _worker_init(base)
            yield from map(run_case, cases)
        else:
            with mp.get_context("fork").Pool(procs, initializer=_worker_init, initargs=(base,)) as pool:
                yield from pool.imap(run_case, cases, chunksize=16)
    finally:
        shutil.rmtree(base, ignore_errors=True)


# ------------------------------------------------------------------ real workflows


def run_workflow_case(kind: str, n: int):
    """real workflow run: every node writes `out.txt` (and a directory `outd`) into its own job
    directory; the workflow returns them in a nested structure"""
    from pydra.engine.submitter import Submitter

    @python.define(outputs={"f": File, "d": Directory})
    def Writer(i: int):
        p = Path.cwd() / "out.txt"
        p.write_text(f"node-{i}")
        d = Path.cwd() / "outd"
        d.mkdir()
        (d / "x.txt").write_text(f"dir-{i}")
        return File(p), Directory(d)

    @python.define
    def Pack(a: File, b: File) -> dict[str, File]:
        return {"a": a, "b": b}

    tmp =Path(tempfile.mkdtemp(prefix="vf_c33w_"))
    try:
        if kind == "fields":

            @workflow.define(outputs={"f0": File, "f1": File, "d0": Directory, "d1": Directory})
            def W(x: int):
                a = workflow.add(Writer(i=x), name="a")
                b = workflow.add(Writer(i=x + 1), name="b")
                return a.f, b.f, a.d, b.d

            expect = {"f0": b"node-0", "f1": b"node-1", "d0": {"x.txt": b"dir-0"}, "d1": {"x.txt": b"dir-1"}}
            task = W(x=0)
        elif kind == "split":

            @workflow.define(outputs={"files": list[File], "dirs": list[Directory]})
            def W(xs: list[int]):
                a = workflow.add(Writer().split(i=xs).combine("i"), name="a")
                return a.f, a.d

            expect = {"files": [f"node-{i}".encode() for i in range(n)], "dirs": [{"x.txt": f"dir-{i}".encode()} for i in range(n)]}
            task = W(xs=list(range(n)))
        elif kind == "dict":

            @workflow.define(outputs={"packed": dict[str, File]})
            def W(x: int):
                a = workflow.add(Writer(i=x), name="a")
                b = workflow.add(Writer(i=x + 1), name="b")
                p = workflow.add(Pack(a=a.f, b=b.f), name="p")
                return p.out

            expect = {"packed": {"a": b"node-0", "b": b"node-1"}}
            task = W(x=0)
        else:
            raise ValueError(kind)
        with Submitter(cache_root=tmp / "cache", worker="debug") as sub:
            res = sub(task)
        wf_dir = res.cache_dir
        got = {k: getattr(res.outputs, k) for k in expect}
        probs = []
        dests = []

        def walk(e, g, where):
            if isinstance(e, list):
                if not isinstance(g, list) or len(g) != len(e):
                    probs.append(f"shape: {where}: expected a list of {len(e)}, got {g!r}"[:200])
                    return
                for i, (ee, gg) in enumerate(zip(e, g)):
                    walk(ee, gg, f"{where}[{i}]")
            elif isinstance(e, dict) and not T.is_fileset(g):
                if not isinstance(g, dict) or list(g) != list(e):
                    probs.append(f"shape: {where}: expected a dict {list(e)}, got {g!r}"[:200])
                    return
                for k in e:
                    walk(e[k], g[k], f"{where}[{k!r}]")
            else:
                if not T.is_fileset(g):
                    probs.append(f"shape: {where}: expected a file-set, got {g!r}"[:200])
                    return
                p = Path(g.fspath)
                dests.append(p)
                if not T.inside(p, wf_dir):
                    probs.append(f"outside: {where}: {p} is not inside the workflow directory {wf_dir}")
                if not p.exists() or T.snapshot(p) != e:
                    probs.append(f"content: {where}: {p} does not hold the content its node wrote ({e!r})")

        for k in expect:
            walk(expect[k], got[k], k)
        if len(set(dests)) != len(dests):
            probs.append(f"clash: distinct node outputs share a destination: {sorted(map(str, dests))}")
        return probs, {"kind": kind, "n": n, "outputs": repr(got).replace(str(tmp), "")[:300]}
    finally:
        shutil.rmtree(tmp, ignore_errors=True)


def _run(ctx):
    ctx.level = "other"
    ctx.explanation = (
        "copyfile_workflow is applied to enumerated nested output values (two output fields holding lists, tuples, "
        "dicts and nestings of files, directories, a two-file image+header set, ints and strings) over a source tree "
        "in which several directories hold entries of the same name; the result is compared with the property: every "
        "collected path lies inside the workflow directory, shows the content of its source, distinct sources have "
        "distinct non-nested destinations, the nesting shape and non-file values are unchanged and the sources are "
        "untouched. Real workflows (debug worker) whose nodes all write out.txt / outd are run as well."
    )
    file_leaves = ["F1", "F2", "F3", "Fb", "D1", "D2", "Do"] + ctx.pick([], ["I1", "I2", "Ix"])
    other = ["N7"] + ctx.pick([], ["Ss"])
    pool = file_leaves + other
    shapes = [s for s in T.C33_SHAPES if ctx.thorough or s[1] <= 3]
    dom = ctx.domain(
        "nested-output-values",
        bound=f"{len(shapes)} nesting shapes ({', '.join(s[0] for s in shapes)}) x every assignment of the leaves {pool} to their "
        f"<= {max(s[1] for s in shapes)} slots; source tree: d1,d2,d3 each with out.txt (d3 = same content as d1), d1/b.txt, directories d1/sub, d2/sub, d2/out",
        rule="one real copyfile_workflow call per (shape, leaf assignment); non-trivial = at least two file leaves with the same name from different directories",
        exhaustive=True,
    )
    name_of = {"F1": "out.txt", "F2": "out.txt", "F3": "out.txt", "Fb": "b.txt", "D1": "sub", "D2": "sub", "Do": "out", "I1": "im", "I2": "im", "Ix": "imx"}
    cases = []
    for shape in shapes:
        for leaf_names in itertools.product(pool, repeat=shape[1]):
            if shape[1] == 4 and len(set(leaf_names)) < 3:
                continue
            cases.append((shape[0], leaf_names))
    for shape_name, leaf_names, probs, desc in run_cases(cases, procs=ctx.pick(4, 8)):
        names = [name_of[l] for l in set(leaf_names) if l in name_of]
        case = {"shape": shape_name, "leaves": list(leaf_names), **desc}
        dom.case((shape_name, leaf_names), nontrivial=len(names) != len(set(names)), sample=case)
        if probs:
            case["problems"] = probs[:6]
            ctx.fail(T.c33_class(leaf_names, probs), f"C33: collecting {shape_name} of {list(leaf_names)}: {probs[0]}", case, domain=dom)

    dom2 = ctx.domain(
        "real-workflows",
        bound="workflows run with the debug worker: two writer nodes -> four output fields; a writer split over n=2..4 inputs combined into list outputs; two writers packed into a dict output",
        rule="one Submitter run per workflow; every node writes out.txt and a directory outd in its own job directory; non-trivial = always (names collide)",
        exhaustive=True,
    )
    cases = [("fields", 2), ("dict", 2)] + [("split", n) for n in ctx.pick([2, 3], [2, 3, 4])]
    for kind, n in cases:
        try:
            probs, desc = run_workflow_case(kind, n)
        except Exception as e:
            probs, desc = [f"raised: {type(e).__name__}: {str(e)[:300]}"], {"kind": kind, "n": n}
        dom2.case((kind, n), sample=desc)
        if probs:
            desc["problems"] = probs[:6]
            kinds = "+".join(sorted({p.split(":")[0] for p in probs}))
            ctx.fail(f"{kinds}@workflow-{kind}", f"C33: workflow {kind}/{n}: {probs[0]}", {"workflow": kind, "n": n, **desc}, domain=dom2)


def _replay(rec):
    case = rec["case"]
    if "workflow" in case:
        probs, desc = run_workflow_case(case["workflow"], case["n"])
    else:
        _, _, probs, desc = next(run_cases([(case["shape"], tuple(case["leaves"]))], procs=1))
    print(f"replay C33: {desc} problems={probs}")
    if probs:
        print(f"VIOLATION property=C33 replay={rec.get('_path', '')}")
        return 1
    return 0


def deductive(ctx):
    """engine D: whenever copyfile_workflow passes an output field through copy_nested_files it is with the workflow directory as
    destination (mode hardlink_or_copy) and stores what that call returns"""
    from contracts import copyfile_workflow as CW
    from pyvc.verify import verify, summarize

    summarize(ctx, verify(ctx, CW.contract()))


def run(ctx):
    deductive(ctx)
    with T.private_hash_cache():
        _run(ctx)


def replay(rec):
    with T.private_hash_cache():
        return _replay(rec)
