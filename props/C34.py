"""C34 — file inputs are staged according to their copy mode.

B: Job.inputs (hence copy_nested_files / FileSet.copy / MountIndentifier) for generated task
   classes whose file fields carry each copy mode / collation, over nested values of files,
   directories and a two-file image+header set; real temp files; the relation between every
   staged path and its original is read back from the file system (same path / symlink /
   same inode / separate inode) and exercised (write to the copy, update the original).
"""

import functools
import itertools
import os
import shutil
import tempfile
from pathlib import Path

from fileformats.generic import File, Directory
from fileformats.core import FileSet
from fileformats.testing import ImageWithHeader
from pydra.compose import python, shell

import spec.tier3 as T

os.environ.setdefault("NO_ET", "true")  # no network: same switch as /repo/pydra/conftest.py

KIND_CLASS = {"F": File, "D": Directory, "I": ImageWithHeader}
KIND_POOL = {"F": ["F1", "F2", "Fb"], "D": ["D1", "D2"], "I": ["I1", "I2", "Ix"]}
MOUNTS = ["real", "d1-on-cifs", "cache-on-other-mount"]


@functools.lru_cache(None)
def task_class(shape_name: str, kind: str, mode: str, collation: str):
    shape = {s[0]: s for s in T.C34_SHAPES}[shape_name]
    types = [eval(t, {"File": KIND_CLASS[kind], "list": list, "dict": dict, "tuple": tuple, "str": str, "int": int}) for t in shape[2].split(";")]
    names = ["x", "y"][: len(types)]
    inputs = {n: python.arg(type=t, copy_mode=FileSet.CopyMode[mode], copy_collation=FileSet.CopyCollation[collation]) for n, t in zip(names, types)}
    inputs["n"] = python.arg(type=int, default=5)
    inputs["label"] = python.arg(type=str, default="out.txt")
    ns = {}
    exec(f"def staged({', '.join(names)}, n, label):\n    return 0\n", ns)
    return python.define(ns["staged"], inputs=inputs, outputs={"out": int})


_W = {}


def _worker_init(base):
    """per process: one source tree and one Submitter; the tree is rebuilt if a case damaged it"""
    from pydra.engine.submitter import Submitter

    root = Path(os.path.realpath(base)) / f"w{os.getpid()}"
    root.mkdir(parents=True, exist_ok=True)
    _W["root"] = root
    _W["src"] = T.build_sources(root)
    _W["before"] = T.snapshot(_W["src"])
    _W["sub"] = Submitter(cache_root=root / "cache", worker="debug")


def run_case(shape_name, leaf_names, mode, collation, mounts):
    import contextlib
    from pydra.engine.job import Job
    from pydra.utils.mount_identifier import MountIndentifier
    from fileformats.core.exceptions import UnsatisfiableCopyModeError

    shape = {s[0]: s for s in T.C34_SHAPES}[shape_name]
    kind = leaf_names[0][0]
    tmp, src, before, sub = _W["root"], _W["src"], _W["before"], _W["sub"]
    cache_root = tmp / "cache"
    job = None
    try:
        leaves = T.leaf_factory(src)
        slots = [leaves[n]() for n in leaf_names]
        values = shape[3](slots)
        task = task_class(shape_name, kind, mode, collation)(**values)
        job = Job(task, submitter=sub, name="staged")
        job.cache_dir.mkdir()
        table = {"real": None, "d1-on-cifs": [(str(src / "d1"), "cifs")], "cache-on-other-mount": [(str(cache_root), "cifs")]}[mounts]
        forbidden = {}
        for v in slots:
            for p in v.fspaths:
                p = Path(p)
                if mounts == "d1-on-cifs" and p.is_relative_to(src / "d1"):
                    forbidden[p] = T.SYM | T.HARD  # source on a CIFS share that is a different mount
                elif mounts == "cache-on-other-mount":
                    forbidden[p] = T.HARD  # job directory on another mount
        mask = T.MODES[mode]
        desc = {"values": repr(values).replace(str(tmp), "")[:300]}
        cm = MountIndentifier.patch_table(table) if table is not None else contextlib.nullcontext()
        try:
            with cm:
                staged = job.inputs
        except UnsatisfiableCopyModeError as e:
            # allowed only when nothing the mode permits is possible for some file-set of the value
            ok = False
            for v in slots:
                eff = mask
                for p in v.fspaths:
                    eff &= ~forbidden.get(Path(p), 0)
                multi = len(v.fspaths) > 1
                parents = {Path(p).parent for p in v.fspaths}
                leave_possible = not multi or collation == "any" or len(parents) == 1
                if eff == 0 or (eff == T.LEAVE and not leave_possible):
                    ok = True
            desc["raised"] = "UnsatisfiableCopyModeError"
            return ([] if ok else [f"raised: UnsatisfiableCopyModeError although the mode {mode} is satisfiable: {str(e)[:160]}".replace(str(tmp), "")]), desc
        except Exception as e:
            desc["raised"] = type(e).__name__
            return [f"raised: {type(e).__name__}: {str(e)[:200]}".replace(str(tmp), "")], desc
        probs = []
        kinds = []
        for name, val in values.items():
            p, info = T.c34_problems(val, staged[name], mask, job.cache_dir, src, before, forbidden=forbidden, collation=collation)
            probs += [f"{x}".replace(str(tmp), "") for x in p]
            kinds += info["kinds"]
        for name in ("n", "label"):
            if staged[name] != getattr(task, name):
                probs.append(f"shape: non-file field {name} changed from {getattr(task, name)!r} to {staged[name]!r}")
        if T.snapshot(src) != before:
            probs.append("loss: staging modified the original files")
        desc["staged"] = repr({k: staged[k] for k in values}).replace(str(tmp), "")[:300]
        desc["kinds"] = sorted(set(kinds))
        return probs, desc
    finally:
        if job is not None:
            shutil.rmtree(job.cache_dir, ignore_errors=True)
        if T.snapshot(src) != before:
            shutil.rmtree(src, ignore_errors=True)
            T.build_sources(tmp)


@functools.lru_cache(None)
def mixed_class(kind: str, mode_x: str, mode_y: str):
    """two file fields with DIFFERENT copy modes (collation any)"""
    K = KIND_CLASS[kind]
    inputs = {
        "x": python.arg(type=K, copy_mode=FileSet.CopyMode[mode_x]),
        "y": python.arg(type=K, copy_mode=FileSet.CopyMode[mode_y]),
    }
    ns = {}
    exec("def staged2(x, y):\n    return 0\n", ns)
    return python.define(ns["staged2"], inputs=inputs, outputs={"out": int})


def run_mixed_case(kind, leaf, mode_x, mode_y, same_object):
    """the same file-set (the same object, or an equal one) given to two fields with different copy modes: each field is
    staged according to ITS OWN mode, whatever the other field did with the file"""
    from pydra.engine.job import Job

    tmp, src, before, sub = _W["root"], _W["src"], _W["before"], _W["sub"]
    job = None
    try:
        leaves = T.leaf_factory(src)
        vx = leaves[leaf]()
        vy = vx if same_object else leaves[leaf]()
        values = {"x": vx, "y": vy}
        task = mixed_class(kind, mode_x, mode_y)(**values)
        job = Job(task, submitter=sub, name="staged2")
        job.cache_dir.mkdir()
        desc = {"values": repr(values).replace(str(tmp), "")[:300]}
        try:
            staged = job.inputs
        except Exception as e:
            desc["raised"] = type(e).__name__
            return [f"raised: {type(e).__name__}: {str(e)[:200]}".replace(str(tmp), "")], desc
        probs, kinds = [], []
        for name, mode in (("x", mode_x), ("y", mode_y)):
            p, info = T.c34_problems(values[name], staged[name], T.MODES[mode], job.cache_dir, src, before, forbidden={}, collation="any")
            probs += [f"field {name} (copy_mode={mode}): {x}".replace(str(tmp), "") for x in p]
            kinds += info["kinds"]
        if T.snapshot(src) != before:
            probs.append("loss: staging modified the original files")
        desc["staged"] = repr({k: staged[k] for k in values}).replace(str(tmp), "")[:300]
        desc["kinds"] = kinds
        return probs, desc
    finally:
        if job is not None:
            shutil.rmtree(job.cache_dir, ignore_errors=True)
        if T.snapshot(src) != before:
            shutil.rmtree(src, ignore_errors=True)
            T.build_sources(tmp)


def _mixed_worker(args):
    return args, run_mixed_case(*args)


def mixed_cases(ctx):
    modes = list(T.MODES)
    out = []
    for kind, leaf in (("F", "F1"), ("D", "D1"), ("I", "I1")) if ctx.thorough else (("F", "F1"), ("I", "I1")):
        for mx in modes:
            for my in modes:
                if mx == my:
                    continue
                for same in (True, False):
                    out.append((kind, leaf, mx, my, same))
    return out


def run_cases(cases, procs):
    import multiprocessing as mp

    base = tempfile.mkdtemp(prefix="vf_c34_")
    try:
        if procs <= 1:
            _worker_init(base)
            try:
                yield from map(_worker, cases)
            finally:
                _W["sub"].close()
        else:
            with mp.get_context("fork").Pool(procs, initializer=_worker_init, initargs=(base,)) as pool:
                yield from pool.imap(_worker, cases, chunksize=8)
    finally:
        shutil.rmtree(base, ignore_errors=True)


def classify(shape_name, leaf_names, mode, collation, mounts, probs):
    """finding class: problem kinds + the specific situation"""
    kinds = "+".join(sorted({p.split(":")[0] for p in probs}))
    if kinds == "raised" and "FileExistsError" in probs[0] and shape_name == "two-fields" and len(leaf_names) == 2:
        # narrow predicate: the two file FIELDS hold paths with a common base name (same object included)
        names = [{Path(r).name for r in T.LEAF_PATHS[l]} for l in leaf_names]
        if names[0] & names[1]:
            return "file-exists@two-fields-shared-basename"
    return f"{kinds}@{shape_name}/{mode}/{collation}/{mounts}"


def _worker(args):
    return args, run_case(*args)


# ------------------------------------------------------------------ end to end (shell task)


def run_shell_case(mode: str, action: str):
    """a real shell task that appends to (action=append) or prints (action=cat) its input file"""
    from pydra.engine.submitter import Submitter

    script = {"append": 'printf +task >> "$0"; cat "$0"', "cat": 'cat "$0"'}[action]

    @shell.define
    class ShStage(shell.Task["ShStage.Outputs"]):
        executable = ["sh", "-c", script]
        in_file: File = shell.arg(argstr="", position=1, copy_mode=FileSet.CopyMode[mode], help="the staged file")

        class Outputs(shell.Outputs):
            pass

    tmp = Path(os.path.realpath(tempfile.mkdtemp(prefix="vf_c34s_")))
    try:
        src = T.build_sources(tmp)
        f = src / "d1/out.txt"
        task = ShStage(in_file=File(f))
        with Submitter(cache_root=tmp / "cache", worker="debug") as sub:
            try:
                res = sub(task)
            except Exception as e:
                return [f"raised: {type(e).__name__}: {str(e)[:300]}"], {"mode": mode, "action": action}
        probs = []
        out = res.outputs.stdout
        if action == "cat" and out != "d1-out":
            probs.append(f"content: the task saw {out!r}, the original holds 'd1-out'")
        if action == "append":
            if out != "d1-out+task":
                probs.append(f"content: the task saw {out!r} after appending, expected 'd1-out+task'")
            if mode == "copy" and f.read_text() != "d1-out":
                probs.append(f"copy-not-independent: the task appended to its copy and the original now reads {f.read_text()!r}")
        return probs, {"mode": mode, "action": action, "stdout": out}
    finally:
        shutil.rmtree(tmp, ignore_errors=True)


def run_python_case(mode: str, action: str):
    """a real python task that reports (action=report) or appends to (action=append) the file it receives"""
    from pydra.engine.submitter import Submitter

    def body(x):
        if action == "append":
            with open(x, "a") as fh:
                fh.write("+task")
        return str(x), Path(x).read_text()

    Task = python.define(body, inputs={"x": python.arg(type=File, copy_mode=FileSet.CopyMode[mode], help="the staged file")}, outputs={"received": str, "seen": str}, name="PyStage")
    tmp = Path(os.path.realpath(tempfile.mkdtemp(prefix="vf_c34p_")))
    try:
        src = T.build_sources(tmp)
        f = src / "d1/out.txt"
        task = Task(x=File(f))
        raised = None
        res = None
        with Submitter(cache_root=tmp / "cache", worker="debug") as sub:
            try:
                res = sub(task)
            except Exception as e:
                raised = f"{type(e).__name__}: {str(e)[:160]}"
        probs = []
        desc = {"mode": mode, "action": action, "raised": raised}
        if f.read_text() != "d1-out" and not T.MODES[mode] & (T.LEAVE | T.HARD | T.SYM):
            probs.append(f"copy-not-independent: the task wrote to the file it received and the original now reads {f.read_text()!r}")
        if res is not None:
            received = Path(res.outputs.received)
            desc["received"] = str(received).replace(str(tmp), "")
            kind = T.LEAVE if received == f else None
            if kind == T.LEAVE and not T.MODES[mode] & T.LEAVE:
                probs.append(f"mode: the task received the original path although the copy mode {mode} does not allow leaving the file in place")
            if res.outputs.seen != ("d1-out+task" if action == "append" else "d1-out"):
                probs.append(f"content: the task saw {res.outputs.seen!r}")
        elif raised and not probs:
            probs.append(f"raised: {raised}")
        return [p.replace(str(tmp), "") for p in probs], desc
    finally:
        shutil.rmtree(tmp, ignore_errors=True)


def cases(ctx):
    out = []
    modes = list(T.MODES)
    for shape in T.C34_SHAPES:
        for kind in ("F", "D", "I"):
            pool = KIND_POOL[kind]
            if not ctx.thorough and kind == "D" and shape[0] not in ("single", "list", "two-fields"):
                continue
            if not ctx.thorough and kind == "I" and shape[0] not in ("single", "list", "two-fields"):
                continue
            for leaf_names in itertools.product(pool, repeat=shape[1]):
                if not ctx.thorough and shape[1] == 2 and leaf_names[0] > leaf_names[1]:
                    continue
                for mode in modes:
                    for collation in ["any", "siblings", "adjacent"] if kind == "I" else ["any"]:
                        for mounts in MOUNTS:
                            if not ctx.thorough and mounts != "real" and (shape[0] not in ("single", "two-fields") or collation != "any" or (kind == "I" and shape[0] != "single")):
                                continue
                            out.append((shape[0], leaf_names, mode, collation, mounts))
    return out


def _run(ctx):
    ctx.level = "other"
    ctx.explanation = (
        "Job.inputs is evaluated on real Jobs of generated python task classes whose file fields carry every copy "
        "mode (any, leave, copy, link, symlink, hardlink, link_or_copy, hardlink_or_copy, symlink_or_copy, "
        "leave_or_copy) and collation, with nested values (single, list, repeated object, dict, tuple with an int, "
        "list of lists, dict of lists, two fields) of files, directories and a two-file image+header set, with the "
        "real mount table and two simulated ones (source directory on a CIFS mount, job directory on another mount). "
        "For every staged path the relation to its original is read back from the file system and must be one the "
        "mode allows and the mount table does not rule out; a copy is written to and the original must not change; "
        "the original of a link is updated in place and the link must show it; shapes, non-file values, destinations "
        "inside the job directory, one destination per repeated object and collation (siblings/adjacent) are checked. "
        "A real shell task and a real python task that append to / report their input are run per mode."
    )
    cs = cases(ctx)
    dom = ctx.domain(
        "staging-by-mode",
        bound=f"{len(T.C34_SHAPES)} value shapes x leaves (files F1,F2 (same name) Fb; directories D1,D2 (same name); image+header sets I1,I2 (same names), Ix (parts in two directories)) "
        f"x {len(T.MODES)} copy modes x collation (any; siblings, adjacent for multi-file sets) x mount tables {MOUNTS}"
        + ("" if ctx.thorough else "; quick: nested shapes only for plain files and the real mount table, unordered leaf pairs"),
        rule="one real Job + Job.inputs per case; non-trivial = the mode is not `any`/`leave` or several files with the same name are staged",
        exhaustive=True,
    )
    if True:
        for args, (probs, desc) in run_cases(cs, ctx.pick(4, 8)):
            shape_name, leaf_names, mode, collation, mounts = args
            case = {"shape": shape_name, "leaves": list(leaf_names), "mode": mode, "collation": collation, "mounts": mounts, **desc}
            dom.case(args, nontrivial=mode not in ("any", "leave") or len(leaf_names) > 1, sample=case)
            if probs:
                case["problems"] = probs[:6]
                ctx.fail(classify(*args, probs), f"C34: staging {shape_name} of {list(leaf_names)} mode={mode} collation={collation} mounts={mounts}: {probs[0]}", case, domain=dom)

    mc = mixed_cases(ctx)
    domm = ctx.domain(
        "same-file-in-two-fields-with-different-copy-modes",
        bound=f"a file F1 / an image+header set I1" + (" / a directory D1" if ctx.thorough else "") + f" given to two fields x, y of one task: every ordered pair of different copy modes of the {len(T.MODES)} x (the same object in both fields, two equal objects)",
        rule="one real Job + Job.inputs per case; each field must be staged as its own mode allows (same clauses as staging-by-mode, per field); non-trivial = always",
        exhaustive=True,
    )
    import multiprocessing as mp

    base2 = tempfile.mkdtemp(prefix="vf_c34m_")
    try:
        with mp.get_context("fork").Pool(ctx.pick(4, 8), initializer=_worker_init, initargs=(base2,)) as pool:
            for args, (probs, desc) in pool.imap(_mixed_worker, mc, chunksize=8):
                kind, leaf, mx, my, same = args
                case = {"mixed": True, "kind": kind, "leaf": leaf, "mode_x": mx, "mode_y": my, "same_object": same, **desc}
                domm.case(args, sample=case)
                if probs:
                    case["problems"] = probs[:6]
                    ctx.fail(None, f"C34: {leaf} given to x (copy_mode={mx}) and y (copy_mode={my}), {'same object' if same else 'equal objects'}: {probs[0]}", case, domain=domm)
    finally:
        shutil.rmtree(base2, ignore_errors=True)

    dom2 = ctx.domain(
        "shell-task-end-to-end",
        bound="a real `sh -c` task with one File argument, modes copy/hardlink/symlink/link_or_copy/any, action append-in-place (copy only) or cat",
        rule="one Submitter run (debug worker) per (mode, action); non-trivial = always",
        exhaustive=True,
    )
    for mode, action in [("copy", "append"), ("copy", "cat"), ("hardlink", "cat"), ("symlink", "cat"), ("link_or_copy", "cat"), ("any", "cat")]:
        probs, desc = run_shell_case(mode, action)
        dom2.case((mode, action), sample=desc)
        if probs:
            desc["problems"] = probs
            ctx.fail(f"{probs[0].split(':')[0]}@shell-{mode}-{action}", f"C34: shell task mode={mode} {action}: {probs[0]}", {"shell": True, **desc}, domain=dom2)


    dom3 = ctx.domain(
        "python-task-end-to-end",
        bound="a real python task with one File argument, modes copy/hardlink/symlink/any, action report (return the received path and content) or append-in-place (copy only)",
        rule="one Submitter run (debug worker) per (mode, action); non-trivial = always",
        exhaustive=True,
    )
    for mode, action in [("copy", "report"), ("copy", "append"), ("hardlink", "report"), ("symlink", "report"), ("any", "report")]:
        probs, desc = run_python_case(mode, action)
        dom3.case((mode, action), sample=desc)
        if probs:
            desc["problems"] = probs
            kinds = "+".join(sorted({p.split(":")[0] for p in probs}))
            ctx.fail("python-task-receives-original" if kinds in ("mode", "copy-not-independent", "copy-not-independent+mode") else f"{kinds}@python-{mode}-{action}",
                     f"C34: python task mode={mode} {action}: {probs[0]}", {"python": True, **desc}, domain=dom3)  # fmt: skip


def _replay(rec):
    case = rec["case"]
    if case.get("python"):
        probs, desc = run_python_case(case["mode"], case["action"])
    elif case.get("shell"):
        probs, desc = run_shell_case(case["mode"], case["action"])
    elif case.get("mixed"):
        base = tempfile.mkdtemp(prefix="vf_c34r_")
        try:
            _worker_init(base)
            probs, desc = run_mixed_case(case["kind"], case["leaf"], case["mode_x"], case["mode_y"], case["same_object"])
        finally:
            shutil.rmtree(base, ignore_errors=True)
    elif "shape" not in case:
        print("replay C34: no native case recorded for this obligation (see solver_output): re-verifying the contract on the current tree")
        from vf.core import Ctx

        c = Ctx("C34")
        deductive(c)
        probs, desc = [v.get("what") for v in c.violations], "Job.inputs contract"
    else:
        _, (probs, desc) = next(run_cases([(case["shape"], tuple(case["leaves"]), case["mode"], case["collation"], case["mounts"])], 1))
    print(f"replay C34: {desc} problems={probs}")
    if probs:
        print(f"VIOLATION property=C34 replay={rec.get('_path', '')}")
        return 1
    return 0


def deductive(ctx):
    """engine D: in Job.inputs every file-typed field is staged by one copy_nested_files call that gets that field's own
    copy mode / collation and the job directory, and nothing else"""
    from contracts import job_inputs as JI
    from pyvc.verify import verify, summarize

    summarize(ctx, verify(ctx, JI.contract()))


def run(ctx):
    deductive(ctx)
    with T.private_hash_cache():
        _run(ctx)


def replay(rec):
    with T.private_hash_cache():
        return _replay(rec)
