"""C35 — job lifecycle leaves the process and cache directory consistent.

D: Job.run and Job.run_async, path-complete symbolic execution with exception injection
   at every call site; clauses over the effect trace (ghost state).
B: exception injection replayed natively at every hook/audit/task/save call site.
"""
from contracts import job_run as JR
from pyvc.verify import verify, summarize
from props import _jobharness as H

ROLES = {
    "cache-decision-and-execution-under-the-job-lock": "property:C35",
    "cwd-restored": "property:C35",
    "info-file-removed": "property:C35",
    "lock-released": "property:C35",
    "hooks-paired-once": "property:C35",
    "job-dir-holds-result-after-execution": "property:C35",
}


def classify(rec, case):
    """finding class of a refuted lifecycle obligation = clause + first raising call after the task body"""
    if rec["clause"] != "exit.job-dir-holds-result-after-execution":
        return None
    calls = [p for p in rec["path"].split("/") if p.startswith("call:")]
    after, seen_run = [], False
    for c in calls:
        _, name, how = c.rsplit(":", 2)[0].split(":", 1)[0], c.split(":", 1)[1].rsplit(":", 1)[0], c.rsplit(":", 1)[1]
        if name in ("self.task._run", "self.task._run_async"):
            seen_run = True
            continue
        if seen_run and how in ("raise", "raise-base") and name in H.SITE_OF:
            if H.SITE_OF[name] in ("hooks.post_run_task", "audit.finalize_audit"):
                return f"result-not-saved@{H.SITE_OF[name]}"
    return None


def run(ctx):
    ctx.level = "proof"
    ctx.explanation = (
        "Job.run and Job.run_async are loop-free; every path including an exception raised by any call is enumerated "
        "from the real source and the lifecycle clauses (cwd restored, info file removed, lock released, task hooks "
        "paired exactly once per execution and never on a cache hit, result saved after every execution) are "
        "discharged on each path. The bounded part replays exception injection natively at every call site."
    )
    for qual in ("Job.run", "Job.run_async"):
        res = verify(ctx, JR.contract(qual, ROLES))
        summarize(ctx, res, replay=H.replay_path, classify=classify)
    H.bounded_injection(ctx, "C35")


def replay(rec):
    return H.replay_case("C35", rec)
