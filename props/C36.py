"""C36 — provenance records are complete and consistent.

D: Job.run / Job.run_async: every successful start_audit is followed by exactly one
   finalize_audit, fed the very Result that is saved (same errored flag);
   Audit.start_audit / Audit.finalize_audit: the start and end record carry `self.aid`,
   the end record's `errored` is result.errored.
B: a pool of tasks (python ok / raising / shell / split / two-node workflow) run with PROV and
   ALL through a FileMessenger; the message files are parsed and paired.
"""
import json
import os
import shutil
import tempfile
from pathlib import Path

from contracts import job_run as JR
from pyvc.verify import Contract, verify, summarize
from pyvc.engine import Ref, HDict, is_z3, z3_and, z3_not, eq
from props import _jobharness as H

ROLES = {"audit-start-end-paired": "property:C36", "audit-end-flag-is-saved-flag": "property:C36"}
# the provenance machinery and the task-level end hook are assumed not to raise themselves:
# C36 quantifies over succeeding and failing *tasks*, not over a failing auditor
NORAISE = ["self.audit.audit_check", "self.audit.audit_task", "self.audit.monitor", "self.hooks.post_run_task", "self.hooks.pre_run_task"]

AUDIT_FILE = "pydra/engine/audit.py"


def _msgs(st):
    out = []
    for e in st.trace:
        if e.name == "self.audit_message" and not e.raised and len(e.args) >= 2 and isinstance(e.args[1], Ref):
            h = st.heap.get(e.args[1].n)
            # dict content as it was when the message was sent is what matters; dict literals are not mutated afterwards here
            if isinstance(h, HDict):
                out.append(h.items)
    return out


def _n(src):
    import ast

    return ast.parse(src, mode="eval").body


def audit_contract(qual):
    def prov_on(E, st):
        from pyvc.engine import GlobalV, to_U
        import z3

        f = z3.Function("fn.self.audit_check", *([E_U()] * 2), E_U())
        return f

    def start_clause(E, st, out):
        aid = st.fields.get((st.env["__entry__"]["self"].sexpr(), "aid"))
        starts = [m for m in _msgs(st) if "startedAtTime" in m]
        provs = [d for d in st.decisions if d.startswith("if")]
        if aid is None:
            # PROV branch not taken: no start record may be sent
            return len(starts) == 0
        return len(starts) == 1 and is_z3(starts[0].get("@id")) and starts[0]["@id"].eq(aid) and starts[0].get("@type") == "job"

    def end_clause(E, st, out):
        self_ = st.env["__entry__"]["self"]
        res = st.env["__entry__"]["result"]
        aid = E.getattr_(st, self_, "aid", _n("self.aid"))[0][1]
        ends = [m for m in _msgs(st) if "endedAtTime" in m and "wasEndedBy" not in m]
        took_prov = any(True for m in _msgs(st))
        if not ends:
            # allowed only when PROV auditing is off on this path: then no message at all is sent for the job
            return all("@id" not in m or not (is_z3(m["@id"]) and m["@id"].eq(aid)) for m in _msgs(st))
        err = E.getattr_(st, res, "errored", _n("result.errored"))[0][1]
        e = ends[-1]
        return len(ends) == 1 and is_z3(e.get("@id")) and e["@id"].eq(aid) and is_z3(e.get("errored")) and e["errored"].eq(err)

    params = {"self": "U", "odir": "U"} if qual.endswith("start_audit") else {"self": "U", "result": "U"}
    return Contract(
        file=AUDIT_FILE,
        qualname=qual,
        params=params,
        default_effects=True,
        callees={
            "self.audit_check": {"kind": "pure"},
            "gen_uuid": {"kind": "effect", "may_raise": False},
            "now": {"kind": "effect", "may_raise": False},
            "os.getpid": {"kind": "effect", "may_raise": False},
        },
        attrs={"aid": {"kind": "U"}, "mid": {"kind": "U"}, "eid": {"kind": "U"}, "odir": {"kind": "U"}, "errored": {"kind": "U"}, "runtime": {"kind": "U"}, "resource_monitor": {"kind": "U"}, "fname": {"kind": "U"}},
        ensures=[("start-record-carries-aid" if qual.endswith("start_audit") else "end-record-carries-aid-and-errored-flag", "property:C36", start_clause if qual.endswith("start_audit") else end_clause)],
        min_paths=2,
        trusted=["Audit.audit_check(flag) is a pure function of (self.audit_flags, flag)", "audit_message(message, flags) sends exactly `message` when the flag is enabled"],
    )


# ---------------------------------------------------------------- bounded pool


def run_pool(ctx):
    from pydra.utils.messenger import AuditFlag, FileMessenger
    from props._c13tasks import Raises, WfFail, WfSplitFail
    from pydra.compose import shell

    pool = {
        "python-ok": (lambda: Raises(x=1, good=True), 1, []),
        "python-raises": (lambda: Raises(x=1, good=False), 1, [True]),
        "shell-true": (lambda: shell.define("true")(), 1, []),
        # failing shell jobs: a non-zero exit code, and an executable that cannot be started at all (the audit's own
        # `<executable> --version` probe then meets a missing program too) -- seeded change C36-2
        "shell-false": (lambda: shell.define("false")(), 1, [True]),
        "shell-missing-executable": (lambda: shell.define("vf_c36_no_such_executable")(), 1, [True]),
        "wf-two-nodes-ok": (lambda: WfFail(x=1, good=True), 2, []),
        "wf-first-node-raises": (lambda: WfFail(x=1, good=False), 2, [True, True]),
        "split-python": (lambda: Raises(good=True).split(x=[1, 2]), 3, []),
    }
    dom = ctx.domain(
        "audited-task-pool",
        bound=f"{len(pool)} tasks x audit flags (PROV, ALL) x debug worker, and the multi-job tasks also under the process-pool worker (cf, n_procs=2: every job writes its records from another process); FileMessenger into ONE temp message directory shared by all jobs of the submission",
        rule="messages parsed from the *.jsonld files; start record = has startedAtTime and @type job; end record = has endedAtTime and no wasEndedBy; non-trivial: all",
        exhaustive=True,
    )
    runs = [(flag_name, name, "debug") for flag_name in ("PROV", "ALL") for name in pool]
    runs += [(flag_name, name, "cf") for flag_name in ("PROV", "ALL") for name in ("wf-two-nodes-ok", "wf-first-node-raises", "split-python")]
    for flag_name, name, worker in runs:
        if True:
            mk, n_jobs, _ = pool[name]
            tmp = Path(tempfile.mkdtemp(prefix="vf_c36_"))
            cwd = os.getcwd()
            try:
                mdir = tmp / "messages"
                err = None
                try:
                    mk()(cache_root=tmp / "cache", audit_flags=getattr(AuditFlag, flag_name), messengers=FileMessenger(), messenger_args={"message_dir": str(mdir)}, worker=worker, **({"n_procs": 2} if worker == "cf" else {}))
                except Exception as e:  # noqa
                    err = e
                msgs, unreadable = [], []
                for f in sorted(mdir.glob("*.jsonld")) if mdir.exists() else []:
                    try:
                        msgs.append(json.load(open(f)))
                    except ValueError as e:
                        unreadable.append(f"{f.name}: {str(e)[:80]}")
                starts = [m for m in msgs if m.get("@type") == "job" and "startedAtTime" in m]
                ends = [m for m in msgs if "endedAtTime" in m and "wasEndedBy" not in m]
                case = {"task": name, "flags": flag_name, "worker": worker, "unreadable_record_files": unreadable[:3], "starts": [m["@id"] for m in starts], "ends": [(m["@id"], m.get("errored")) for m in ends], "raised": type(err).__name__ if err else None, "expected_jobs": n_jobs}
                dom.case((name, flag_name, worker), sample=case)
                probs = pair_problems(starts, ends, n_jobs, failing=name in FAILING)
                if unreadable:
                    probs.append("record-file-is-not-one-json-document")
                for p in probs:
                    klass = f"{p}:{'workflow-in-process' if name.startswith('wf') or name.startswith('split') else 'single-task'}"
                    ctx.fail(klass, f"{p} for task {name} with audit flags {flag_name} under the {worker} worker: starts={case['starts']} ends={case['ends']}", case, domain=dom)
            finally:
                os.chdir(cwd)
                shutil.rmtree(tmp, ignore_errors=True)


FAILING = ("python-raises", "wf-first-node-raises", "shell-false", "shell-missing-executable")


def pair_problems(starts, ends, n_jobs, failing):
    probs = []
    sid = [m["@id"] for m in starts]
    eid = [m["@id"] for m in ends]
    if len(set(sid)) != len(sid):
        probs.append("duplicate-start-record")
    if len(sid) != n_jobs:
        probs.append("start-record-count-differs-from-executed-jobs")
    for s in set(sid):
        k = eid.count(s)
        if k == 0:
            probs.append("start-without-end-record")
        elif k > 1:
            probs.append("several-end-records-for-one-activity")
    for e in set(eid):
        if e not in sid:
            probs.append("end-record-without-start")
    if failing and not any(m.get("errored") is True for m in ends):
        probs.append("failed-job-end-record-not-errored")
    if not failing and any(m.get("errored") is True for m in ends):
        probs.append("successful-job-end-record-errored")
    return sorted(set(probs))


def run(ctx):
    ctx.level = "other"
    ctx.explanation = (
        "D: pairing of start_audit/finalize_audit on every path of Job.run/run_async (audit machinery and task hooks assumed "
        "not to raise) and record contents of Audit.start_audit/finalize_audit; the frame condition that the activity id "
        "is not modified between start and end is an assumption of D and is decided only by the bounded pool run (B): "
        "8 tasks (incl. two failing shell jobs) x PROV/ALL through a FileMessenger, records parsed and paired."
    )
    for qual in ("Job.run", "Job.run_async"):
        res = verify(ctx, JR.contract(qual, ROLES, noraise=NORAISE))
        summarize(ctx, res, replay=H.replay_path)
    for qual in ("Audit.start_audit", "Audit.finalize_audit"):
        res = verify(ctx, audit_contract(qual))
        summarize(ctx, res)
    ctx.assume("C36/D: task._run and user hooks do not modify this job's Audit object (aid) between start_audit and finalize_audit; decided only by the bounded run")
    run_pool(ctx)


def replay(rec):
    print("replay C36: re-running the audited pool")
    from vf.core import Ctx

    c = Ctx("C36")
    run_pool(c)
    return 1 if c.violations else 0
