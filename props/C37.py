"""C37 — graph operations keep a valid topological order.

D: DiGraph._sorting (one sorting round) against its full contract with loop invariants: the
   round releases exactly the nodes without an unsorted predecessor, keeps all others, loses
   and invents nothing.  (DiGraph.sorting's termination: see C18.)
B: every history of add-node / add-edge / remove-node / remove-connections operations that
   keeps the graph acyclic, explored breadth-first over distinct abstract graph states, with
   `sorted_nodes` checked after every operation (each remaining node exactly once, every node
   after all of its predecessors).
"""
import itertools

from contracts import graph as G
from pyvc.verify import verify, summarize


class N:
    def __init__(self, name):
        self.name = name

    def __repr__(self):
        return self.name


def apply_history(hist):
    """replays a history on a fresh real DiGraph; returns (graph, nodes-by-name, outcomes)"""
    from pydra.engine.graph import DiGraph

    g = DiGraph(name="g")
    byname = {}
    outcomes = []
    for op in hist:
        kind = op[0]
        try:
            if kind == "add_node":
                n = N(op[1])
                byname[op[1]] = n
                g.add_nodes(n)
            elif kind == "add_edge":
                g.add_edges((byname[op[1]], byname[op[2]]))
            elif kind == "sort":
                g.sorting()
            elif kind == "remove_node":
                g.remove_nodes(byname[op[1]])
            elif kind == "remove_conn":
                g.remove_nodes_connections(byname[op[1]])
            outcomes.append("ok")
        except Exception as e:  # noqa
            outcomes.append(f"raised:{type(e).__name__}")
    return g, byname, outcomes


def model_after(hist, outcomes):
    """abstract view (N, E, W) from the history, written from the operation semantics:
    nodes marked for removal leave N and enter W; removing connections drops W-node edges"""
    Nn, E, W = [], set(), []
    ever_sorted = False
    for op, oc in zip(hist, outcomes):
        k = op[0]
        if k == "add_node":
            Nn.append(op[1])
        elif k == "add_edge" and oc == "ok":
            E.add((op[1], op[2]))
        elif k == "sort":
            ever_sorted = True
        elif k == "remove_node":
            if op[1] in Nn:
                Nn.remove(op[1])
                W.append(op[1])
        elif k == "remove_conn" and oc == "ok":
            E = {(a, b) for a, b in E if a != op[1]}
            if op[1] in W:
                W.remove(op[1])
    return Nn, E, W, ever_sorted


def acyclic_with(E, a, b):
    # adding a->b keeps the graph acyclic iff b does not reach a
    adj = {}
    for x, y in E:
        adj.setdefault(x, []).append(y)
    stack, seen = [b], set()
    while stack:
        u = stack.pop()
        if u == a:
            return False
        if u in seen:
            continue
        seen.add(u)
        stack.extend(adj.get(u, []))
    return True


def check_order(g, Nn, E, W):
    """the property: sorted list has each remaining node exactly once, after all its predecessors"""
    try:
        order = [nd.name for nd in g.sorted_nodes]
    except Exception as e:  # noqa
        return f"sorted_nodes raised {type(e).__name__}: {e}"
    if sorted(order) != sorted(Nn):
        return f"sorted_nodes {order} is not a permutation of the remaining nodes {Nn}"
    pos = {n: i for i, n in enumerate(order)}
    for a, b in E:
        if a in pos and b in pos and pos[a] > pos[b]:
            return f"edge {a}->{b} but {b} precedes {a} in {order}"
    return None


def successors_ops(Nn, E, W, names, max_nodes):
    ops = []
    used = set(Nn) | set(W)
    fresh = [n for n in names if n not in used]
    if fresh and len(used) < max_nodes:
        ops.append(("add_node", fresh[0]))
    for a, b in itertools.permutations(Nn, 2):
        if (a, b) not in E and acyclic_with(E, a, b):
            ops.append(("add_edge", a, b))
    ops.append(("sort",))
    preds = {n: [a for a, b in E if b == n and a in Nn or (b == n and a in W)] for n in Nn}
    for n in Nn:
        if not [a for a, b in E if b == n]:  # ready: no predecessor registered
            ops.append(("remove_node", n))
    for w in W:
        ops.append(("remove_conn", w))
    return ops


def bounded(ctx):
    max_nodes = ctx.pick(4, 5)
    depth = ctx.pick(10, 12)
    names = ["a", "b", "c", "d", "e"]
    dom = ctx.domain(
        "graph-histories",
        bound=f"breadth-first over all histories of <= {depth} operations (add-node, add-edge keeping acyclic, sort, remove ready node, remove connections) on <= {max_nodes} nodes; one representative history per distinct abstract state (nodes order, edges, wip, sorted list)",
        rule="states distinct by (N order, E, W, current sorted list or None); non-trivial = at least one edge",
        exhaustive=True,
    )
    frontier = [()]
    seen = set()
    for level in range(depth + 1):
        nxt = []
        for hist in frontier:
            g, byname, outcomes = apply_history(hist)
            Nn, E, W, ever = model_after(hist, outcomes)
            sorted_now = None if g._sorted_nodes is None else tuple(nd.name for nd in g._sorted_nodes)
            key = (tuple(Nn), frozenset(E), tuple(W), sorted_now)
            if key in seen:
                continue
            seen.add(key)
            dom.case(key, nontrivial=bool(E), sample={"history": [list(o) for o in hist], "outcomes": outcomes, "sorted": sorted_now})
            # allowed exceptional outcomes (taken from the code's documented behaviour): remove_nodes on a graph
            # that was never sorted; anything else raising is reported
            bad_raise = None
            for op, oc in zip(hist, outcomes):
                if oc != "ok" and not (op[0] == "remove_node" and oc == "raised:ValueError"):
                    bad_raise = (op, oc)
            case = {"history": [list(o) for o in hist], "outcomes": outcomes}
            if bad_raise and hist and outcomes[-1] != "ok":
                ctx.fail(f"operation-raises:{bad_raise[0][0]}:{bad_raise[1]}", f"{bad_raise[0]} {bad_raise[1]} after history {hist[:-1]}", case, domain=dom)
                continue
            err = check_order(g, Nn, E, W)
            if err:
                ctx.fail("invalid-topological-order", f"{err} after history {list(hist)}", case, domain=dom)
                continue
            if level < depth:
                for op in successors_ops(Nn, E, W, names, max_nodes):
                    nxt.append(hist + (op,))
        frontier = nxt


def run(ctx):
    ctx.level = "other"
    ctx.explanation = (
        "D: one sorting round (DiGraph._sorting) is verified against its full contract with loop invariants (released nodes have no "
        "unsorted predecessor, kept nodes have one, nothing lost or invented, sizes add up); the composition over rounds and the "
        "add/remove operations is checked bounded: breadth-first over all operation histories up to the stated depth on real "
        "DiGraph objects, sorted_nodes validated after every operation."
    )
    res = verify(ctx, G.sorting_round_contract())
    summarize(ctx, res)
    bounded(ctx)


def replay(rec):
    hist = [tuple(o) for o in rec["case"]["history"]]
    g, byname, outcomes = apply_history(hist)
    Nn, E, W, _ = model_after(hist, outcomes)
    err = check_order(g, Nn, E, W)
    print(f"replay C37: history={hist} outcomes={outcomes} -> {err}")
    if err:
        print("VIOLATION property=C37 replay=(replayed)")
        return 1
    return 0
