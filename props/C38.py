"""C38 — mount lookup compares whole path components.

D: MountIndentifier.get_mount under contract (strings in z3/cvc5, first-match semantics of
   next(<genexpr>), symbolic mount table of unbounded length).
B: exhaustive small-scope run of parse_mount_table + get_mount + on_cifs/on_same_mount.
"""

import itertools
from pathlib import Path

from pyvc.verify import Contract, verify, summarize, concretize, spec_functions
from pyvc.engine import HList
import spec.paths as SP

FILE = "pydra/utils/mount_identifier.py"


def _setup(E, st):
    tbl = E.materialize(st, E.fresh_kind(("Seq", ("Tup", "Str", "Str")), "table"))
    st.env["table"] = tbl
    st.ghost["table"] = tbl


def _table_model(E, st, node, recv, args, kwargs):
    return [(st, st.ghost["table"], None)]


def contract():
    return Contract(
        file=FILE,
        qualname="MountIndentifier.get_mount",
        params={"cls": "U", "path": "Str"},
        setup=_setup,
        globals_=spec_functions(SP),
        callees={"cls.get_mount_table": {"kind": "model", "model": _table_model}},
        requires=[
            ("path-absolute", "path.startswith('/')"),
            # shape of a parsed mount table: absolute mount points, no trailing slash except the root,
            # sorted longest mount point first (parse_mount_table's postcondition, checked in B)
            ("table-absolute", "forall(lambda j: table[j][0].startswith('/'), 0, len(table))"),
            ("table-normalised", "forall(lambda j: table[j][0] == '/' or not table[j][0].endswith('/'), 0, len(table))"),
            ("table-sorted", "forall(lambda a: forall(lambda b: implies(a < b, len(table[a][0]) >= len(table[b][0])), 0, len(table)), 0, len(table))"),
        ],
        ensures=[
            (
                "result-is-component-prefix-or-default",
                "property:C38",
                "exists(lambda j: result[0] == Path(table[j][0]) and result[1] == table[j][1] and comp_prefix(table[j][0], path), 0, len(table))"
                " or (result[0] == Path('/') and result[1] == 'ext4' and not exists(lambda j: comp_prefix(table[j][0], path), 0, len(table)))",
            ),
            (
                "result-is-longest-component-prefix",
                "property:C38",
                "forall(lambda j: implies(comp_prefix(table[j][0], path), len(table[j][0]) <= len(str(unpath(result[0])))), 0, len(table))",
            ),
        ],
        allow_raise=False,
        trusted=["str(path) of an os.PathLike equals its string rendering (path is modelled as Str)"],
    )


def ref_mount(table, path):
    best = None
    for p, t in table:
        if SP.comp_prefix(p, path):
            if best is None or len(p) > len(best[0]):
                best = (p, t)
    return (Path(best[0]), best[1]) if best else (Path("/"), "ext4")


def native_case(table, path):
    from pydra.utils.mount_identifier import MountIndentifier as MI

    with MI.patch_table(table):
        got = MI.get_mount(path)
    exp = ref_mount(table, path)
    return got, exp


def valid_table(table):
    return all(p.startswith("/") and (p == "/" or not p.endswith("/")) for p, _ in table) and all(
        len(a[0]) >= len(b[0]) for a, b in zip(table, table[1:])
    )


def run(ctx):
    ctx.level = "proof"
    ctx.explanation = (
        "get_mount is verified deductively against the property's postcondition for every mount table "
        "(unbounded length) and every path; the bounded run additionally executes parse_mount_table + "
        "get_mount natively over an exhaustive small scope (cross-check, not counted as proof)"
    )
    c = contract()
    res = verify(ctx, c)

    def replay(rec):
        m = rec.get("model")
        ob = rec.get("ob")
        if m is None:
            return None, False
        st = res.paths[0][0]
        table = concretize(m, st.env["table"], st)
        path = concretize(m, st.env["path"], st)
        table = [tuple(x) for x in table]
        if not valid_table(table) or not path.startswith("/"):
            return {"table": table, "path": path, "note": "model outside requires"}, False
        got, exp = native_case(table, path)
        return {"table": table, "path": path, "got": [str(got[0]), got[1]], "expected": [str(exp[0]), exp[1]]}, got != exp

    summarize(ctx, res, replay=replay)
    bounded(ctx)
    bounded_special(ctx)


def bounded(ctx):
    from pydra.utils.mount_identifier import MountIndentifier as MI

    comps = ["a", "ab", "b"]
    depth = ctx.pick(2, 2)
    mpts = ["/"] + ["/" + "/".join(c) for d in range(1, depth + 1) for c in itertools.product(comps, repeat=d)]
    paths = ["/" + "/".join(c) for d in range(1, 4) for c in itertools.product(comps + ["abc"], repeat=d)]
    dom = ctx.domain(
        "mount-tables",
        bound=f"mount points over components {comps} depth<={depth} plus '/', tables of <= {ctx.pick(2, 3)} mounts x fstype in (cifs, ext4), {len(paths)} paths of depth <= 3",
        rule="mount output rendered as `dev on <mp> type <fs> (rw)` lines, parsed by the real parse_mount_table; non-trivial = table non-empty after parsing",
        exhaustive=True,
    )
    k = ctx.pick(2, 3)
    for n in range(0, k + 1):
        for mp in itertools.combinations(mpts, n):
            for fs in itertools.product(["cifs", "ext4"], repeat=n):
                out = "\n".join(f"dev{i} on {m} type {f} (rw,relatime)" for i, (m, f) in enumerate(zip(mp, fs)))
                table = MI.parse_mount_table(0, out)
                if not valid_table(table):
                    ctx.fail(None, "parse_mount_table output not sorted/normalised", {"mount_output": out, "table": table}, domain=dom)
                    continue
                for path in paths:
                    got, exp = native_case(table, path)
                    dom.case((tuple(table), path), nontrivial=bool(table), sample={"table": table, "path": path, "mount": [str(got[0]), got[1]]})
                    if got != exp:
                        ctx.fail(
                            None,
                            f"get_mount({path!r}) with table {table} returned {got}, longest component prefix is {exp}",
                            {"table": table, "path": path, "got": [str(got[0]), got[1]], "expected": [str(exp[0]), exp[1]]},
                            domain=dom,
                        )
                    with MI.patch_table(table):
                        if MI.on_cifs(path) != (exp[1] == "cifs"):
                            ctx.fail(None, f"on_cifs({path!r}) disagrees with the component-prefix mount", {"table": table, "path": path}, domain=dom)


SPECIAL_NAMES = ["a.b", "a+b", "a*", "[ab]", "a?b", "(a)", "a$", "a|b", "a^", "a{2}", "a\\d"]  # regex / glob metacharacters
PLAIN_NAMES = ["aXb", "aab", "ab", "aaa", "a", "b", "aa", "a1", "ad"]  # what those would match if not taken literally


def bounded_special(ctx):
    """mount point names are compared LITERALLY, component by component: names with regex / glob metacharacters"""
    from pydra.utils.mount_identifier import MountIndentifier as MI

    names = SPECIAL_NAMES + PLAIN_NAMES
    paths = [f"/m/{n}{tail}" for n in names for tail in ("", "/f.txt", "x/f.txt")]
    dom = ctx.domain(
        "mount-point-names-with-metacharacters",
        bound=f"one mount /m/<s> (and /m/<s>/sub together with /m/<s>) for s in {SPECIAL_NAMES}, fstype cifs; paths /m/<n>, /m/<n>/f.txt, /m/<n>x/f.txt for n in the special and the plain names {PLAIN_NAMES}",
        rule="as mount-tables; non-trivial = the path is not below the special mount point (a literal comparison must not match it)",
        exhaustive=True,
    )
    for sname in SPECIAL_NAMES:
        for mps in ([f"/m/{sname}"], [f"/m/{sname}/sub", f"/m/{sname}"]):
            out = "\n".join(f"dev{i} on {m} type cifs (rw,relatime)" for i, m in enumerate(mps))
            table = MI.parse_mount_table(0, out)
            if not valid_table(table) or sorted(p for p, _ in table) != sorted(mps):
                ctx.fail(None, "parse_mount_table does not return the mount points as written", {"mount_output": out, "table": table}, domain=dom)
                continue
            for path in paths + [m + "/f.txt" for m in mps]:
                got, exp = native_case(table, path)
                dom.case((tuple(table), path), nontrivial=exp[1] != "cifs", sample={"table": table, "path": path, "mount": [str(got[0]), got[1]]})
                if got != exp:
                    ctx.fail(None, f"get_mount({path!r}) with table {table} returned {got}, longest component prefix is {exp}", {"table": table, "path": path, "got": [str(got[0]), got[1]], "expected": [str(exp[0]), exp[1]]}, domain=dom)


def replay(rec):
    case = rec["case"]
    table = [tuple(x) for x in case["table"]]
    got, exp = native_case(table, case["path"])
    print(f"replay C38: table={table} path={case['path']!r} got={got} expected={exp}")
    if got != exp:
        print(f"VIOLATION property=C38 replay={rec.get('_path', '')}")
        return 1
    return 0
