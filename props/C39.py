"""C39 — Lmod environments add module settings to the caller's environment.

B: a fake `$MODULESHOME/libexec/lmod` (shell script in a temp dir) prints, for `python load m1 m2 ...`,
   the generated Python assignments of the requested modules; the harness process's os.environ is
   replaced by a generated caller environment; a real `Job.run()` of a shell task that prints its own
   environment (`/bin/cat /proc/self/environ`, `/usr/bin/env -0`) is executed through lmod.Environment
   and through native.Environment.  Observed: the argv handed to the process launcher (recorded by a
   pass-through wrapper of environments.base.execute) and the environment the real child process saw
   ("real" domains).  Process creation is the dominant cost, so the large enumerations run in "recorded"
   mode: the lmod executable is simulated in-process (a stand-in for subprocess.Popen inside
   pydra.environments.lmod that implements the same protocol) and the child's environment is taken from
   the `env=` argument handed to the launcher (absent/None = the caller's os.environ, per subprocess).
"""

from __future__ import annotations

import itertools
import os
import shutil
import tempfile
from pathlib import Path

import spec.envs as SE

PID = "C39"

STYLES = ("dq;", "dq", "sq", "mixed", "spaces")
VALUES = {
    "simple": "v1",
    "spaces": "two words",
    "empty": "",
    "equals": "k=v:w",
    "dollar": "$HOME/x",
    "prepend": None,  # "/opt/mod/bin:" + caller's PATH  (prepend_path)
    "squote": "it's",
    "dquote": 'say "hi"',
    "backslash": "a\\b",
}
QUOTEY = ("squote", "dquote", "backslash")
CALLER_VARS = {
    "PATH": "/usr/local/bin:/usr/bin:/bin",
    "HOME": "/home/caller",
    "KEEP": "untouched",
    "EMPTY": "",
    "SPECIAL": "a b\"c'd=e$f",
    "FOO": "caller-foo",
}
QUICK_ENVS = ((), ("PATH", "HOME"), ("PATH", "HOME", "KEEP", "EMPTY", "SPECIAL"), ("PATH", "FOO"), tuple(CALLER_VARS))
SHAPES = {"cat": ["/bin/cat", "/proc/self/environ"], "env": ["/usr/bin/env", "-0"]}


def _tmpbase():
    return "/dev/shm" if os.path.isdir("/dev/shm") and os.access("/dev/shm", os.W_OK) else None


class _HarnessEnv:
    """process-wide settings for the harness: pydra's persistent file-hash cache in a temp dir (not
    ~/.cache), no etelemetry network request from Submitter.__init__, pydra's error log silenced"""

    def __enter__(self):
        import logging

        self.hash_cache = tempfile.mkdtemp(prefix="vf_hashes_", dir=_tmpbase())
        self.old = {k: os.environ.get(k) for k in ("PYDRA_HASH_CACHE", "NO_ET")}
        os.environ["PYDRA_HASH_CACHE"] = self.hash_cache
        os.environ["NO_ET"] = "1"
        self.logger = logging.getLogger("pydra")
        self.level = self.logger.level
        self.logger.setLevel(logging.CRITICAL + 1)
        try:  # a SIGTERM must still run the `finally` blocks that remove the temp dirs
            import signal

            self.sigterm = signal.signal(signal.SIGTERM, lambda *_: (_ for _ in ()).throw(SystemExit(143)))
        except ValueError:  # not in the main thread
            self.sigterm = None
        return self

    def __exit__(self, *exc):
        self.logger.setLevel(self.level)
        if self.sigterm is not None:
            import signal

            signal.signal(signal.SIGTERM, self.sigterm)
        shutil.rmtree(self.hash_cache, ignore_errors=True)
        for k, v in self.old.items():
            if v is None:
                os.environ.pop(k, None)
            else:
                os.environ[k] = v
        return False


# ------------------------------------------------------------------------------ case space


def cases_single(ctx):
    names = ("FOO", "NEWVAR", "BAR", "PATH") if ctx.thorough else ("FOO", "NEWVAR")
    envs = [c for n in range(len(CALLER_VARS) + 1) for c in itertools.combinations(CALLER_VARS, n)] if ctx.thorough else QUICK_ENVS
    for caller in envs:
        for name in names:
            for vk in VALUES:
                for style in STYLES:
                    yield {"caller": list(caller), "modules": [[[name, vk, style]]], "shape": "cat"}
        if not ctx.thorough:
            for style in STYLES:
                yield {"caller": list(caller), "modules": [[["PATH", "prepend", style]]], "shape": "cat"}


def cases_sequences(ctx):
    envs = QUICK_ENVS if ctx.thorough else (QUICK_ENVS[1], QUICK_ENVS[4])
    atoms = [(n, v) for n in ("FOO", "PATH", "NEWVAR") for v in ("simple", "spaces", "prepend")]
    for caller in envs:
        for a in atoms:
            for b in atoms:
                for split in (False, True):
                    asg = [[a[0], a[1], "dq;"], [b[0], b[1], "dq;"]]
                    mods = [[asg[0]], [asg[1]]] if split else [asg]
                    yield {"caller": list(caller), "modules": mods, "shape": "env"}


def cases_real(ctx):
    """the cases run with real processes (fake lmod script + real child)"""
    for caller in QUICK_ENVS:
        for name in ("FOO", "NEWVAR") if ctx.thorough else ("FOO",):
            for vk in VALUES:
                for style in STYLES if ctx.thorough else ("dq;",):
                    yield {"caller": list(caller), "modules": [[[name, vk, style]]], "shape": "cat"}
        for style in STYLES:
            yield {"caller": list(caller), "modules": [[["NEWVAR", "simple", style]]], "shape": "env"}
        yield {"caller": list(caller), "modules": [[["PATH", "prepend", "dq;"]]], "shape": "env"}
    if ctx.thorough:
        yield from (c for c in cases_sequences(ctx) if tuple(c["caller"]) == QUICK_ENVS[4])
    else:
        for a, b in ((("FOO", "simple"), ("FOO", "spaces")), (("PATH", "prepend"), ("PATH", "prepend")), (("NEWVAR", "simple"), ("FOO", "simple"))):
            for split in (False, True):
                asg = [[a[0], a[1], "dq;"], [b[0], b[1], "dq;"]]
                yield {"caller": list(QUICK_ENVS[4]), "modules": [[asg[0]], [asg[1]]] if split else [asg], "shape": "env"}
    yield from cases_unset(ctx)


def cases_unset(ctx):
    for caller in (QUICK_ENVS[1], QUICK_ENVS[4]):
        for name in ("FOO", "NEWVAR"):
            yield {"caller": list(caller), "modules": [[["BAR", "simple", "dq;"], [name, "UNSET", "dq;"]]], "shape": "cat"}


# ------------------------------------------------------------------------------ native harness


class Harness:
    """fake Lmod installation + recorder; one per process, reused over cases"""

    def __init__(self):
        self.tmp = Path(tempfile.mkdtemp(prefix="vf_c39_", dir=_tmpbase()))
        self.home = self.tmp / "moduleshome"
        (self.home / "libexec").mkdir(parents=True)
        self.mods = self.tmp / "mods"
        self.calls_log = self.tmp / "lmod_calls"
        script = self.home / "libexec" / "lmod"
        # what the real executable does for `lmod python load <modules>`: print Python source that
        # assigns os.environ for everything the modules change, then the status line
        script.write_text(
            "#!/bin/sh\n"
            f"printf '%s\\n' \"$*\" >> '{self.calls_log}'\n"
            '[ "$1" = python ] || { echo "_mlstatus = False"; exit 0; }\n'
            '[ "$2" = load ] || { echo "_mlstatus = False"; exit 0; }\n'
            "shift; shift\n"
            f"for m in \"$@\"; do [ -r '{self.mods}'/\"$m\".py ] || {{ echo '_mlstatus = False'; exit 0; }}\n"
            f"  while IFS= read -r line; do printf '%s\\n' \"$line\"; done < '{self.mods}'/\"$m\".py\n"
            "done\n"
            "echo '_mlstatus = True'\n"
        )
        script.chmod(0o755)
        self.cache_root = self.tmp / "cache"
        self.cache_root.mkdir()
        self._tasks = {}
        self._native = {}

    def close(self):
        shutil.rmtree(self.tmp, ignore_errors=True)

    def task(self, shape):
        from pydra.compose import shell

        if shape not in self._tasks:
            argv = SHAPES[shape]
            Task = shell.define(argv[0], inputs=[shell.arg(name="a", type=str, argstr="", position=1, help="")])
            self._tasks[shape] = Task(a=argv[1])
        return self._tasks[shape]

    def _popen_standin(self):
        """in-process stand-in for the lmod executable (recorded mode): same protocol as the script"""
        import subprocess as real_sp

        h = self

        class P:
            def __init__(self, argv, **kw):
                exe = str(Path(os.environ.get("MODULESHOME", "/nonexistent")) / "libexec" / "lmod")
                if argv[0] != exe or argv[0] != str(h.home / "libexec" / "lmod"):
                    raise FileNotFoundError(2, "No such file or directory", argv[0])
                with open(h.calls_log, "a") as f:
                    f.write(" ".join(argv[1:]) + "\n")
                out = ""
                ok = list(argv[1:3]) == ["python", "load"]
                for m in argv[3:]:
                    f = h.mods / f"{m}.py"
                    if not f.exists():
                        ok = False
                        break
                    out += f.read_text()
                self.out = (out + "_mlstatus = True\n") if ok else "_mlstatus = False\n"

            def communicate(self):
                return self.out.encode(), b""

        import types

        ns = types.SimpleNamespace(**{k: getattr(real_sp, k) for k in ("PIPE", "CalledProcessError", "run", "STDOUT", "DEVNULL")})
        ns.Popen = P
        return ns

    def run_case(self, case, mode="real"):
        import pydra.environments.base as base
        import pydra.environments.lmod as lmod_mod
        from pydra.engine.job import Job
        from pydra.engine.submitter import Submitter
        from pydra.environments import lmod, native

        caller = {"MODULESHOME": str(self.home)}
        for k in case["caller"]:
            caller[k] = CALLER_VARS[k]
        # module files and the assignments they mean
        shutil.rmtree(self.mods, ignore_errors=True)
        assignments, modnames, src_all = [], [], ""
        for i, mod in enumerate(case["modules"]):
            name = f"mod{i}/1.{i}"
            modnames.append(name)
            src = ""
            for var, vk, style in mod:
                if vk == "UNSET":
                    value = None
                elif vk == "prepend":
                    cur = dict(SE.env_after_modules(caller, assignments)[0]).get("PATH")
                    value = "/opt/mod/bin" + (":" + cur if cur else "")
                else:
                    value = VALUES[vk]
                assignments.append((var, value))
                src += SE.lmod_python_line(var, value, style)
            f = self.mods / f"{name}.py"
            f.parent.mkdir(parents=True, exist_ok=True)
            f.write_text(src)
            src_all += src
        if SE.python_assignments(src_all) != assignments:
            raise RuntimeError(f"harness: generated lmod output {src_all!r} does not mean {assignments}")
        self.calls_log.write_text("")
        calls = []
        real_execute = base.execute
        real_sp = lmod_mod.sp

        def recorder(cmd, strip=False, **kw):
            env = kw.get("env")
            calls.append(([str(c) for c in cmd], dict(os.environ) if env is None else dict(env)))
            if mode == "real":
                return real_execute(cmd, strip=strip, **kw)
            return (0, "", "")

        task = self.task(case["shape"])
        sub = Submitter(cache_root=self.cache_root, worker="debug")
        saved = dict(os.environ)
        cwd0 = os.getcwd()
        out = {"mode": mode, "case": case, "lmod_output": src_all, "assignments": [list(a) for a in assignments]}
        base.execute = recorder
        if mode == "recorded":
            lmod_mod.sp = self._popen_standin()
        try:
            os.environ.clear()
            os.environ.update(caller)
            res = {}
            runs = [("lmod", lmod.Environment(modules=modnames))]
            nkey = (tuple(case["caller"]), case["shape"], mode)
            if nkey not in self._native:
                runs.insert(0, ("native", native.Environment()))
            for label, env in runs:
                del calls[:]
                exc = None
                stdout = None
                try:
                    r = Job(task=task, submitter=sub, name="vf", environment=env).run(rerun=True)
                    stdout = r.outputs.stdout
                except Exception as e:  # noqa
                    exc = f"{type(e).__name__}: {e}"[:300]
                child = None
                if exc is None and len(calls) == 1:
                    child = _parse_env(stdout) if mode == "real" else calls[0][1]
                res[label] = {"argv": [c[0] for c in calls], "raised": exc, "env": child}
        finally:
            base.execute = real_execute
            lmod_mod.sp = real_sp
            os.environ.clear()
            os.environ.update(saved)
            os.chdir(cwd0)
        out["lmod_invocations"] = self.calls_log.read_text().splitlines()
        probs = []
        if "native" in res:
            nat = res["native"]
            if nat["raised"] or len(nat["argv"]) != 1 or SE.env_problems(nat["env"], caller, []):
                raise RuntimeError(f"harness: native reference run is off: {nat}")
            self._native[nkey] = nat
        nat, lm = self._native[nkey], res["lmod"]
        if lm["raised"]:
            probs.append(("crash", lm["raised"]))
        elif lm["env"] is None:
            probs.append(("launcher-calls", f"{len(lm['argv'])} calls of the process launcher"))
        else:
            if lm["argv"] != nat["argv"]:
                probs.append(("argv-differs", f"{lm['argv']} vs native {nat['argv']}"))
            probs += SE.env_problems(lm["env"], caller, assignments)
        out["native_argv"] = nat["argv"][0]
        out["lmod_argv"] = lm["argv"]
        out["child_env"] = _short_env(lm["env"], self.tmp)
        out["caller_env"] = _short_env(caller, self.tmp)
        out["problems"] = [list(p) for p in probs]
        return out


def _parse_env(stdout):
    return dict(kv.split("=", 1) for kv in stdout.split("\0") if kv)


def _short_env(env, tmp):
    return None if env is None else {k: v.replace(str(tmp), "<T>") for k, v in env.items()}


def classes(out):
    """{finding class or None: [problems]} — class predicate per problem (narrow: problem kind + value shape)"""
    asg = {}
    for var, value in out["assignments"]:
        asg[var] = value
    by = {}
    untouched = {n for n in out["caller_env"] if n not in asg}
    dropped = {what for kind, what in out["problems"] if kind == "caller-variable-dropped"}
    for kind, what in out["problems"]:
        if kind == "caller-variable-dropped":
            # the known defect drops the WHOLE caller environment; losing some variables is something else
            k = "caller-environment-dropped" if dropped == untouched else None
        elif kind in ("module-variable-wrong", "module-variable-missing") and asg.get(what) is not None and any(c in asg[what] for c in "'\"\\"):
            k = "module-value-with-quote-or-backslash"
        else:
            k = None
        by.setdefault(k, []).append([kind, what])
    return by


def _drive(ctx, dom, h, cases, mode):
    for case in cases:
        out = h.run_case(case, mode)
        touched = {a[0] for a in out["assignments"]}
        nontrivial = bool(out["assignments"]) and any(k not in touched for k in out["caller_env"])
        dom.case(repr((mode, case)), nontrivial=nontrivial, sample=out)
        for n, (klass, probs) in enumerate(classes(out).items()):
            what = f"child environment / argv under lmod.Environment: {probs[:4]} (caller variables {sorted(out['caller_env'])}, module output {out['lmod_output']!r})"
            ctx.fail(klass, what[:500], out, domain=dom if n == 0 else None)  # a case counts once as failed


def deductive(ctx):
    """engine D: Lmod.execute — the environment mapping handed to the launcher is a copy of os.environ
    made in this call, only the module assignments are stored into it, and the argv is the native one"""
    from contracts import lmod as L
    from pyvc.verify import verify, summarize

    res = verify(ctx, L.contract())
    summarize(ctx, res, classify=lambda rec, case: "caller-environment-dropped" if rec["clause"] == "exit.child-environment-starts-from-the-callers" else None)


def run(ctx):
    deductive(ctx)
    _run_bounded(ctx)


def _run_bounded(ctx):
    ctx.level = "other"
    ctx.explanation = (
        "Real Job.run() of a shell task that prints its own environment, through lmod.Environment with a simulated "
        "$MODULESHOME/libexec/lmod executable and a generated caller environment installed as os.environ: the argv given "
        "to the process launcher must equal the argv of the same task under native.Environment, and the environment the "
        "real child process saw must equal the caller's environment overridden by the modules' assignments (in order; "
        "untouched names unchanged; a name unset by a module is left open).  The meaning of the generated lmod output is "
        "fixed by executing it as Python (spec.envs.python_assignments).  The deductive part planned in DESIGN (D) is not "
        "built here: this check is bounded only."
    )
    ctx.trust(
        "recorded mode: subprocess runs the child with exactly the mapping passed as env=, or with os.environ when env is None (Python subprocess contract)",
        "the fake lmod script stands for the real `lmod python load` protocol (prints os.environ[...] = ... lines and _mlstatus)",
        "/proc/self/environ and `env -0` report the environment of the executed process exactly",
    )
    with _HarnessEnv():
        _run(ctx)


def _run(ctx):
    h = Harness()
    try:
        d0 = ctx.domain(
            "real-processes",
            bound=(
                f"real fake-lmod script and real child process: {len(QUICK_ENVS)} caller environments (MODULESHOME + {QUICK_ENVS}) x "
                + (f"(FOO, NEWVAR) x value kind {tuple(VALUES)} x spelling {STYLES}" if ctx.thorough else f"FOO x value kind {tuple(VALUES)} in real-Lmod spelling")
                + f" + NEWVAR x spelling {STYLES} + PATH prepend (task `env -0`); "
                + ("all two-assignment cases of the largest caller environment" if ctx.thorough else "6 two-assignment cases (override order, double prepend, one/two modules)")
                + "; the 4 unset cases"
            ),
            rule="one real Job.run under lmod per case (fake lmod process + child process), native reference once per caller environment; non-trivial = a module sets a variable and the caller has a variable no module touches",
            exhaustive=True,
        )
        _drive(ctx, d0, h, cases_real(ctx), "real")
        d1 = ctx.domain(
            "single-assignment(recorded)",
            bound=(
                f"recorded mode: caller environment = MODULESHOME + {'every subset' if ctx.thorough else str(len(QUICK_ENVS)) + ' subsets ' + str(QUICK_ENVS)} of {sorted(CALLER_VARS)} "
                f"x one module setting one variable: name in {'(FOO, NEWVAR, BAR, PATH)' if ctx.thorough else '(FOO, NEWVAR) + PATH prepend'} (FOO/PATH collide with caller variables) "
                f"x value kind {tuple(VALUES)} x spelling {STYLES}"
            ),
            rule="one Job.run under lmod per case with the lmod executable simulated in-process and the env= argument of the launcher as the child's environment; non-triviality as above",
            exhaustive=True,
        )
        _drive(ctx, d1, h, cases_single(ctx), "recorded")
        d2 = ctx.domain(
            "two-assignments(recorded)",
            bound=f"recorded mode: {'5' if ctx.thorough else '2'} caller environments x ordered pairs of (FOO, PATH, NEWVAR) x (simple, spaces, prepend) in real-Lmod spelling, in one module or split over two modules loaded in order",
            rule="as single-assignment(recorded)",
            exhaustive=True,
        )
        _drive(ctx, d2, h, cases_sequences(ctx), "recorded")
        d3 = ctx.domain(
            "module-unsets-variable(recorded)",
            bound="recorded mode: 2 caller environments x a module that sets BAR and unsets FOO (present in one caller env) or NEWVAR (absent)",
            rule="the unset name is left open by the property: only the other names are compared",
            exhaustive=True,
        )
        _drive(ctx, d3, h, cases_unset(ctx), "recorded")
    finally:
        h.close()


def replay(rec):
    case = rec["case"]["case"]
    with _HarnessEnv():
        h = Harness()
        try:
            out = h.run_case(case, rec["case"].get("mode", "real"))
        finally:
            h.close()
    print(f"replay {PID}: case={case}")
    print(f"  lmod output : {out['lmod_output']!r}")
    print(f"  caller env  : {out['caller_env']}")
    print(f"  child env   : {out['child_env']}")
    print(f"  argv        : lmod {out['lmod_argv']} native {out['native_argv']}")
    print(f"  problems    : {out['problems']}")
    want = rec.get("class")
    still = [k for k in classes(out) if k == want] if out["problems"] else []
    if still:
        print(f"VIOLATION property={PID} replay={rec.get('_path', '')}")
        return 1
    return 0
