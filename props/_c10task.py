import os
import time
from pydra.compose import python


@python.define
def Slow(a: int) -> int:
    p = os.environ.get("VF_C10_LOG")
    if p:
        with open(p, "a") as f:
            f.write(f"pid {os.getpid()}\n")
    time.sleep(float(os.environ.get("VF_C10_SLEEP", "1")))
    return a * 2
