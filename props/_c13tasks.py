"""pool of tasks that fail in different ways (good=False) with a successful variant (good=True)"""
import os
import typing as ty
from pydra.compose import python, shell, workflow


def _log(tag):
    p = os.environ.get("VF_C13_LOG")
    if p:
        with open(p, "a") as f:
            f.write(tag + "\n")


@python.define
def Raises(x: int, good: bool) -> int:
    _log("Raises")
    if not good:
        raise ValueError("boom")
    return x


@python.define(outputs=["a", "b"])
def DictMissing(x: int, good: bool) -> tuple[int, int]:
    _log("DictMissing")
    return {"a": x, "b": x} if good else {"a": x}


@python.define(outputs=["a", "b"])
def TupleShort(x: int, good: bool) -> tuple[int, int]:
    _log("TupleShort")
    return (x, x) if good else (x,)


@python.define(outputs=["a", "b"])
def NoneReturn(x: int, good: bool) -> tuple[int, int]:
    _log("NoneReturn")
    return (x, x) if good else None


@python.define
def SysExit(x: int, good: bool) -> int:
    _log("SysExit")
    if not good:
        import sys

        sys.exit(3)
    return x


@python.define
def Interrupted(x: int, good: bool) -> int:
    _log("Interrupted")
    if not good:
        raise KeyboardInterrupt()
    return x


@python.define
def NeedsFile(p: str) -> int:
    _log("NeedsFile")
    return len(open(p).read())


@workflow.define
def WfFail(x: int, good: bool) -> int:
    n = workflow.add(Raises(x=x, good=good), name="n")
    m = workflow.add(Raises(x=n.out, good=True), name="m")
    return m.out


@workflow.define
def WfSplitFail(x: int, good: bool) -> list[int]:
    n = workflow.add(Raises(good=good).split(x=[x, x + 1]), name="n")
    return n.out


def _shell(good):
    return shell.define("true" if good else "false")()


POOL = {
    "python-raises": lambda good: Raises(x=1, good=good),
    "python-dict-missing-output": lambda good: DictMissing(x=1, good=good),
    "python-tuple-too-short": lambda good: TupleShort(x=1, good=good),
    "workflow-node-raises": lambda good: WfFail(x=1, good=good),
    "workflow-split-node-raises": lambda good: WfSplitFail(x=1, good=good),
    "shell-nonzero-exit": _shell,
    "python-sys-exit": lambda good: SysExit(x=1, good=good),
    "python-keyboard-interrupt": lambda good: Interrupted(x=1, good=good),
}
