"""hand-written workflows for C17 whose split VALUES are produced at run time by an upstream node (filter -> map ->
reduce): a node may get zero jobs only once its producer has finished, i.e. in the middle of the execution loop"""
import typing as ty

from pydra.compose import python, workflow


@python.define
def Select(xs: list[int], above: int) -> list[int]:
    return [x for x in xs if x > above]


@python.define
def Double(x: int) -> int:
    return 2 * x


@python.define
def Total(xs: ty.Any, offset: int) -> int:
    return sum(xs) + offset


@python.define
def Slow(x: int, delay: float) -> int:
    import time

    time.sleep(delay)
    return x + 1


@workflow.define(outputs=["total", "doubled"])
def Pipeline(xs: list[int], above: int) -> tuple[ty.Any, ty.Any]:
    select = workflow.add(Select(xs=xs, above=above), name="select")
    double = workflow.add(Double().split(x=select.out).combine("x"), name="double")
    total = workflow.add(Total(xs=double.out, offset=100), name="total")
    return total.out, double.out


@workflow.define(outputs=["total", "doubled", "aux"])
def PipelineWithBranch(xs: list[int], above: int, delay: float) -> tuple[ty.Any, ty.Any, ty.Any]:
    select = workflow.add(Select(xs=xs, above=above), name="select")
    aux = workflow.add(Slow(x=above, delay=delay), name="aux")
    double = workflow.add(Double().split(x=select.out).combine("x"), name="double")
    total = workflow.add(Total(xs=double.out, offset=100), name="total")
    return total.out, double.out, aux.out


@workflow.define(outputs=["total"])
def TwoStage(xs: list[int], above: int) -> ty.Any:
    select = workflow.add(Select(xs=xs, above=above), name="select")
    double = workflow.add(Double().split(x=select.out).combine("x"), name="double")
    again = workflow.add(Select(xs=double.out, above=above * 2), name="again")
    quad = workflow.add(Double().split(x=again.out).combine("x"), name="quad")
    total = workflow.add(Total(xs=quad.out, offset=1), name="total")
    return total.out


NAMED = {
    "pipeline": (Pipeline, ["total", "doubled"]),
    "pipeline+branch": (PipelineWithBranch, ["total", "doubled", "aux"]),
    "two-stage": (TwoStage, ["total"]),
}


def cases():
    out = []
    for xs, above in (([1, 2, 3], 0), ([1, 2, 3], 2), ([1, 2, 3], 5), ([], 0)):
        out.append({"named": "pipeline", "inputs": {"xs": xs, "above": above}})
        out.append({"named": "two-stage", "inputs": {"xs": xs, "above": above}})
    for xs, above, delay in (([1, 2, 3], 5, 0.0), ([1, 2, 3], 5, 1.5), ([1, 2, 3], 1, 1.5)):
        out.append({"named": "pipeline+branch", "inputs": {"xs": xs, "above": above, "delay": delay}})
    return out
