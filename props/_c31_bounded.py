"""C31 — bounded cross-check (engine B) of requirement / xor / mandatory rules.

Called from props/C31.py as `bounded(ctx)`; `replay(rec)` re-runs one case natively.

For every generated task definition (<= 5 fields of kinds bool / Optional[bool] / Optional[str] /
mandatory str / mandatory bool; requirement sets with and without allowed values; xor groups with
and without None) and every assignment of values drawn from {not provided, None, False, True, "a",
"b", ""}:

     real_task._rule_violations() == []     iff     spec.rules.rules_ok(fields, xor, values)

with the three-valued oracle (a verdict of None accepts both answers), `_check_rules()` raises
exactly when violations are listed, and — on a sample — `Job(...)` construction and
`task(cache_root=...)` report the violation BEFORE anything is executed or written (function body
not called, cache root empty), while rule-satisfying tasks do run.
Tasks are real `python.define` classes (and, for a share of the specs, the same rules on a real
`shell.define` class).
"""

from __future__ import annotations

import itertools
import os
import random
import shutil
import tempfile

import spec.rules as SR
from spec.rules import UNSET

PID = "C31"
NAMES = ["a", "b", "c", "d", "e"]
KINDS_QUICK = ["bool", "optstr", "str!"]
KINDS_ALL = ["bool", "optstr", "str!", "optbool", "bool!"]
CALLS = []


# ------------------------------------------------------------------------------------- task specs


def kind_info(kind):
    """(python type, default or UNSET, mandatory)"""
    if kind == "bool":
        return bool, False, False
    if kind == "optstr":
        return (str | None), None, False
    if kind == "optbool":
        return (bool | None), None, False
    if kind == "str!":
        return str, UNSET, True
    if kind == "bool!":
        return bool, UNSET, True
    raise ValueError(kind)


def value_menu(kind, wants_b, explicit_none):
    if kind in ("bool", "bool!"):
        return [UNSET, False, True]
    if kind == "optbool":
        return [UNSET, False, True] + ([None] if explicit_none else [])
    vals = [UNSET, "a", ""] + (["b"] if wants_b else [])
    if kind == "optstr" and explicit_none:
        vals.append(None)
    return vals


def spec_fields(spec):
    """the oracle's view of a spec"""
    out = []
    for f in spec["fields"]:
        _, default, mand = kind_info(f["kind"])
        out.append(
            {
                "name": f["name"],
                "mandatory": mand,
                "default": default,
                "requires": [[(r, (list(a) if a is not None else None)) for r, a in conj] for conj in f.get("requires", [])],
            }
        )
    return out


def spec_key(spec):
    return repr((tuple((f["name"], f["kind"], repr(f.get("requires", []))) for f in spec["fields"]), repr(spec["xor"])))


def _body_for(n):
    names = NAMES[:n]
    src = f"def body({', '.join(names)}):\n    CALLS.append(1)\n    return 1\n"
    ns = {"CALLS": CALLS}
    exec(src, ns)  # noqa: S102  fixed template, field names only
    return ns["body"]


_BODIES = {}


def build_python(spec):
    from pydra.compose import python

    n = len(spec["fields"])
    body = _BODIES.setdefault(n, _body_for(n))
    inputs = {}
    for f in spec["fields"]:
        tp, default, mand = kind_info(f["kind"])
        kw = {"type": tp}
        if not mand:
            kw["default"] = default
        if f.get("requires"):
            kw["requires"] = [[(r if a is None else (r, list(a))) for r, a in conj] for conj in f["requires"]]
        inputs[f["name"]] = python.arg(**kw)
    return python.define(body, inputs=inputs, outputs={"out": int}, xor=[list(g) for g in spec["xor"]], name="Ruled")


def build_shell(spec):
    from pydra.compose import shell

    inputs = {}
    for f in spec["fields"]:
        tp, default, mand = kind_info(f["kind"])
        kw = {"type": tp, "argstr": f"--{f['name']}"}
        if not mand:
            kw["default"] = default
        if f.get("requires"):
            kw["requires"] = [[(r if a is None else (r, list(a))) for r, a in conj] for conj in f["requires"]]
        inputs[f["name"]] = shell.arg(**kw)
    return shell.define("echo", inputs=inputs, xor=[list(g) for g in spec["xor"]], name="RuledSh")


def requires_menu(field, others, kinds, rich):
    """requirement structures a field can carry, over the other fields"""
    strs = [o for o in others if kinds[o] in ("optstr", "str!")]
    menu = []
    for o in others:
        menu.append([[(o, None)]])
    for o in strs:
        menu.append([[(o, ("a",))]])
        if rich:
            menu.append([[(o, ("a", "b"))]])
    for o1, o2 in itertools.combinations(others, 2):
        menu.append([[(o1, None), (o2, None)]])  # AND
        menu.append([[(o1, None)], [(o2, None)]])  # OR
        if o2 in strs:
            menu.append([[(o1, None), (o2, ("a",))]])
            menu.append([[(o1, None)], [(o2, ("a",))]])
        if rich and o1 in strs:
            menu.append([[(o1, ("b",))], [(o2, None)]])
    return menu


def xor_menu(names):
    menu = [[]]
    for r in range(2, len(names) + 1):
        for sub in itertools.combinations(names, r):
            menu.append([list(sub)])
            menu.append([list(sub) + [None]])
    return menu


def exhaustive_specs(n, kinds_pal, rich):
    """every spec with n fields: kinds from the palette, at most one requirement-bearing field,
    at most one xor group"""
    names = NAMES[:n]
    for kinds_t in itertools.product(kinds_pal, repeat=n):
        kinds = dict(zip(names, kinds_t))
        req_options = [None]
        for f in names:
            others = [o for o in names if o != f]
            for m in requires_menu(f, others, kinds, rich):
                req_options.append((f, m))
        for ro in req_options:
            for xo in xor_menu(names):
                fields = []
                for nme in names:
                    fd = {"name": nme, "kind": kinds[nme]}
                    if ro is not None and ro[0] == nme:
                        fd["requires"] = ro[1]
                    fields.append(fd)
                yield {"fields": fields, "xor": xo}


def random_spec(rnd, n, kinds_pal):
    names = NAMES[:n]
    kinds = {nme: rnd.choice(kinds_pal) for nme in names}
    fields = []
    for nme in names:
        fd = {"name": nme, "kind": kinds[nme]}
        if rnd.random() < 0.45:
            others = [o for o in names if o != nme]
            reqs = []
            for _ in range(rnd.choice([1, 1, 2])):
                conj = []
                for o in rnd.sample(others, rnd.choice([1, 1, 2])):
                    allowed = None
                    if kinds[o] in ("optstr", "str!") and rnd.random() < 0.5:
                        allowed = rnd.choice([("a",), ("b",), ("a", "b")])
                    conj.append((o, allowed))
                reqs.append(conj)
            fd["requires"] = reqs
        fields.append(fd)
    xor = []
    for _ in range(rnd.choice([0, 1, 1, 2])):
        g = rnd.sample(names, rnd.choice([2, 2, 3]) if n >= 3 else 2)
        if rnd.random() < 0.5:
            g = g + [None]
        xor.append(g)
    return {"fields": fields, "xor": xor}


def assignments(spec, explicit_none, cap=None, rnd=None):
    refs_b = set()
    for f in spec["fields"]:
        for conj in f.get("requires", []):
            for r, a in conj:
                if a and "b" in a:
                    refs_b.add(r)
    menus = [value_menu(f["kind"], f["name"] in refs_b, explicit_none) for f in spec["fields"]]
    allv = itertools.product(*menus)
    names = [f["name"] for f in spec["fields"]]
    if cap is not None:
        total = 1
        for m in menus:
            total *= len(m)
        if total > cap:
            picks = set()
            while len(picks) < cap:
                picks.add(tuple(rnd.randrange(len(m)) for m in menus))
            for p in sorted(picks):
                yield {n: m[i] for n, m, i in zip(names, menus, p) if m[i] is not UNSET}
            return
    for combo in allv:
        yield {n: v for n, v in zip(names, combo) if v is not UNSET}


# ------------------------------------------------------------------------------------- the contract


def classify(spec, values, got_ok, exp_ok):
    """narrow class predicate of a disagreement"""
    fields = {f["name"]: f for f in spec["fields"]}
    if got_ok and exp_ok is False:
        # the real code accepts.  Class: some requirement refers to an Optional[bool] field that holds
        # False, and the rules would not be violated if exactly those fields counted as set where they
        # are the target of a requirement (everything else unchanged).
        referenced = {r for f in spec["fields"] for conj in f.get("requires", []) for r, _ in conj}
        hit = [n for n, f in fields.items() if f["kind"] == "optbool" and values.get(n, UNSET) is False and n in referenced]
        if hit and SR.rules_ok(spec_fields(spec), spec["xor"], values, required_as_set=set(hit)) is not False:
            return "optional-bool-False-satisfies-requirement"
    return None


def check_task(spec, klass, values, flavour, res):
    """one (task, assignment): the real verdict against the oracle's; failures go to res['fails']"""
    fs = spec_fields(spec)
    exp = SR.rules_ok(fs, spec["xor"], values)
    task = klass(**values)
    viol = task._rule_violations()
    got = viol == []
    try:
        task._check_rules()
        raised = False
    except ValueError:
        raised = True
    res["evals"] += 1
    if len(res["samples"]) < 2 and exp is not None and spec["xor"] and any(f.get("requires") for f in spec["fields"]):
        res["samples"].append({"flavour": flavour, "spec": spec, "values": values, "rules_ok": exp, "violations": viol})
    case = {"flavour": flavour, "spec": spec, "values": dict(values)}
    if raised == got:
        res["fails"].append((None, f"{flavour}: _check_rules() {'raised' if raised else 'did not raise'} although _rule_violations() == {viol}", dict(case, kind="check-vs-list")))
    if exp is None:
        res["dontcare"] += 1
        return exp, got
    res["decided"] += 1
    if got != exp:
        k = classify(spec, values, got, exp)
        why = "; ".join(SR.explain(fs, spec["xor"], values)) or "all clauses hold"
        res["fails"].append(
            (
                k,
                f"{flavour} task fields={[(f['name'], f['kind'], f.get('requires', [])) for f in spec['fields']]} xor={spec['xor']} values={values}: "
                f"_rule_violations()={viol} but the rules {'hold' if exp else 'are violated (' + why + ')'}",
                dict(case, kind="verdict", expected_ok=exp, got_ok=got),
            )
        )
    return exp, got


def _new_res():
    return {"specs": 0, "evals": 0, "decided": 0, "dontcare": 0, "fails": [], "samples": [], "runs": [], "refused": []}


def eval_spec(spec, with_shell, explicit_none, cap, seed, run_rate, res):
    rnd = random.Random(f"{seed}:{spec_key(spec)}")
    try:
        kl = build_python(spec)
    except Exception as e:  # noqa: BLE001  a definition pydra refuses carries no obligation
        res["refused"].append(f"{type(e).__name__}: {str(e)[:120]}")
        return
    ks = build_shell(spec) if with_shell else None
    res["specs"] += 1
    for values in assignments(spec, explicit_none, cap=cap, rnd=rnd):
        exp, got = check_task(spec, kl, values, "python", res)
        if ks is not None:
            check_task(spec, ks, values, "shell", res)
        if exp is not None and got == exp and rnd.random() < run_rate:
            res["runs"].append((spec, values, exp))


_G = {}


def _work(arg):
    mode, start, step = arg
    res = _new_res()
    if mode == "A":
        i = 0
        for n in (1, 2, 3):
            for spec in exhaustive_specs(n, _G["pal"], _G["rich"]):
                if i % step == start:
                    eval_spec(spec, False, _G["explicit_none"], None, _G["seed"], _G["run_rate_A"], res)
                i += 1
    else:
        specs = _G["specsB"]
        for i in range(start, len(specs), step):
            eval_spec(specs[i], i % 4 == 0, True, 400, _G["seed"], _G["run_rate_B"], res)
    return res


def bounded(ctx):
    import multiprocessing as mp

    from props.C20 import CountedKeys
    from vf.core import json_safe

    rnd = random.Random(ctx.seed)
    explicit_none = ctx.thorough
    pal = ["bool", "optstr", "str!", "optbool"] if ctx.thorough else KINDS_QUICK
    # ---- domain A: exhaustive small scope
    domA = ctx.domain(
        "rules: exhaustive, <= 3 fields",
        bound=(
            f"every python.define task with 1..3 fields of kinds {pal} (bool=default False, optstr=str|None default None, str!=mandatory str"
            + (", optbool=bool|None default None" if ctx.thorough else "")
            + "), at most one field carrying requirements (single ref / ref with allowed values ('a',)"
            + (" or ('a','b')" if ctx.thorough else "")
            + " / two-ref AND / two-ref OR, with and without allowed values), at most one xor group (every subset of >= 2 fields, with and without None); "
            "every assignment of per-field values from {not provided, False, True} resp. {not provided, 'a', '' (+'b' when an allowed-values list mentions it)"
            + (", explicit None" if explicit_none else "")
            + "}"
        ),
        rule="one case per (task spec, assignment), distinct by construction; non-trivial = the property text decides the verdict (three-valued oracle returned True/False)",
        exhaustive=True,
    )
    nB = ctx.pick(160, 2000)
    domB = ctx.domain(
        "rules: sampled, 4-5 fields",
        bound=(
            f"{nB} distinct random task specs (seed {ctx.seed}) with 4 or 5 fields of kinds {KINDS_ALL}, each field with probability 0.45 carrying 1-2 requirement sets of 1-2 refs "
            "(allowed values ('a',)/('b',)/('a','b') on str refs with probability 0.5), 0-2 xor groups of 2-3 fields with/without None; every assignment "
            "(values as above plus explicit None) if <= 400, else 400 sampled; each spec as a python.define task and every 4th also as a shell.define task"
        ),
        rule="as above; one case per (flavour, spec, assignment)",
        exhaustive=False,
    )
    domA.keys, domB.keys = CountedKeys(), CountedKeys()
    specsB, seen = [], set()
    while len(specsB) < nB:
        sp = random_spec(rnd, rnd.choice([4, 5]), KINDS_ALL)
        k = spec_key(sp)
        if k not in seen:
            seen.add(k)
            specsB.append(sp)
    _G.update(pal=pal, rich=ctx.thorough, explicit_none=explicit_none, seed=ctx.seed, specsB=specsB, run_rate_A=ctx.pick(0.002, 0.0005), run_rate_B=ctx.pick(0.002, 0.0005))
    nproc = min(ctx.pick(4, 16), os.cpu_count() or 1)
    with mp.get_context("fork").Pool(nproc) as pl:
        results = pl.map(_work, [(m, i, nproc) for m in ("A", "B") for i in range(nproc)], chunksize=1)
    sampled_runs = []
    tot = {"A": _new_res(), "B": _new_res()}
    for (m, _i), r in zip([(m, i) for m in ("A", "B") for i in range(nproc)], results):
        dom = domA if m == "A" else domB
        t = tot[m]
        for f in ("specs", "evals", "decided", "dontcare"):
            t[f] += r[f]
        t["refused"] += r["refused"]
        dom.evaluations += r["evals"]
        dom.keys.n += r["decided"]
        for smp in r["samples"]:
            if len(dom.samples) < 3:
                dom.samples.append(json_safe(smp))
        for k, w, case in r["fails"]:
            ctx.fail(k, w[:700], case, domain=dom)
        sampled_runs += r["runs"]
    for m in ("A", "B"):
        t = tot[m]
        ctx.note(
            f"C31 bounded domain {m}: {t['specs']} task definitions, {t['evals']} evaluations, {t['dontcare']} of them 'don't care' "
            "(a falsy non-None value or an explicitly given falsy mandatory value decides the verdict)"
            + (f"; {len(t['refused'])} specs refused at definition time, e.g. {t['refused'][0]}" if t["refused"] else "")
        )
    before_execution(ctx, sampled_runs, rnd)


def before_execution(ctx, sampled, rnd):
    """violations are reported before any execution; satisfied rules let the task run"""
    from pydra.engine.job import Job
    from pydra.engine.submitter import Submitter

    n = ctx.pick(60, 500)
    bad = [s for s in sampled if s[2] is False]
    good = [s for s in sampled if s[2] is True]
    rnd.shuffle(bad)
    rnd.shuffle(good)
    picked = bad[: n * 3 // 4] + good[: n // 4]
    dom = ctx.domain(
        "rules are checked before execution",
        bound=f"{len(picked)} (task, assignment) pairs sampled from the two rule domains where the oracle decides and the real verdict agrees ({min(len(bad), n * 3 // 4)} violating, {min(len(good), n // 4)} satisfying); Job(...) construction and task(cache_root=fresh dir) with the debug worker",
        rule="one case per pair; non-trivial always",
        exhaustive=False,
    )
    root = tempfile.mkdtemp(prefix="vf_c31_")
    old_hc = os.environ.get("PYDRA_HASH_CACHE")
    os.environ["PYDRA_HASH_CACHE"] = os.path.join(root, "hashcache")
    try:
        for i, (spec, values, exp) in enumerate(picked):
            res = run_one(spec, values, os.path.join(root, f"c{i}"))
            dom.case((spec_key(spec), repr(sorted(values.items()))), sample={"spec": spec, "values": values, "rules_ok": exp, "observed": res})
            case = {"flavour": "python", "spec": spec, "values": values, "kind": "before-execution", "expected_ok": exp}
            if exp is False:
                problems = []
                if res["job_init"] != "ValueError":
                    problems.append(f"Job(...) -> {res['job_init']}")
                if res["call"] != "ValueError":
                    problems.append(f"task(cache_root=...) -> {res['call']}")
                if res["body_calls"]:
                    problems.append(f"function body executed {res['body_calls']}x")
                if res["cache_entries"]:
                    problems.append(f"cache root not empty: {res['cache_entries']}")
                if problems:
                    ctx.fail(None, f"rules violated ({'; '.join(SR.explain(spec_fields(spec), spec['xor'], values))}) but " + ", ".join(problems), case, domain=dom)
            else:
                if res["job_init"] != "ok" or res["call"] != "ok" or res["body_calls"] != 1:
                    ctx.fail(None, f"rules hold for values={values} but Job(...) -> {res['job_init']}, task() -> {res['call']}, body calls {res['body_calls']}", case, domain=dom)
    finally:
        if old_hc is None:
            os.environ.pop("PYDRA_HASH_CACHE", None)
        else:
            os.environ["PYDRA_HASH_CACHE"] = old_hc
        shutil.rmtree(root, ignore_errors=True)


def run_one(spec, values, cache_root):
    from pydra.engine.job import Job
    from pydra.engine.submitter import Submitter

    kl = build_python(spec)
    task = kl(**values)
    res = {}
    os.makedirs(cache_root, exist_ok=True)
    del CALLS[:]
    sub = Submitter(cache_root=cache_root, worker="debug")
    try:
        Job(task=task, submitter=sub, name="probe")
        res["job_init"] = "ok"
    except Exception as e:  # noqa: BLE001
        res["job_init"] = type(e).__name__
    res["after_job_init"] = sorted(os.listdir(cache_root))
    try:
        task(cache_root=cache_root)
        res["call"] = "ok"
    except Exception as e:  # noqa: BLE001
        res["call"] = type(e).__name__
    res["body_calls"] = len(CALLS)
    res["cache_entries"] = sorted(os.listdir(cache_root))
    return res


# ------------------------------------------------------------------------------------- replay


def _untuple(spec):
    for f in spec["fields"]:
        if "requires" in f:
            f["requires"] = [[(r, (tuple(a) if a is not None else None)) for r, a in conj] for conj in f["requires"]]
    return spec


def replay(rec):
    case = rec["case"]
    spec = _untuple(case["spec"])
    values = dict(case["values"])
    fs = spec_fields(spec)
    exp = SR.rules_ok(fs, spec["xor"], values)
    kl = build_shell(spec) if case.get("flavour") == "shell" else build_python(spec)
    task = kl(**values)
    viol = task._rule_violations()
    print(f"replay C31: fields={[(f['name'], f['kind'], f.get('requires', [])) for f in spec['fields']]} xor={spec['xor']} values={values}")
    print(f"replay C31: _rule_violations() = {viol}; rules_ok = {exp} ({'; '.join(SR.explain(fs, spec['xor'], values)) or 'all clauses hold'})")
    bad = exp is not None and (viol == []) != exp
    if case.get("kind") == "before-execution":
        root = tempfile.mkdtemp(prefix="vf_c31_")
        os.environ["PYDRA_HASH_CACHE"] = os.path.join(root, "hashcache")
        try:
            res = run_one(spec, values, os.path.join(root, "c"))
        finally:
            shutil.rmtree(root, ignore_errors=True)
        print(f"replay C31: {res}")
        if exp is False:
            bad = bad or res["job_init"] != "ValueError" or res["call"] != "ValueError" or bool(res["body_calls"]) or bool(res["cache_entries"])
        elif exp is True:
            bad = bad or res["job_init"] != "ok" or res["call"] != "ok" or res["body_calls"] != 1
    if case.get("kind") == "check-vs-list":
        try:
            task._check_rules()
            raised = False
        except ValueError:
            raised = True
        bad = raised == (viol == [])
    if bad:
        print(f"VIOLATION property=C31 replay={rec.get('_path', '')}")
        return 1
    return 0
