"""Native harness around the real Job.run / Job.run_async: exception injection at every
call site of the run path, with the observations the lifecycle / failure / provenance
contracts talk about.  Patches are applied from outside, inside this process only."""

from __future__ import annotations

import asyncio
import contextlib
import os
import shutil
import tempfile
from pathlib import Path

from pydra.compose import python, workflow


class _BodyLog:
    """execution counter that also works across worker processes (file based)"""

    def path(self):
        return os.environ.get("VF_BODY_LOG")

    def append(self, a):
        if self.path():
            with open(self.path(), "a") as f:
                f.write(f"{a}\n")

    def __len__(self):
        p = self.path()
        return len(open(p).read().splitlines()) if p and os.path.exists(p) else 0

    def clear(self):
        p = self.path()
        if p and os.path.exists(p):
            os.unlink(p)


BODY_CALLS = _BodyLog()


@python.define
def Body(a: int, fail: bool = False) -> int:
    BODY_CALLS.append(a)
    if os.environ.get("VF_BODY_DIE") == "1":
        os._exit(9)
    if fail:
        raise RuntimeError("body failed")
    return a + 1


@workflow.define
def Wf1(a: int, fail: bool = False) -> int:
    n = workflow.add(Body(a=a, fail=fail), name="n")
    return n.out


class Injected(Exception):
    pass


SITES = [
    "none",
    "hooks.pre_run",
    "populate.save",  # save(job=...) inside _populate_filesystem, after the info file exists
    "hooks.pre_run_task",
    "audit.start_audit",
    "audit.audit_check",
    "audit.monitor",
    "task._run",
    "Outputs._from_job",
    "record_error",
    "hooks.post_run_task",
    "audit.finalize_audit",
    "final.save",
    "hooks.post_run",
]


def observe(site, kind="python", rerun=False, precached=False, async_=False):
    """run one job with an exception injected at `site`; returns the observation dict"""
    import pydra.engine.job as J
    from pydra.engine.submitter import Submitter
    from pydra.engine.hooks import TaskHooks
    from pydra.engine.job import Job
    from pydra.compose.python import PythonOutputs as PO
    from pydra.compose.workflow import WorkflowOutputs as WO

    tmp = Path(tempfile.mkdtemp(prefix="vf_job_"))
    counts = {"pre_run": 0, "pre_run_task": 0, "post_run_task": 0, "post_run": 0}
    os.environ["VF_BODY_LOG"] = str(tmp) + ".bodylog"
    BODY_CALLS.clear()

    def mk(name):
        def hook(*a, **k):
            counts[name] += 1
            if site == f"hooks.{name}" and armed[0]:
                raise Injected(site)

        return hook

    armed = [False]
    hooks = TaskHooks(**{n: mk(n) for n in counts})
    cwd0 = os.getcwd()
    obs = {"site": site, "kind": kind, "rerun": rerun, "precached": precached, "async": async_}
    try:
        sub = Submitter(cache_root=tmp, worker="cf", n_procs=1) if async_ else Submitter(cache_root=tmp, worker="debug")
        fail_body = site == "task._run"
        task = Body(a=3, fail=fail_body) if kind == "python" else Wf1(a=3, fail=fail_body)
        if precached:
            pre = Job(task, submitter=sub, name="main")
            try:
                _run(pre, False, async_)
            except RuntimeError:
                if not fail_body:
                    raise
            obs["pre_body_calls"] = len(BODY_CALLS)
            BODY_CALLS.clear()
        job = Job(task, submitter=sub, name="main", hooks=hooks)
        armed[0] = True
        patches = contextlib.ExitStack()
        with patches:
            if site.startswith("audit."):
                meth = site.split(".")[1]
                patches.enter_context(_patch(job.audit, meth, _raiser(site)))
            if site == "Outputs._from_job":
                patches.enter_context(_patch(PO if kind == "python" else WO, "_from_job", classmethod(lambda cls, job: (_ for _ in ()).throw(Injected(site)))))
            if site == "record_error":
                patches.enter_context(_patch(J, "record_error", _raiser(site)))
                # record_error is only reached when something failed
                patches.enter_context(_patch(PO if kind == "python" else WO, "_from_job", classmethod(lambda cls, job: (_ for _ in ()).throw(Injected("Outputs._from_job")))))
            if site in ("populate.save", "final.save"):
                real_save = J.save

                def save(task_path, result=None, job=None, **kw):
                    if job is not None and J_is_main(job) and ((site == "populate.save" and result is None) or (site == "final.save" and result is not None)):
                        raise Injected(site)
                    return real_save(task_path, result=result, job=job, **kw)

                def J_is_main(j):
                    return j.name == "main"

                patches.enter_context(_patch(J, "save", save))
            exc = None
            try:
                res = _run(job, rerun, async_)
            except BaseException as e:  # noqa
                exc = e
                res = None
        obs["raised"] = type(exc).__name__ if exc is not None else None
        obs["raised_msg"] = str(exc)[:120] if exc is not None else None
        obs["cwd_restored"] = os.getcwd() == cwd0
        obs["info_files"] = sorted(p.name for p in tmp.glob("*_info.json"))
        obs["lock_left"] = sorted(p.name for p in tmp.glob("*.lock") if not p.name.endswith("_save.lock"))
        obs["counts"] = dict(counts)
        obs["body_calls"] = len(BODY_CALLS)
        obs["returned_errored"] = None if res is None else bool(res.errored)
        # what a later submission sees
        stored = None
        try:
            stored = J.load_result(job.checksum, [tmp])
        except Exception as e:  # noqa
            stored = e
        obs["stored_errored"] = None if stored is None else (repr(stored)[:80] if isinstance(stored, Exception) else bool(stored.errored))
        obs["stored_outputs_ok"] = bool(stored is not None and not isinstance(stored, Exception) and not stored.errored and getattr(stored.outputs, "out", None) == 4)
        obs["job_record"] = (tmp / job.checksum / "_job.pklz").exists()
        obs["result_file"] = (tmp / job.checksum / "_result.pklz").exists()
        return obs
    finally:
        os.chdir(cwd0)
        BODY_CALLS.clear()
        try:
            sub.close()
        except Exception:
            pass
        shutil.rmtree(tmp, ignore_errors=True)


def _run(job, rerun, async_):
    if async_:
        # the worker's executor futures are bound to the submitter's loop
        return job.submitter.loop.run_until_complete(job.run_async(rerun=rerun))
    return job.run(rerun=rerun)


def _raiser(site):
    def f(*a, **k):
        raise Injected(site)

    return f


@contextlib.contextmanager
def _patch(obj, name, val):
    missing = object()
    old = vars(obj).get(name, missing)
    setattr(obj, name, val)
    try:
        yield
    finally:
        if old is missing:
            try:
                delattr(obj, name)
            except AttributeError:
                pass
        else:
            setattr(obj, name, old)


# ---------------------------------------------------------------- property oracles


def c35_problems(o):
    """lifecycle clauses of C35 evaluated on one observation"""
    bad = []
    if not o["cwd_restored"]:
        bad.append("cwd-not-restored")
    if o["info_files"]:
        bad.append("info-file-left")
    if o["lock_left"]:
        bad.append("lock-left")
    c = o["counts"]
    if o["body_calls"] >= 1:
        if c["pre_run_task"] != 1 or c["post_run_task"] != 1:
            bad.append(f"task-hooks-not-once(pre={c['pre_run_task']},post={c['post_run_task']})")
    else:
        if o["precached"] and not o["rerun"] and o["site"] != "task._run" and (c["pre_run_task"] or c["post_run_task"]):
            bad.append("task-hooks-called-on-cache-hit")
        if c["post_run_task"] > c["pre_run_task"]:
            bad.append("end-hook-without-start-hook")
    if o["body_calls"] >= 1 and not o["result_file"] and o["site"] != "final.save":
        bad.append("result-not-saved")
    if o["body_calls"] >= 1 and not o["job_record"]:
        bad.append("job-record-missing")
    return bad


def c13_problems(o):
    bad = []
    executed = not (o["precached"] and not o["rerun"]) or o["site"] == "task._run"
    failing = o["site"] in ("task._run", "Outputs._from_job", "record_error") and executed
    if failing:
        if o["raised"] is None:
            bad.append("failure-not-reported")
        if o["stored_errored"] is False:
            bad.append("failure-cached-as-success")
    if o["stored_errored"] is False and not o["stored_outputs_ok"]:
        bad.append("unerrored-result-without-outputs")
    return bad


def c11_problems(o):
    bad = []
    if o["precached"] and not o["rerun"] and o["site"] in ("none",) and o["body_calls"] != 0:
        bad.append("re-executed-despite-complete-result")
    if o["rerun"] and o["site"] == "none" and o["body_calls"] != 1:
        bad.append("rerun-did-not-execute-once")
    if not o["precached"] and o["site"] == "none" and o["body_calls"] != 1:
        bad.append("not-executed-exactly-once")
    return bad


ORACLES = {"C35": c35_problems, "C13": c13_problems, "C11": c11_problems}


def bounded_injection(ctx, pid):
    oracle = ORACLES[pid]
    dom = ctx.domain(
        f"exception-injection({pid})",
        bound=f"{len(SITES)} injection sites x (python task, workflow task via Job.run; thorough: workflow via Job.run_async on the cf worker) x (fresh | precached | precached+rerun)",
        rule="one native Job.run per (site, mode); non-trivial = an exception was injected or a cached result existed",
        exhaustive=True,
    )
    modes = [("python", False), ("workflow", False)]
    if ctx.thorough:
        modes.append(("workflow", True))
    for kind, async_ in modes:
        for site in SITES:
            for precached, rerun in ((False, False), (True, False), (True, True)):
                if async_ and site in ("audit.audit_check",):
                    continue  # run_async does not call audit_check itself
                o = observe(site, kind, rerun=rerun, precached=precached, async_=async_)
                dom.case((site, kind, precached, rerun, async_), nontrivial=(site != "none" or precached), sample=o)
                for p in oracle(o):
                    klass = f"{p.split('(')[0]}@{site}"
                    ctx.fail(klass, f"{pid}: {p} after injecting an exception at {site} (kind={kind}, async={async_}, precached={precached}, rerun={rerun})", o, domain=dom)
    return dom


SITE_OF = {
    "self.hooks.pre_run": "hooks.pre_run",
    "self.hooks.pre_run_task": "hooks.pre_run_task",
    "self.audit.start_audit": "audit.start_audit",
    "self.audit.audit_check": "audit.audit_check",
    "self.audit.monitor": "audit.monitor",
    "self.task._run": "task._run",
    "self.task._run_async": "task._run",
    "self.task.Outputs._from_job": "Outputs._from_job",
    "record_error": "record_error",
    "self.hooks.post_run_task": "hooks.post_run_task",
    "self.audit.finalize_audit": "audit.finalize_audit",
    "save": "final.save",
    "self._populate_filesystem": "populate.save",
    "self.hooks.post_run": "hooks.post_run",
}


def replay_path(rec):
    """map a refuted Job.run obligation to a native injection and see whether it reproduces"""
    path = rec.get("path", "")
    clause = rec.get("clause", "")
    async_ = "run_async" in rec.get("function", "")
    raising = [p.split(":", 1)[1].rsplit(":", 1)[0] for p in path.split("/") if p.startswith("call:") and (p.endswith(":raise") or p.endswith(":raise-base"))]
    if clause == "exit.job-dir-holds-result-after-execution":
        raising = [r for r in raising if SITE_OF.get(r) in ("hooks.post_run_task", "audit.finalize_audit")] or raising
    site_map = SITE_OF
    _unused = {
        "self.hooks.pre_run": "hooks.pre_run",
        "self.hooks.pre_run_task": "hooks.pre_run_task",
        "self.audit.start_audit": "audit.start_audit",
        "self.audit.audit_check": "audit.audit_check",
        "self.audit.monitor": "audit.monitor",
        "self.task._run": "task._run",
        "self.task._run_async": "task._run",
        "self.task.Outputs._from_job": "Outputs._from_job",
        "record_error": "record_error",
        "self.hooks.post_run_task": "hooks.post_run_task",
        "self.audit.finalize_audit": "audit.finalize_audit",
        "save": "final.save",
        "self._populate_filesystem": "populate.save",
        "self.hooks.post_run": "hooks.post_run",
    }
    sites = [site_map[r] for r in raising if r in site_map]
    if "record_error" in sites:
        # a double fault (something failed, then record_error failed): the harness site
        # "record_error" injects both
        sites = ["record_error"]
    if not sites:
        return {"path": path, "note": "no injectable call on this path"}, False
    o = observe(sites[0], "python", async_=async_)
    probs = c35_problems(o) + c13_problems(o)
    return {"injected_at": sites[0], "observation": o, "problems": probs, "path": path, "clause": clause}, bool(probs)


def replay_case(pid, rec):
    case = rec["case"]
    o = case.get("observation", case)
    if "site" not in o:
        print("replay: no native case recorded for this obligation (see solver_output)")
        return 0
    o2 = observe(o["site"], o.get("kind", "python"), rerun=o.get("rerun", False), precached=o.get("precached", False), async_=o.get("async", False))
    probs = ORACLES.get(pid, c35_problems)(o2)
    print(f"replay {pid}: site={o['site']} observation={o2} problems={probs}")
    if probs:
        print(f"VIOLATION property={pid} replay=(replayed)")
        return 1
    return 0
