"""Shared engine-B harness for the scheduling properties C14 / C15 / C16.

Unit under check: the scheduling DECISION FUNCTIONS of pydra/engine/submitter.py
(`Submitter.get_runnable_tasks`, `NodeExecution.get_runnable_tasks / update_status / done /
has_errored / start`), the execution loops that call them (`Submitter.expand_workflow`,
`Submitter.expand_workflow_async`) and the error aggregation (`expand_workflow_async`'s `finally`,
`WorkflowOutputs._from_job`).

What the job-status observations are (lock file present / result file present / result errored) is
an explicit, scripted INPUT: a *script* decides, every time the loop waits for the worker, which
handed-out job finishes next, whether it succeeds, and when its lock file becomes visible.  The
harness realises each observation by writing the REAL files pydra looks at (lock file, `_result.pklz`,
`_error.pklz` through pydra's own `save` / `record_error`, or -- `realise="run"` -- by running a
pickled copy of the real job in-process exactly as the cf worker does).  No process pool, no timing.

Two drivers produce the same kind of history:

* loop="mirror": the harness itself calls `sub.get_runnable_tasks(exec_graph)` / `node.done` in the
  order `expand_workflow_async` does (function-level contract, the de-dup rule is the `futured` rule);
* loop="real":   the real coroutine `Submitter.expand_workflow_async` (or the real `expand_workflow`
  for the sequential variant) is run with a scripted in-process worker on a private event loop.

All choices go through a `Script` (an odometer over the choice tree), so every history is
reproducible from its list of choices and the whole tree can be enumerated exhaustively.
"""

from __future__ import annotations

import asyncio
import os
import random
import shutil
import tempfile
import time
import traceback
import typing as ty
import warnings
from datetime import datetime
from pathlib import Path

import attrs
import cloudpickle as cp

from pydra.compose import python, workflow
import pydra.engine.submitter  # noqa: F401  (must be imported before pydra.workers.base: circular import in pydra)
from pydra.workers.base import Worker
from vf.core import CheckerError, json_safe

FAILFILE_ENV = "VF_SCHED_FAILFILE"
INF = 10**6
os.environ.setdefault("NO_ET", "1")  # etelemetry's documented opt-out: no version look-up over the network


# --------------------------------------------------------------------------- the node body


def _ids(v):
    if v is None:
        return []
    if isinstance(v, dict):
        return [v["id"]]
    if isinstance(v, (list, tuple)):
        return [i for e in v for i in _ids(e)]
    raise CheckerError(f"unexpected upstream value {v!r}")


GEN_ENV = "VF_SCHED_GEN"


def body_value(tag, x, y, z, gen=1):
    """the value a job produces: a provenance id built from its own tag and the ids it consumed; executions of a
    later submission (gen >= 2, only when a history asks for it) mark their value, so that a value left over
    from an earlier submission is recognisable wherever it is consumed"""
    return {"id": f"{tag}<{'+'.join(_ids(x) + _ids(y) + _ids(z))}>" + (f"#g{gen}" if gen > 1 else "")}


@python.define
def N(tag: int, x: ty.Any = None, y: ty.Any = None, z: ty.Any = None, delay: float = 0.0) -> ty.Any:
    v = body_value(tag, x, y, z, int(os.environ.get(GEN_ENV, "1")))
    log = os.environ.get("VF_SCHED_BODYLOG")
    if log:
        with open(log, "a") as f:
            f.write(f"start {v['id']} {time.time():.4f}\n")
    if delay:
        time.sleep(delay)
    ff = os.environ.get(FAILFILE_ENV)
    failing = bool(ff) and os.path.exists(ff) and v["id"] in open(ff).read().split("\n")
    if log:
        with open(log, "a") as f:
            f.write(f"{'fail' if failing else 'end'} {v['id']} {time.time():.4f}\n")
    if failing:
        raise RuntimeError(f"body of {v['id']} failed")
    return v


# --------------------------------------------------------------------------- workflow specs


@attrs.frozen
class NodeSpec:
    name: str
    preds: tuple = ()
    split: int = 0  # 0 = not split, n = split over n values of its own `tag`
    combine: bool = False  # combine its own split again (downstream sees a list)
    delay: float = 0.0  # only used by the end-to-end layer


@attrs.frozen
class WfSpec:
    name: str
    nodes: tuple

    def node(self, name):
        return next(n for n in self.nodes if n.name == name)

    def ancestors(self, name):
        out, todo = set(), list(self.node(name).preds)
        while todo:
            p = todo.pop()
            if p not in out:
                out.add(p)
                todo.extend(self.node(p).preds)
        return out


def S(name, *nodes):
    """S("diamond", "a", "b<a", "c<a", "d<b,c")  ;  "a*2" = split x2, "a*2!" = split x2 then combined"""
    out = []
    for n in nodes:
        delay = 0.0
        if "@" in n:
            n, d = n.split("@")
            delay = float(d)
        nm, _, preds = n.partition("<")
        combine = nm.endswith("!")
        nm = nm.rstrip("!")
        nm, _, sp = nm.partition("*")
        out.append(NodeSpec(nm, tuple(p for p in preds.split(",") if p), int(sp) if sp else 0, combine, delay))
    return WfSpec(name, tuple(out))


CATALOGUE = {
    s.name: s
    for s in [
        S("one", "a"),
        S("chain2", "a", "b<a"),
        S("chain3", "a", "b<a", "c<b"),
        S("chain4", "a", "b<a", "c<b", "d<c"),
        S("indep2", "a", "b"),
        S("indep3", "a", "b", "c"),
        S("indep4", "a", "b", "c", "d"),
        S("indep5", "a", "b", "c", "d", "e"),
        S("indep6", "a", "b", "c", "d", "e", "f"),
        S("fanout", "a", "b<a", "c<a"),
        S("fanin", "a", "b", "c<a,b"),
        S("diamond", "a", "b<a", "c<a", "d<b,c"),
        S("one+chain2", "a", "b", "c<b"),
        S("one+chain3", "a", "b", "c<b", "d<c"),
        S("chain2+chain2", "a", "b", "c<a", "d<b"),
        # two independent chains of three whose nodes interleave in the sorted order (a, e, b, f, c, d): when a fails while
        # e and f are done, the walk of get_runnable_tasks stops at c (its predecessor b was never started) before reaching d
        S("chain3+chain3", "a", "e", "b<a", "f<e", "c<b", "d<f"),
        S("diamond+one", "a", "b<a", "c<a", "d<b,c", "e"),
        S("fanin3", "a", "b", "c", "d<a,b,c"),
        S("split2", "a*2"),
        S("split3", "a*3"),
        S("split4", "a*4"),
        S("split5", "a*5"),
        S("split6", "a*6"),
        S("split2>b", "a*2", "b<a"),
        S("split2!>b", "a*2!", "b<a"),
        S("a>split2", "a", "b*2<a"),
        S("a>split2>c", "a", "b*2<a", "c<b"),
        S("split2+plain>c", "a*2", "b", "c<a,b"),
        S("split2+chain2", "a*2", "b", "c<b"),
        S("split2,split2>c", "a*2", "b*2", "c<a,b"),
        S("split2>diamond", "a*2", "b<a", "c<a", "d<b,c"),
        S("split3>b", "a*3", "b<a"),
        S("split3!>b+one", "a*3!", "b<a", "c"),
        # limit-specific shapes: a queued job of a late node behind new jobs of an earlier node
        S("chain3+b>split2", "a", "b", "c<a", "d<c", "e*2<b"),
        S("chain3+b>split3", "a", "b", "c<a", "d<c", "e*3<b"),
        S("one+chain3+b>split3", "f", "a", "b", "c<a", "d<c", "e*3<b"),
        S("chain5", "a", "b<a", "c<b", "d<c", "e<d"),
        S("chain6", "a", "b<a", "c<b", "d<c", "e<d", "f<e"),
        S("split4>b", "a*4", "b<a"),
        S("indep7", *"abcdefg"),
        S("indep8", *"abcdefgh"),
        S("indep10", *"abcdefghij"),
        S("split8", "a*8"),
        S("split10", "a*10"),
        S("chain10", "a", "b<a", "c<b", "d<c", "e<d", "f<e", "g<f", "h<g", "i<h", "j<i"),
        S("split5>b+split3", "a*5", "b<a", "c*3"),
        S("2x chain4 + split2", "a", "b<a", "c<b", "d<c", "e", "f<e", "g<f", "h<g", "i*2"),
    ]
}

_BUILT = {}


def build(spec: WfSpec):
    """the workflow task class for a spec (constructed with pydra's own workflow.define)"""
    if spec in _BUILT:
        return _BUILT[spec]
    sinks = [n.name for n in spec.nodes if not any(n.name in m.preds for m in spec.nodes)]

    def constructor(a):
        outs = {}
        for i, nd in enumerate(spec.nodes):
            kw = {slot: outs[p] for slot, p in zip(("x", "y", "z"), nd.preds)}
            t = N(tag=100 * (i + 1), delay=nd.delay, **kw)
            if nd.split:
                t = t.split(tag=[100 * (i + 1) + k for k in range(nd.split)])
            if nd.combine:
                t = t.combine("tag")
            outs[nd.name] = workflow.add(t, name=nd.name).out
        return tuple(outs[s] for s in sinks)

    W = workflow.define(outputs={f"o_{s}": ty.Any for s in sinks}, name="W")(constructor)
    _BUILT[spec] = W
    return W


# --------------------------------------------------------------------------- scripts (choice trees)


class Script:
    """deterministic choice oracle: follows `prefix`, then always option 0; records (choice, arity)"""

    def __init__(self, prefix=()):
        self.prefix = list(prefix)
        self.trace = []

    def choose(self, n, what=""):
        if n <= 0:
            raise CheckerError(f"choice with no options ({what})")
        i = len(self.trace)
        c = self.prefix[i] if i < len(self.prefix) else 0
        if c >= n:
            raise CheckerError(f"script does not fit the choice tree at {i} ({what}): {c} >= {n}")
        self.trace.append((c, n))
        return c

    def choices(self):
        return [c for c, _ in self.trace]


class RandomScript(Script):
    def __init__(self, rng):
        super().__init__()
        self.rng = rng

    def choose(self, n, what=""):
        c = self.rng.randrange(n)
        self.trace.append((c, n))
        return c


def next_prefix(trace, fixed=0):
    t = list(trace)
    while len(t) > fixed:
        c, n = t.pop()
        if c + 1 < n:
            return [x for x, _ in t] + [c + 1]
    return None


def enumerate_histories(drive, fixed=(), limit=None):
    """all histories of `drive(script)` whose choice list starts with `fixed`"""
    prefix = list(fixed)
    n = 0
    while prefix is not None:
        s = Script(prefix)
        h = drive(s)
        if len(s.trace) < len(fixed):
            raise CheckerError("fixed prefix longer than the history")
        yield s, h
        n += 1
        if limit is not None and n >= limit:
            return
        prefix = next_prefix(s.trace, len(fixed))


# --------------------------------------------------------------------------- options of one drive


@attrs.frozen
class Opts:
    spec: str
    variant: str = "async"  # "async" | "sync"
    loop: str = "mirror"  # "mirror" | "real"
    realise: str = "synth"  # "synth" (save()/record_error()) | "run" (pickled copy of the job is run)
    k: ty.Any = None  # max_concurrent (None = unlimited)
    fail: int = 0  # maximum number of failing jobs the script may choose (0 = none fail)
    failkind: str = "recorded"  # "recorded": the failed job leaves an errored result + error file (task body raised); "silent": its
    # worker.run raises but nothing is left in the cache (failure in a pre_run / pre_run_task / post_run_task hook, or while the job
    # directory is prepared: Job.run raises outside the part that records the error)
    vis: tuple = (INF,)  # lock-visibility delays the script may choose per job: 0 = lock file seen at the
    #                      next observation, d = after d further completions, INF = never seen before the result
    multi: bool = False  # more than one job may finish between two observations
    probe: bool = False  # mirror loop only: after every observation also read has_errored / all_failed / done of every node
    # two-submission histories (real asynchronous loop only): a first submission of the same workflow into the same
    # cache root has completed every job ("all") or only the jobs of the first half of the nodes ("partial");
    # the history that is scripted and checked is the SECOND submission, made with `rerun` / `propagate_rerun`
    prior: str = "none"
    rerun: bool = False
    propagate: bool = True
    genmark: bool = False  # executions of the second submission produce values that differ from the first one's

    def key(self):
        return (self.spec, self.variant, self.loop, self.realise, self.k, self.fail, tuple(self.vis), self.multi, self.probe, self.prior, self.rerun, self.propagate, self.genmark, self.failkind)

    def asdict(self):
        return attrs.asdict(self)


def opts_from(d):
    d = dict(d)
    d["vis"] = tuple(d.get("vis", (INF,)))
    return Opts(**d)


# --------------------------------------------------------------------------- environment


def label(job):
    return job.name if job.state_index is None else f"{job.name}[{job.state_index}]"


@attrs.define
class ScriptedWorker(Worker):
    """asynchronous worker whose jobs finish when -- and how -- the script says"""

    ctl: ty.Any = None
    _plugin_name = "vf-scripted"

    async def run(self, job, rerun=False):
        hit = self.ctl.cache_hit(job, rerun)
        if hit is not None:
            return hit
        fut = self.ctl.submit(job)
        return await fut

    def __getstate__(self):
        st = super().__getstate__()
        st["ctl"] = None
        return st


@attrs.define
class ScriptedSyncWorker(Worker):
    ctl: ty.Any = None
    _plugin_name = "vf-scripted-sync"

    def run(self, job, rerun=False):
        hit = self.ctl.cache_hit(job, rerun)
        if hit is not None:
            return hit
        return self.ctl.run_now(job)

    def __getstate__(self):
        st = super().__getstate__()
        st["ctl"] = None
        return st


class _AsyncioProxy:
    """`asyncio` as seen by pydra.engine.submitter: identical except that sleep() does not wait"""

    def __init__(self, ctl_ref):
        self._ctl_ref = ctl_ref

    def __getattr__(self, name):
        return getattr(asyncio, name)

    async def sleep(self, t, *a, **k):
        ctl = self._ctl_ref[0]
        if ctl is not None:
            ctl.h["polls"] += 1
            ctl.stall_polls += 1
        await asyncio.sleep(0)


_CTL_REF = [None]


class LoopDeadlock(Exception):
    pass


def _scripted_submitter_class():
    from pydra.engine.submitter import Submitter

    if "cls" in _SUBCLS:
        return _SUBCLS["cls"]

    class ScriptedSubmitter(Submitter):
        """Submitter whose two interaction points with the outside are recorded / scripted; the loops and
        the decision functions are the inherited real ones"""

        def get_runnable_tasks(self, graph):
            ctl = _CTL_REF[0]
            if ctl is None or not ctl.record_real_calls:
                return super().get_runnable_tasks(graph)
            ctl.ncalls += 1
            if ctl.ncalls > MAX_ROUNDS * 12:
                if ctl.nfail and not ctl.pending:
                    # a job has failed, nothing is executing and the loop keeps asking: it spins for ever
                    ctl.ev("spin", "get_runnable_tasks called again and again although nothing is executing")
                    raise LoopDeadlock("expand_workflow_async spins: nothing is executing, nothing new becomes runnable")
                raise CheckerError("real loop does not terminate")
            try:
                tasks = super().get_runnable_tasks(graph)
            except Exception as e:  # noqa
                ctl.observe()
                ctl.h["raised_in"] = {"where": "Submitter.get_runnable_tasks", "type": type(e).__name__, "msg": str(e)[:500], "tb": _tb_functions(e)}
                raise
            ctl.record_call(tasks)
            return tasks

        async def fetch_finished(self, futures):
            ctl = _CTL_REF[0]
            if ctl is not None and ctl.record_real_calls:
                await asyncio.sleep(0)  # the freshly created worker.run tasks register with the controller
                ctl.env_step()
                if futures and not ctl.pending:
                    for _ in range(3):
                        await asyncio.sleep(0)
                    if not any(f.done() for f in futures):
                        # the loop waits for a job the worker never got / that already finished: it would hang
                        ctl.ev("deadlock", sorted(f.get_name() for f in futures)[:4])
                        raise LoopDeadlock("expand_workflow_async waits for futures although no job is executing")
            return await super().fetch_finished(futures)

    ScriptedSubmitter.__qualname__ = "ScriptedSubmitter"
    _SUBCLS["cls"] = ScriptedSubmitter
    globals()["ScriptedSubmitter"] = ScriptedSubmitter
    return ScriptedSubmitter


_SUBCLS = {}


def _install_sleep_proxy():
    import pydra.engine.submitter as SM

    if not isinstance(SM.asyncio, _AsyncioProxy):
        SM.asyncio = _AsyncioProxy(_CTL_REF)


class Controller:
    """ghost state + realisation of the scripted observations"""

    def __init__(self, opts: Opts, script: Script, sub, spec: WfSpec):
        self.o, self.script, self.sub, self.spec = opts, script, sub, spec
        self.h = {
            "opts": opts.asdict(),
            "events": [],
            "jobs": {},
            "raised": None,
            "polls": 0,
            "stalled": False,
            "error_message": None,
            "nodes": {},
            "handed": [],  # two-submission histories: [label, rerun flag the loop passed to the worker, result was stored]
        }
        self.pending = []  # labels handed to the worker, not finished yet (ghost `executing`)
        self.jobobj = {}
        self.futs = {}
        self.outcome = {}
        self.vis_at = {}  # label -> remaining completions until the lock file appears
        self.visible = set()
        self.seen_running = set()  # lock file was on disk during at least one observation (get_runnable_tasks call)
        self.finished = {}
        self.nfail = 0
        self.steps = 0
        self.ncalls = 0
        self.gen = 2 if (opts.prior != "none" and opts.genmark) else 1  # generation mark of the values produced
        self.stall_polls = 0  # polls of the current `nothing runnable, nothing executing` episode of the real loop
        self.record_real_calls = False

    def ev(self, *e):
        self.h["events"].append(list(e))

    # -- what the loop does
    def record_call(self, tasks):
        self.observe()
        if tasks:
            self.stall_polls = 0
        self.ev("call", [label(j) for j in tasks])

    def observe(self):
        self.seen_running |= {lb for lb in self.pending if lb in self.visible}

    def submit(self, job, future=True):
        lb = label(job)
        again = lb in self.pending or lb in self.finished
        self.ev("submit", lb)
        if again:
            # handed to the worker a second time (the contract forbids it; the oracle sees the second "submit").
            # A real worker would find the first run's lock / result: mirror that without a new script choice.
            f = self.sub.loop.create_future() if future else None
            if lb in self.finished:
                if f is not None:
                    res, exc = self.outcome[lb]
                    f.set_result(res) if exc is None else f.set_exception(exc)
            elif f is not None:
                self.futs.setdefault(lb, []).append(f)
            return f
        self.jobobj[lb] = job
        t = job.task
        self.h["jobs"][lb] = {
            "node": job.name,
            "index": job.state_index,
            "checksum": job.checksum,
            "inputs": {s: _ids(getattr(t, s)) for s in ("x", "y", "z")},
            "raw_none": [s for s, p in zip(("x", "y", "z"), self.spec.node(job.name).preds) if getattr(t, s) is None],
            "id": body_value(t.tag, t.x, t.y, t.z, self.gen)["id"],
        }
        self.pending.append(lb)
        d = self.o.vis[self.script.choose(len(self.o.vis), f"vis {lb}")] if len(self.o.vis) > 1 else self.o.vis[0]
        self.vis_at[lb] = d
        if d == 0:
            self._make_visible(lb)
        if future:
            f = self.sub.loop.create_future()
            self.futs.setdefault(lb, []).append(f)
            return f

    def cache_hit(self, job, rerun):
        """what Job.run does first: without `rerun` a stored, un-errored result is returned and nothing executes"""
        if self.o.prior == "none":
            return None
        from pydra.engine.result import load_result

        res = load_result(job.checksum, [job.cache_root])
        self.h["handed"].append([label(job), bool(rerun), res is not None and not res.errored])
        if not rerun and res is not None and not res.errored:
            self.ev("cached", label(job))
            return res
        return None

    def _make_visible(self, lb):
        job = self.jobobj[lb]
        if self.o.prior != "none" and job.cache_dir.exists():
            shutil.rmtree(job.cache_dir)  # Job._populate_filesystem: a re-execution first clears the old directory
        # what SoftFileLock.acquire leaves on disk while the job runs
        fd = os.open(job.lockfile, os.O_WRONLY | os.O_CREAT | os.O_TRUNC, 0o644)
        os.close(fd)
        self.visible.add(lb)
        self.ev("lock", lb)

    # -- what the environment does between two observations
    def env_step(self):
        """>= 1 pending job finishes (script: which one, how), lock files of others may appear"""
        if not self.pending:
            return
        self.steps += 1
        while True:
            i = self.script.choose(len(self.pending), "which job finishes")
            lb = self.pending[i]
            ok = True
            if self.nfail < self.o.fail:
                ok = self.script.choose(2, f"{lb} ok/fail") == 0
            self._finish(lb, ok)
            if not (self.o.multi and self.pending and self.script.choose(2, "another one finishes too") == 1):
                break
        for lb in list(self.pending):
            if lb not in self.visible and self.vis_at[lb] < INF:
                self.vis_at[lb] -= 1
                if self.vis_at[lb] <= 0:
                    self._make_visible(lb)

    def _realise(self, job, ok):
        """write what a finished job leaves in the cache; returns (result, exception)"""
        from pydra.engine.result import Result, record_error, save

        lb = label(job)
        jid = self.h["jobs"][lb]["id"]
        job.lockfile.unlink(missing_ok=True)
        if self.o.realise == "run":
            ff = os.environ[FAILFILE_ENV]
            with open(ff, "a") as f:
                f.write(("" if ok else jid) + "\n")
            copy = cp.loads(cp.dumps(job))  # what the cf worker does
            try:
                res = copy.run(rerun=False)
            except Exception as e:  # noqa
                if ok:
                    raise CheckerError(f"job {lb} failed although the script says it succeeds: {e!r}")
                return None, e
            if not ok:
                raise CheckerError(f"job {lb} succeeded although the script says it fails")
            return res, None
        cd = job.cache_dir
        cd.mkdir(exist_ok=True)
        t = job.task
        if ok:
            # (the task copy a real run stores in the result is left out: nothing in the scheduler reads it and
            #  pickling it is a third of the cost of a history; realise="run" histories keep it)
            res = Result(outputs=t.Outputs(out=body_value(t.tag, t.x, t.y, t.z, self.gen)), runtime=None, errored=False, cache_dir=cd)
            save(cd, result=res)
            return res, None
        if self.o.failkind == "silent":
            return None, RuntimeError(f"pre_run hook of {jid} failed")
        res = Result(outputs=None, runtime=None, errored=True, cache_dir=cd)
        save(cd, result=res)
        record_error(cd, error=["Traceback (most recent call last):\n", f"RuntimeError: body of {jid} failed\n"])
        return None, RuntimeError(f"body of {jid} failed")

    def _finish(self, lb, ok):
        job = self.jobobj[lb]
        res, exc = self._realise(job, ok)
        self.pending.remove(lb)
        self.finished[lb] = "ok" if ok else "fail"
        if not ok:
            self.nfail += 1
        self.ev("finish", lb, "ok" if ok else "fail", lb in self.seen_running)
        self.outcome[lb] = (res, exc)
        for f in self.futs.get(lb, []):
            if not f.done():
                if exc is None:
                    f.set_result(res)
                else:
                    f.set_exception(exc)
        return res, exc

    # sequential worker: the job runs to completion inside worker.run
    def run_now(self, job):
        lb = label(job)
        if lb in self.finished:
            # the sequential loop hands a finished job to the worker again: Job.run would return the stored
            # result without executing (that is C11's business); not an execution
            self.ev("rerun-cached", lb)
            res, exc = self.outcome[lb]
            if exc is not None:
                raise exc
            return res
        self.submit(job, future=False)
        if self.o.prior != "none" and job.cache_dir.exists():
            shutil.rmtree(job.cache_dir)  # Job._populate_filesystem: a re-execution first clears the old directory
        ok = True
        if self.nfail < self.o.fail:
            ok = self.script.choose(2, f"{lb} ok/fail") == 0
        res, exc = self._finish(lb, ok)
        if exc is not None:
            raise exc
        return res

    def cancel(self):
        for fs in self.futs.values():
            for f in fs:
                if not f.done():
                    f.cancel()


def _tb_functions(exc):
    return [f"{Path(fr.filename).name}:{fr.name}:{(fr.line or '').strip()}" for fr in traceback.extract_tb(exc.__traceback__)][-6:]


def _snapshot_nodes(h, graph):
    for n in graph.nodes:
        h["nodes"][n.name] = {
            "started": n._tasks is not None,
            "jobs": None if n._tasks is None else [label(j) for j in n._tasks.values()],
            "successful": sorted(label(j) for j in n.successful.values()),
            "errored": sorted(label(j) for j in n.errored.values()),
            "queued": sorted(label(j) for j in n.queued.values()),
            "running": sorted(label(j) for j, _ in n.running.values()),
            "blocked": sorted(label(j) for j in (n.blocked or {}).values()),
            "unrunnable": bool(n.unrunnable),
        }


_PROC = {}


def temp_root():
    """one temp root per check run, created and removed by the check process; its spawned pool workers find it
    through the environment variable VF_SCHED_ROOT and work in a sub-directory of their own"""
    inherited = os.environ.get("VF_SCHED_ROOT")
    if "root" not in _PROC and inherited and os.path.isdir(inherited):
        _PROC["root"] = Path(inherited)  # a spawned child of the check process; the parent owns and removes it
        _PROC["owner"] = None
    if "root" not in _PROC:
        import atexit

        # a memory-backed directory when there is one: the check is dominated by small file operations
        shm = "/dev/shm" if os.path.isdir("/dev/shm") and os.access("/dev/shm", os.W_OK) else None
        _PROC["root"] = Path(tempfile.mkdtemp(prefix="vf_sched_", dir=shm))
        _PROC["owner"] = os.getpid()
        atexit.register(cleanup)
    return _PROC["root"]


def cleanup():
    if _PROC.get("owner") == os.getpid() and "root" in _PROC:
        shutil.rmtree(_PROC.pop("root"), ignore_errors=True)
        os.environ.pop("VF_SCHED_ROOT", None)


def _proc_root():
    me = os.getpid()
    if _PROC.get("pid") != me:
        _PROC["pid"] = me
        _PROC["n"] = 0
        _PROC["dir"] = temp_root() / f"p{me}"
        _PROC["dir"].mkdir(exist_ok=True)
        warnings.filterwarnings("ignore", category=DeprecationWarning)
        asyncio.set_event_loop(asyncio.new_event_loop())
    _PROC["n"] += 1
    d = _PROC["dir"] / f"c{_PROC['n']}"
    d.mkdir()
    return d


def drive(opts: Opts, script: Script):
    """one history of one workflow under one script; returns the history dict (json-able)"""
    from pydra.engine.job import Job
    from pydra.engine.submitter import Submitter
    from pydra.engine.workflow import Workflow

    spec = CATALOGUE[opts.spec]
    root = _proc_root()
    os.environ[FAILFILE_ENV] = str(root) + ".fail"
    ctl = None
    try:
        W = build(spec)
        first = None
        if opts.prior != "none":
            first = _first_submission(opts, spec, W, root)
        Workflow.clear_cache()
        worker = ScriptedWorker() if opts.variant == "async" else ScriptedSyncWorker()
        kw = {} if opts.k is None else {"max_concurrent": opts.k}
        if opts.prior != "none":
            kw["propagate_rerun"] = opts.propagate
        sub = _scripted_submitter_class()(cache_root=root, worker=worker, **kw)
        sub.run_start_time = datetime.now()  # as Submitter.__call__ does
        ctl = Controller(opts, script, sub, spec)
        worker.ctl = ctl
        wf_job = Job(W(a=1), submitter=sub, name="main")
        h = ctl.h
        h["first"] = first
        os.environ[GEN_ENV] = str(ctl.gen)
        if opts.loop == "real":
            graph = _drive_real(opts, ctl, sub, wf_job, rerun=opts.rerun)
        else:
            graph = _drive_mirror(opts, ctl, sub, wf_job)
        if graph is not None:
            _snapshot_nodes(h, graph)
            # the error aggregation a finished workflow job goes through
            if h["raised"] is None and not h["stalled"]:
                wf_job.return_values = {"workflow": wf_job.task.construct(), "exec_graph": graph}
                try:
                    wf_job.task.Outputs._from_job(wf_job)
                    h["from_job"] = None
                except RuntimeError as e:
                    h["from_job"] = str(e)
                except Exception as e:  # noqa
                    h["from_job"] = f"<<{type(e).__name__}>> {e}"
        h["choices"] = script.choices()
        return h
    finally:
        if ctl is not None:
            ctl.cancel()
        _CTL_REF[0] = None
        os.environ.pop(GEN_ENV, None)
        shutil.rmtree(root, ignore_errors=True)
        try:
            os.unlink(str(root) + ".fail")
        except OSError:
            pass


def _first_submission(opts, spec, W, root):
    """a complete, failure-free earlier submission of the same workflow into `root` (real asynchronous loop, no
    limit, fixed completion order); for prior="partial" the results of the second half of the nodes are removed
    again, as if only a sub-workflow had been run before.  -> {label: has a stored result}"""
    from pydra.engine.job import Job
    from pydra.engine.workflow import Workflow

    if opts.loop != "real":
        raise CheckerError("two-submission histories are driven with the real loops only")
    Workflow.clear_cache()
    o1 = Opts(opts.spec, loop="real")
    worker = ScriptedWorker()
    sub = _scripted_submitter_class()(cache_root=root, worker=worker)
    ctl = Controller(o1, Script(), sub, spec)
    worker.ctl = ctl
    wf_job = Job(W(a=1), submitter=sub, name="main")
    try:
        graph = _drive_real(o1, ctl, sub, wf_job)
    finally:
        ctl.cancel()
        _CTL_REF[0] = None
    h1 = ctl.h
    _snapshot_nodes(h1, graph)
    if h1["raised"] is not None or h1["stalled"] or not all_jobs_done(h1, spec):
        raise CheckerError(f"the first submission of {opts.spec} did not complete: {h1['raised']}")
    stored = {lb: True for lb in ctl.jobobj}
    if opts.prior == "partial":
        names = [nd.name for nd in spec.nodes]
        dropped = set(names[max(1, len(names) // 2) :])
        for lb, job in ctl.jobobj.items():
            if job.name in dropped:
                shutil.rmtree(job.cache_dir, ignore_errors=True)
                stored[lb] = False
    return stored


def _guard(ctl, where, fn):
    """call into the real code; an exception ends the history and is recorded"""
    try:
        return fn(), True
    except CheckerError:
        raise
    except Exception as e:  # noqa
        ctl.observe()
        ctl.h["raised"] = {"where": where, "type": type(e).__name__, "msg": str(e)[:2000], "tb": _tb_functions(e)}
        ctl.ev("raise", where, type(e).__name__, str(e)[:200])
        return None, False


MAX_ROUNDS = 400


def _drive_mirror(opts, ctl, sub, wf_job):
    """the loops of Submitter.expand_workflow / expand_workflow_async re-stated over the decision functions"""
    wf = wf_job.task.construct()
    g = wf.execution_graph(submitter=sub)

    def grt():
        tasks, ok = _guard(ctl, "Submitter.get_runnable_tasks", lambda: sub.get_runnable_tasks(g))
        if ok:
            ctl.record_call(tasks)
        if ok and opts.probe:
            for n in g.nodes:
                for prop in ("has_errored", "all_failed", "done"):
                    v, ok = _guard(ctl, f"NodeExecution.{prop}", lambda: bool(getattr(n, prop)))
                    if not ok:
                        return tasks, False
                    if prop == "has_errored":
                        ghost = any(ctl.finished.get(label(j)) == "fail" for j in (n._tasks or {}).values())
                        ctl.ev("probe", n.name, v, ghost)
        return tasks, ok

    def not_done():
        return _guard(ctl, "NodeExecution.done", lambda: any(not n.done for n in g.nodes))

    tasks, ok = grt()
    if not ok:
        return g
    futured = {}
    rounds = 0
    if opts.variant == "sync":
        while True:
            if not tasks:
                nd, ok = not_done()
                if not ok or not nd:
                    return g
            for job in tasks:
                _, ok = _guard(ctl, "worker.run", lambda: ctl.run_now(job))
                if not ok:
                    return g
            tasks, ok = grt()
            rounds += 1
            if not ok:
                return g
            if rounds > MAX_ROUNDS:
                ctl.h["stalled"] = True
                return g
    while True:
        if not tasks and not ctl.pending:
            nd, ok = not_done()
            if not ok or not nd:
                return g
            ii = 0
            while not tasks:
                nd, ok = not_done()
                if not ok:
                    return g
                if not nd:
                    break
                tasks, ok = grt()
                if not ok:
                    return g
                ii += 1
                ctl.h["polls"] += 1
                if ii > 10:
                    ctl.h["stalled"] = True
                    return g
        for job in tasks:
            if job.checksum not in futured:
                futured[job.checksum] = job
                ctl.submit(job, future=False)
        ctl.env_step()
        tasks, ok = grt()
        rounds += 1
        if not ok:
            return g
        if rounds > MAX_ROUNDS:
            ctl.h["stalled"] = True
            return g


def _drive_real(opts, ctl, sub, wf_job, rerun=False):
    """the real Submitter.expand_workflow / expand_workflow_async with the scripted worker"""
    _install_sleep_proxy()
    _CTL_REF[0] = ctl
    ctl.record_real_calls = True
    if opts.variant == "sync":
        try:
            sub.expand_workflow(wf_job, rerun)
        except CheckerError:
            raise
        except Exception as e:  # noqa
            ctl.h["raised"] = {"where": "Submitter.expand_workflow", "type": type(e).__name__, "msg": str(e)[:2000], "tb": _tb_functions(e)}
            ctl.ev("raise", "Submitter.expand_workflow", type(e).__name__, str(e)[:200])
        return wf_job.return_values.get("exec_graph")

    try:
        sub.loop.run_until_complete(asyncio.wait_for(sub.expand_workflow_async(wf_job, rerun), timeout=60))
    except CheckerError:
        raise
    except (asyncio.TimeoutError, TimeoutError):
        ctl.h["stalled"] = True
        ctl.ev("timeout", "expand_workflow_async did not finish within 60 s of wall-clock time")
    except Exception as e:  # noqa
        chain, x = [], e
        while x is not None and len(chain) < 6:
            chain.append(x)
            x = x.__context__ or x.__cause__
        for c in chain:
            if isinstance(c, CheckerError):
                raise c
        inner = ctl.h.get("raised_in")
        stalled = ctl.stall_polls > 10 or any((isinstance(c, RuntimeError) and "Something has gone wrong" in str(c)) or isinstance(c, LoopDeadlock) for c in chain)
        aggregated = isinstance(e, RuntimeError) and str(e).startswith("Workflow job ")
        masked = chain[1] if aggregated and len(chain) > 1 else None  # an exception replaced by the one raised in `finally`
        if aggregated:
            ctl.h["error_message"] = str(e)  # the aggregated error the property talks about
        r = None
        if stalled:
            ctl.h["stalled"] = True
        elif inner is not None:
            r = inner
        elif masked is not None:
            r = {"where": "Submitter.expand_workflow_async", "type": type(masked).__name__, "msg": str(masked)[:2000], "tb": _tb_functions(masked)}
        elif not aggregated:
            r = {"where": "Submitter.expand_workflow_async", "type": type(e).__name__, "msg": str(e)[:2000], "tb": _tb_functions(e)}
        if r is not None:
            ctl.h["raised"] = r
            ctl.ev("raise", r["where"], r["type"], r["msg"][:200])
    finally:
        ctl.cancel()
        # let cancelled worker tasks unwind
        pend = [t for t in asyncio.all_tasks(sub.loop) if not t.done()]
        for t in pend:
            t.cancel()
        if pend:
            sub.loop.run_until_complete(asyncio.gather(*pend, return_exceptions=True))
    return wf_job.return_values.get("exec_graph")


# --------------------------------------------------------------------------- oracles (from the property text)


def timeline(h):
    """replays the ghost state over the events: yields (event index, event, executing-before, finished-before)"""
    executing, finished = [], {}
    for i, e in enumerate(h["events"]):
        yield i, e, list(executing), dict(finished)
        if e[0] == "submit":
            if e[1] not in executing:
                executing.append(e[1])
        elif e[0] == "finish":
            if e[1] in executing:
                executing.remove(e[1])
            finished[e[1]] = e[2]


def c15_problems(h, spec: WfSpec, second=None):
    """C15: no job starts before every upstream job whose outputs it consumes has completed
    successfully; every job of the workflow is executed exactly once.
    Accepts both readings of `consumes` (job level is the weaker demand and is what is checked):
    a slot fed by an un-combined upstream node holds the value of exactly one successfully finished
    job of that node; a slot fed by a combined node holds the values of all of its jobs.

    second = {"effective": bool, "stored": {label: bool}} for the SECOND submission of a workflow into a cache
    root holding results of a first one.  If the rerun request reaches the jobs (rerun and propagate_rerun) every
    job is executed (exactly once) in this submission and consumes only values produced in this submission;
    otherwise a stored result counts as `taken from the cache`: it is never executed again, jobs without a
    stored result are executed and may consume stored values of upstream jobs."""
    bad = []
    tag2node = {100 * (i + 1): nd.name for i, nd in enumerate(spec.nodes)}
    id2job = {j["id"]: lb for lb, j in h["jobs"].items()}
    nsub = {}
    for i, e, executing, finished in timeline(h):
        if e[0] != "submit":
            continue
        lb = e[1]
        nsub[lb] = nsub.get(lb, 0) + 1
        j = h["jobs"][lb]
        nd = spec.node(j["node"])
        if j["raw_none"]:
            bad.append(("started-without-upstream-value", f"{lb} started with no value in slot(s) {j['raw_none']}"))
        for slot, p in zip(("x", "y", "z"), nd.preds):
            prod = [id2job.get(v) for v in j["inputs"][slot]]
            if any(q is None for q in prod):
                unknown = [v for v, q in zip(j["inputs"][slot], prod) if q is None]
                from_cache = second is not None and all(tag2node.get(int(v.split("<")[0]) // 100 * 100) == p for v in unknown)
                if from_cache and not second["effective"]:
                    continue  # values of stored results of the upstream node: taken from the cache
                if from_cache:
                    bad.append(("consumed-value-of-earlier-submission", f"{lb}.{slot} holds {unknown}: produced by the first submission, not by this one (rerun requested for every job)"))
                else:
                    bad.append(("consumed-value-without-producer", f"{lb}.{slot} holds a value no started job produces"))
                continue
            for q in prod:
                if h["jobs"][q]["node"] != p:
                    bad.append(("consumed-wrong-node", f"{lb}.{slot} consumes {q}, expected a job of {p}"))
                if finished.get(q) != "ok":
                    bad.append(("started-before-upstream-succeeded", f"{lb} started while upstream {q} is {finished.get(q, 'not finished')}"))
            pn = spec.node(p)
            pjobs = (h["nodes"].get(p) or {}).get("jobs")
            if pn.combine or not pn.split and not _inherits_split(spec, p):
                # the whole upstream node is consumed
                if pjobs is not None and sorted(prod) != sorted(pjobs):
                    bad.append(("partial-upstream", f"{lb}.{slot} consumes {sorted(prod)} of upstream node {p} with jobs {sorted(pjobs)}"))
            elif len(prod) != 1:
                bad.append(("partial-upstream", f"{lb}.{slot} consumes {len(prod)} jobs of the un-combined node {p}"))
    for lb, n in nsub.items():
        if n != 1:
            bad.append(("executed-more-than-once", f"{lb} was executed {n} times"))
    ended = h["raised"] is None and not h["stalled"]
    fails = [lb for lb, s in _finished(h).items() if s == "fail"]
    if not ended and not fails:
        r = h["raised"]
        bad.append(("loop-did-not-complete", f"the loop did not complete although no job failed: {r['type'] + ': ' + r['msg'][:120] if r else 'stalled'}"))
    if second is not None:
        fin = _finished(h)
        for lb, had in second["stored"].items():
            if had and not second["effective"] and lb in nsub:
                bad.append(("executed-although-cached", f"{lb} was executed again although its result was stored and no rerun reaches it"))
            if ended and not fails and (second["effective"] or not had) and fin.get(lb) != "ok":
                bad.append(("never-executed", f"job {lb} ({'stored result, rerun requested' if had else 'no stored result'}) was not executed in this submission"))
    elif ended and not fails and h["nodes"]:
        for nd in spec.nodes:
            st = h["nodes"].get(nd.name)
            if st is None or not st["started"]:
                bad.append(("never-executed", f"node {nd.name} was never started"))
                continue
            for lb in st["jobs"]:
                if _finished(h).get(lb) != "ok":
                    bad.append(("never-executed", f"job {lb} was never executed"))
    return bad


STALE_WINDOW = "rerun-stale-result-of-unstarted-job-taken-as-done"


def c15_second_class(h, spec, probs):
    """class predicate of the two-submission C15 finding: with rerun requested for every job, under the asynchronous
    loop, a job consumes the value an upstream job produced in the FIRST submission because that upstream job --
    handed to the worker at an EARLIER get_runnable_tasks call of this submission -- has not started yet (its lock
    file has not been seen, its old result is still on disk) and is therefore taken as done.  Nothing else wrong."""
    o = h["opts"]
    if o["variant"] != "async" or not (o["rerun"] and o["propagate"]) or not probs:
        return None
    if any(k != "consumed-value-of-earlier-submission" for k, _ in probs):
        return None
    tag2node = {100 * (i + 1): nd.name for i, nd in enumerate(spec.nodes)}
    id2job = {j["id"]: lb for lb, j in h["jobs"].items()}
    seen_lock, last_call, submitted_at = set(), -1, {}
    found = False
    for i, e, executing, finished in timeline(h):
        if e[0] == "call":
            last_call = i
        elif e[0] == "lock":
            seen_lock.add(e[1])
        elif e[0] == "submit":
            submitted_at.setdefault(e[1], i)
            j = h["jobs"][e[1]]
            for slot in ("x", "y", "z"):
                for v in j["inputs"][slot]:
                    if v in id2job:
                        continue
                    p = tag2node.get(int(v.split("<")[0]) // 100 * 100)
                    waiting = [q for q in executing if h["jobs"][q]["node"] == p and q not in seen_lock and submitted_at[q] < last_call]
                    if not waiting:
                        return None  # a stale value although no job of the upstream node is waiting to start
                    found = True
    return STALE_WINDOW if found else None


def _inherits_split(spec, name):
    nd = spec.node(name)
    return any((spec.node(p).split and not spec.node(p).combine) or _inherits_split(spec, p) for p in nd.preds)


def _finished(h):
    return {e[1]: e[2] for e in h["events"] if e[0] == "finish"}


def reoffers_after_start(h):
    """function-level observation (not demanded by the property text): jobs returned again by
    get_runnable_tasks after their lock file was visible at an earlier observation or after they finished"""
    started, n = set(), 0
    pending_started = set()
    for e in h["events"]:
        if e[0] == "lock":
            pending_started.add(e[1])
        elif e[0] == "finish":
            pending_started.add(e[1])
        elif e[0] == "call":
            n += sum(1 for lb in e[1] if lb in started)
            started |= pending_started  # seen started by this observation
    return n


def c14_problems(h, spec: WfSpec):
    """C14 (asynchronous loop): a failing job never prevents jobs that do not depend on it from being
    executed, jobs that depend on it are never executed, the workflow then fails with an error naming
    every failed job; the decision functions never raise and the loop terminates."""
    bad = []
    fin = _finished(h)
    failed = sorted(lb for lb, s in fin.items() if s == "fail")
    failed_nodes = {h["jobs"][lb]["node"] for lb in failed}
    if h["raised"] is not None:
        r = h["raised"]
        bad.append(("decision-function-raised", f"{r['where']} raised {r['type']}: {r['msg'][:160]}"))
    if h["stalled"]:
        bad.append(("loop-stalled", "no runnable job, nothing executing, but nodes not done (the real loop gives up after 10 polls)"))
    # jobs that depend on a failed job are never executed (job-level: a consumed job failed)
    id2job = {j["id"]: lb for lb, j in h["jobs"].items()}
    for i, e, executing, finished in timeline(h):
        if e[0] == "submit":
            for slot in ("x", "y", "z"):
                for v in h["jobs"][e[1]]["inputs"][slot]:
                    q = id2job.get(v)
                    if q is not None and fin.get(q) == "fail" and finished.get(q) == "fail":
                        bad.append(("dependent-job-executed", f"{e[1]} was started although upstream {q} had failed"))
    for nd in spec.nodes:
        if spec.ancestors(nd.name) & failed_nodes:
            # node-level dependants: every reading of the property forbids (job-level dependants) or permits
            # (the rest) leaving them out; jobs consuming a failed job were checked above
            continue
        # must run: no failed job among the jobs of any ancestor node
        if h["raised"] is not None or h["stalled"]:
            st = h["nodes"].get(nd.name)
            jobs = (st or {}).get("jobs")
            if jobs is None or any(fin.get(lb) is None for lb in jobs):
                bad.append(("independent-job-not-executed", f"node {nd.name} has no failed ancestor but not all of its jobs were executed"))
            continue
        st = h["nodes"].get(nd.name)
        if st is None or not st["started"]:
            bad.append(("independent-job-not-executed", f"node {nd.name} has no failed ancestor but was never started"))
            continue
        for lb in st["jobs"]:
            if fin.get(lb) is None:
                bad.append(("independent-job-not-executed", f"job {lb} has no failed ancestor but was never executed"))
    for e in h["events"]:
        if e[0] == "probe" and e[2] != e[3]:
            bad.append(("has_errored-wrong", f"NodeExecution.has_errored of node {e[1]} is {e[2]} although {'a' if e[3] else 'no'} job of the node has failed"))
    # the error names every failed job
    msgs = {}
    if h["opts"]["loop"] == "real":
        if h["raised"] is None and not h["stalled"]:
            msgs["expand_workflow_async"] = h["error_message"]
    if "from_job" in h and (h["opts"]["loop"] == "mirror" or not failed):
        # the real flow reaches WorkflowOutputs._from_job only when expand_workflow_async did not raise
        msgs["WorkflowOutputs._from_job"] = h["from_job"]
    for where, msg in msgs.items():
        if failed and msg is None:
            bad.append(("failure-not-reported", f"{where} reports no error although {failed} failed"))
        elif not failed and msg is not None:
            bad.append(("error-without-failure", f"{where} reports an error although no job failed: {msg[:120]}"))
        elif failed:
            for lb in failed:
                if not names_job(msg, h["jobs"][lb], sum(1 for f in failed if h["jobs"][f]["node"] == h["jobs"][lb]["node"])):
                    bad.append(("failed-job-not-named", f"the error raised by {where} does not name failed job {lb}"))
    return bad, failed


def names_job(msg, job, n_failed_in_node):
    """every reading of `names`: node name with state index, the job's checksum / directory, or one
    entry per failed job of that node carrying the node name"""
    nm, idx = job["node"], job["index"]
    if job["checksum"] in msg:
        return True
    if idx is not None and (f"{nm}({idx})" in msg or f"{nm}[{idx}]" in msg):
        return True
    return msg.count(f"Job {nm!r}") + msg.count(f"Job '{nm}(") >= n_failed_in_node and (f"{nm!r}" in msg or f"'{nm}(" in msg)


def c14_class(h, problems):
    """class predicate of the C14 finding: update_status raises for a job that was moved to `running`
    (its lock file was seen at an earlier observation) and whose result is then errored"""
    r = h["raised"]
    if r is None or r["type"] != "ValueError":
        return None
    seen_running_then_failed = [e[1] for e in h["events"] if e[0] == "finish" and e[2] == "fail" and e[3]]
    if not seen_running_then_failed:
        return None
    # the failure realised since the last observation is (one of) the jobs seen running; the ValueError is Job.done's
    calls = [i for i, e in enumerate(h["events"]) if e[0] == "call"]
    recent = [e[1] for e in h["events"][(calls[-1] if calls else 0) :] if e[0] == "finish" and e[2] == "fail" and e[3]]
    names = {h["jobs"][lb]["node"] for lb in recent}
    if not any(r["msg"] == f"Job {n!r} failed" for n in names):
        return None
    if not any("update_status" in f for f in r["tb"]) or not any(f.startswith("job.py:done") for f in r["tb"]):
        return None
    allowed = {"decision-function-raised", "independent-job-not-executed"}
    if any(k not in allowed for k, _ in problems):
        return None
    return "update_status-raises@running-job-errored"


def c16_problems(h, k):
    """C16: with a limit of k, never more than k jobs of the workflow executing at the same time.
    Returns [(class, text, detail)] -- one entry per instant at which the limit is exceeded."""
    bad = []
    last_call, last_call_i = None, None
    vis = set()
    for i, e, executing, finished in timeline(h):
        if e[0] == "lock":
            vis.add(e[1])
        if e[0] == "call":
            last_call, last_call_i = e[1], i
            exec_at_call = list(executing)
            vis_at_call = set(vis)
        if e[0] == "submit" and len(executing) + 1 > k:
            new = [x[1] for x in h["events"][last_call_i : i + 1] if x[0] == "submit"]
            e_vis = [lb for lb in exec_at_call if lb in vis_at_call]
            e_q_out = [lb for lb in exec_at_call if lb not in vis_at_call and lb not in last_call]
            if len(last_call) > k:
                klass = None
            elif e_vis and not e_q_out:
                klass = "executing-jobs-in-running-not-counted"
            elif e_q_out and not e_vis:
                klass = "executing-queued-jobs-sliced-off-behind-newer-jobs"
            elif e_vis and e_q_out:
                klass = "executing-jobs-in-running-not-counted+queued-sliced-off"
            else:
                klass = None
            bad.append(
                (
                    klass,
                    f"{len(executing) + 1} jobs executing with max_concurrent={k}: get_runnable_tasks returned {last_call} while {exec_at_call} were executing (lock seen: {sorted(e_vis)})",
                    {"returned": last_call, "executing": exec_at_call, "lock_seen": sorted(e_vis), "sliced_off": e_q_out, "new": new},
                )
            )
    return bad


def second_submission_problems(h, opts):
    """second submission of a workflow (C16): the limit also bounds the jobs in flight when results of an earlier
    submission are on disk, whatever `rerun` says; and -- counting executions -- a job whose result is stored is not
    executed unless the rerun request reaches it (rerun and propagate_rerun).
    Whether a rerun request re-executes EVERY stored job is not C16's business: returned as statistics only."""
    bad, stats = [], {}
    for klass, text, detail in c16_problems(h, opts.k):
        bad.append(("in-flight-limit", text))
    stored = h.get("first") or {}
    effective = bool(opts.rerun and opts.propagate)
    executed = [e[1] for e in h["events"] if e[0] == "submit"]
    if not effective:
        for lb in executed:
            if stored.get(lb):
                bad.append(("executed-although-cached", f"{lb} was executed again although its result was stored and no rerun was requested for it (rerun={opts.rerun}, propagate_rerun={opts.propagate})"))
    fin = _finished(h)
    stats["second submissions that did not complete (not part of C16)"] = 1 if (h["raised"] is not None or h["stalled"]) else 0
    stats["second submissions in which a job without stored result was not executed (not part of C16)"] = 1 if any(not had and fin.get(lb) != "ok" for lb, had in stored.items()) else 0
    stats["second submissions with a rerun request reaching every job in which a stored job was NOT re-executed (not part of C16)"] = 1 if effective and any(had and fin.get(lb) != "ok" for lb, had in stored.items()) else 0
    return bad, stats


def max_executing(h):
    m = 0
    for i, e, executing, finished in timeline(h):
        if e[0] == "submit":
            m = max(m, len(executing) + 1)
    return m


def all_jobs_done(h, spec):
    fin = _finished(h)
    if h["raised"] is not None or h["stalled"]:
        return False
    for nd in spec.nodes:
        st = h["nodes"].get(nd.name)
        if st is None or not st["started"] or any(fin.get(lb) != "ok" for lb in st["jobs"]):
            return False
    return True


# --------------------------------------------------------------------------- parallel enumeration


def compact(h):
    return {
        "opts": h["opts"],
        "choices": h.get("choices"),
        "events": h["events"],
        "raised": h["raised"],
        "stalled": h["stalled"],
        "error_message": (h.get("error_message") or "")[:400] or None,
        "from_job": (h.get("from_job") or "")[:400] or None,
        "first": h.get("first"),
    }


def evaluate(pid, h, spec, opts):
    """-> (problems [(class, text)], nontrivial, stats)"""
    extra = {}
    if pid == "C15":
        second = None
        if opts.prior != "none":
            second = {"effective": bool(opts.rerun and opts.propagate), "stored": h.get("first") or {}}
            extra["second submissions in which at least one job is executed"] = 1 if any(e[0] == "submit" for e in h["events"]) else 0
        probs = _dedup(c15_problems(h, spec, second))
        klass = c15_second_class(h, spec, probs) if second is not None else None
        if klass is not None:
            out = [(klass, "; ".join(f"{k}: {t}" for k, t in probs[:3]))]
        else:
            out = [(None, f"{k}: {t}") for k, t in probs]
        if second is not None:
            out = [(k, f"second submission (prior={opts.prior}, rerun={opts.rerun}, propagate_rerun={opts.propagate}, {opts.variant} loop): {t}") for k, t in out]
        extra["re-offered after start (function-level observation, absorbed by the loops' de-duplication)"] = reoffers_after_start(h)
        return out, (len(h["jobs"]) >= 2 if second is None else len(second["stored"]) >= 2), extra
    if pid == "C14":
        probs, failed = c14_problems(h, spec)
        probs = _dedup(probs)
        klass = c14_class(h, probs)
        out = []
        if probs:
            text = "; ".join(f"{k}: {t}" for k, t in probs[:4])
            out.append((klass, text))
        extra["histories with >=1 failing job"] = 1 if failed else 0
        extra["histories in which a job fails after it was seen running"] = 1 if any(e[0] == "finish" and e[2] == "fail" and e[3] for e in h["events"]) else 0
        return out, bool(failed), extra
    if pid == "C16" and opts.prior != "none":
        probs, st2 = second_submission_problems(h, opts)
        probs = _dedup(probs)
        extra.update(st2)
        out, seen = [], set()
        for k, t in probs:
            if k not in seen:  # one report per kind and history; no known class applies to these histories
                seen.add(k)
                out.append((None, f"second submission (prior={opts.prior}, rerun={opts.rerun}, propagate_rerun={opts.propagate}, k={opts.k}): {k}: {t}"))
        extra["second submissions in which at least one job is executed"] = 1 if any(e[0] == "submit" for e in h["events"]) else 0
        extra["second submissions that reach the limit"] = 1 if max_executing(h) >= opts.k else 0
        return out, len(h.get("first") or {}) > opts.k, extra
    if pid == "C16":
        probs = c16_problems(h, opts.k)
        out, seen = [], set()
        for klass, text, detail in probs:
            if klass not in seen:
                seen.add(klass)
                out.append((klass, text))
        extra["histories in which not every job ran to completion (liveness, not part of C16)"] = 0 if all_jobs_done(h, spec) else 1
        extra["histories that reach the limit"] = 1 if max_executing(h) >= opts.k else 0
        return out, len(h["jobs"]) > opts.k, extra
    raise CheckerError(pid)


def _dedup(probs):
    seen, out = set(), []
    for p in probs:
        if p not in seen:
            seen.add(p)
            out.append(p)
    return out


def _partition(args):
    """fixed prefixes (choice lists) that split the choice tree of one task at `depth` choices"""
    od, depth = args
    opts = opts_from(od)
    out, todo = [], [()]
    while todo:
        p = todo.pop()
        if len(p) >= depth:
            out.append(tuple(p))
            continue
        s = Script(p)
        drive(opts, s)
        if len(s.trace) <= len(p):
            out.append(tuple(p))
            continue
        for c in range(s.trace[len(p)][1]):
            todo.append(tuple(p) + (c,))
    return od, sorted(out)


def _work(args):
    """enumerate one (opts, fixed prefix) task in a worker process; returns a compact summary"""
    pid, od, fixed, sample_n, seed, fidelity, group = args
    opts = opts_from(od)
    spec = CATALOGUE[opts.spec]
    out = {"group": group, "opts": od, "fixed": list(fixed), "keys": [], "nontrivial": [], "fails": [], "samples": [], "stats": {}, "fidelity": []}
    st = out["stats"]

    def handle(script, h):
        key = (opts.key(), tuple(script.choices()))
        probs, nontriv, extra = evaluate(pid, h, spec, opts)
        out["keys"].append(repr(key))
        out["nontrivial"].append(bool(nontriv))
        for kk, vv in extra.items():
            st[kk] = st.get(kk, 0) + vv
        if len(out["samples"]) < 1:
            out["samples"].append(compact(h))
        for klass, text in probs:
            if len(out["fails"]) < 60:
                out["fails"].append({"class": klass, "what": text, "case": compact(h)})
            else:
                st["_unlisted"] = st.get("_unlisted", 0) + 1
        if fidelity:
            # the same script with the observations realised by REAL job runs must give the same history
            o2 = attrs.evolve(opts, realise="run")
            h2 = drive(o2, Script(script.choices()))
            a = (h["events"], (h["raised"] or {}).get("type"), h["stalled"])
            b = (h2["events"], (h2["raised"] or {}).get("type"), h2["stalled"])
            if a != b:
                out["fidelity"].append({"choices": script.choices(), "synth": compact(h), "run": compact(h2)})

    if sample_n:
        rng = random.Random(f"{seed}|{opts.key()}")
        seen = set()
        for _ in range(sample_n):
            s = RandomScript(rng)
            h = drive(opts, s)
            c = tuple(s.choices())
            if c in seen:
                continue
            seen.add(c)
            handle(s, h)
    else:
        for s, h in enumerate_histories(lambda sc: drive(opts, sc), fixed=fixed):
            handle(s, h)
    return out


def nprocs():
    """<= 10 worker processes; fewer on a machine that is already oversubscribed (every spawned worker first pays
    a few CPU-seconds to import pydra, which is wasted when there is no idle core to run it on).  The result of a
    check does not depend on the number of workers."""
    cpus = os.cpu_count() or 4
    try:
        busy = int(os.getloadavg()[0])
    except OSError:
        busy = 0
    return max(3, min(10, cpus - 2, cpus - busy))


def run_domains(ctx, pid, groups):
    """groups: [(domain, tasks, fidelity)], tasks: [(opts, sample_n, split_depth)] -- sample_n = 0: exhaustive
    enumeration of the choice tree.  One process pool for the whole check (spawned, not forked: forked children
    of the pydra-laden parent are several times slower for their first seconds).  Feeds the domains, reports
    failures through ctx.fail, returns one summed stats dict per group."""
    import multiprocessing as mp

    os.environ["VF_SCHED_ROOT"] = str(temp_root())  # children put their scratch directories below it
    stats = [dict() for _ in groups]
    ntasks = sum(len(t) for _, t, _ in groups)
    real_classes, mirror_fails = set(), []
    with mp.get_context("spawn").Pool(min(nprocs(), max(1, ntasks))) as pool:
        # tasks with a split depth are first cut into sub-trees (by a worker), every sub-tree is one work item
        splitting, working = [], []
        for gi, (dom, tasks, fidelity) in enumerate(groups):
            for o, n, d in tasks:
                if d and not n:
                    splitting.append((gi, fidelity, n, pool.apply_async(_partition, ((o.asdict(), d),))))
                else:
                    working.append(pool.apply_async(_work, ((pid, o.asdict(), (), n, ctx.seed, fidelity, gi),)))

        def results():
            while splitting or working:
                progressed = False
                for item in list(splitting):
                    gi, fidelity, n, ar = item
                    if ar.ready():
                        splitting.remove(item)
                        od, prefixes = ar.get()
                        for fixed in prefixes:
                            working.append(pool.apply_async(_work, ((pid, od, tuple(fixed), n, ctx.seed, fidelity, gi),)))
                        progressed = True
                for ar in list(working):
                    if ar.ready():
                        working.remove(ar)
                        progressed = True
                        yield ar.get()
                if not progressed:
                    time.sleep(0.05)

        for out in results():
            dom = groups[out["group"]][0]
            st = stats[out["group"]]
            for key, nt in zip(out["keys"], out["nontrivial"]):
                dom.case(key, nontrivial=nt)
            per = st.setdefault("histories per workflow", {})
            per[out["opts"]["spec"]] = per.get(out["opts"]["spec"], 0) + len(out["keys"])
            for smp in out["samples"]:
                if len(dom.samples) < 3:
                    dom.samples.append(json_safe(smp))
            for kk, vv in out["stats"].items():
                st[kk] = st.get(kk, 0) + vv
            for f in out["fails"]:
                if out["opts"]["loop"] == "real":
                    real_classes.add(f["class"])
                    ctx.fail(f["class"], f["what"], f["case"], domain=dom)
                else:
                    mirror_fails.append((dom, f))
            if os.environ.get("VF_SCHED_VERBOSE"):
                print(f"  [{time.time() - ctx.t0:6.1f}s] {len(out['keys']):6d} histories {out['opts']['spec']} loop={out['opts']['loop']} vis={out['opts']['vis']} k={out['opts']['k']} fail={out['opts']['fail']} multi={out['opts']['multi']} fixed={out['fixed']}", flush=True)
            if out["stats"].get("_unlisted"):
                ctx.note(f"{out['stats']['_unlisted']} further failing histories of {out['opts']} not listed individually")
                dom.failed += out["stats"]["_unlisted"]
            if out["fidelity"]:
                raise CheckerError(f"harness fidelity: synthesised results and real job runs give different histories: {out['fidelity'][0]}")
    # The real loops are the authority for the property; the mirror (the harness' own re-statement of the loop over
    # the decision functions, same script space) is a function-level view.  A mirror failure is a property failure
    # only if the real loop shows the same class of failure; otherwise the loop compensates for what the decision
    # function returns (e.g. a limit enforced at hand-out) and the observation is recorded as a note.
    demoted = {}
    for dom, f in mirror_fails:
        if f["class"] in real_classes:
            ctx.fail(f["class"], f["what"], f["case"], domain=dom)
        else:
            d = demoted.setdefault(f["class"], {"n": 0, "first": f})
            d["n"] += 1
    for klass, d in demoted.items():
        ctx.note(
            f"function-level only ({d['n']} histories, class {klass}): the harness' mirror of the loop fails but the real loop does not on the same "
            f"script space -- not a violation of {pid}. First: {d['first']['what'][:300]} | opts={d['first']['case']['opts']} choices={d['first']['case']['choices']}"
        )
    for st in stats:
        st.pop("_unlisted", None)
    return stats


def replay_history(pid, case):
    """re-run one recorded history natively; -> (history, problems)"""
    opts = opts_from(case["opts"])
    s = Script(case["choices"])
    h = drive(opts, s)
    probs, _, _ = evaluate(pid, h, CATALOGUE[opts.spec], opts)
    return h, probs


def std_replay(pid, rec):
    case = rec["case"]
    if "opts" not in case or case.get("choices") is None:
        print(f"replay {pid}: no scripted history recorded in this file")
        return 0
    try:
        h, probs = replay_history(pid, case)
    finally:
        cleanup()
    print(f"replay {pid}: opts={case['opts']} choices={case['choices']}")
    for e in h["events"]:
        print("   ", e)
    if h["raised"]:
        print("    raised:", h["raised"])
    for klass, text in probs:
        print(f"    problem[{klass}]: {text}")
    if probs:
        print(f"VIOLATION property={pid} replay={rec.get('_path', '(replayed)')}")
        return 1
    return 0


# --------------------------------------------------------------------------- end-to-end replay aid (real workers)


def _e2e_child(cfg):
    """runs in a subprocess: one real submission; prints a json line with what the task bodies did"""
    import json

    from pydra.engine.submitter import Submitter
    from pydra.engine.workflow import Workflow

    import signal

    root = Path(tempfile.mkdtemp(prefix="vf_sched_e2e_"))

    def self_destruct(*a):  # the parent died or the run hangs: remove the directory, kill the whole group
        shutil.rmtree(root, ignore_errors=True)
        os.killpg(os.getpgid(0), signal.SIGKILL)

    signal.signal(signal.SIGALRM, self_destruct)
    signal.alarm(int(cfg.get("self_destruct", 170)))
    spec = S(cfg["name"], *cfg["nodes"])
    log = root / "body.log"
    ff = root / "fail.txt"
    os.environ["VF_SCHED_BODYLOG"] = str(log)
    os.environ[FAILFILE_ENV] = str(ff)
    ff.write_text("\n".join(cfg.get("fail_ids", [])) + "\n")
    out = {"error": None}
    try:
        W = build(spec)
        Workflow.clear_cache()
        kw = dict(cfg.get("submitter", {}))
        with Submitter(cache_root=root / "cache", **kw) as sub:
            try:
                res = sub(W(a=1), raise_errors=False)
                out["errored"] = bool(res.errored)
                if res.errored and res.errors:
                    out["error"] = "".join(res.errors.get("error message", []))[-1500:]
            except Exception as e:  # noqa
                out["error"] = f"{type(e).__name__}: {e}"[-1500:]
        time.sleep(cfg.get("linger", 0.0))
        ev = []
        if log.exists():
            for line in log.read_text().splitlines():
                kind, jid, t = line.rsplit(" ", 2)
                ev.append((float(t), kind, jid))
        ev.sort()
        names = {100 * (i + 1): nd.name for i, nd in enumerate(spec.nodes)}

        def nm(jid):
            tag = int(jid.split("<")[0])
            base = tag - tag % 100
            return names[base] + (f"[{tag % 100}]" if spec.node(names[base]).split else "")

        cur, mx = 0, 0
        for t, kind, jid in ev:
            cur += 1 if kind == "start" else -1
            mx = max(mx, cur)
        out["started"] = [nm(j) for t, k, j in ev if k == "start"]
        out["failed"] = [nm(j) for t, k, j in ev if k == "fail"]
        out["max_simultaneous_bodies"] = mx
        if cfg.get("raw") and ev:
            out["raw"] = [(round(t - ev[0][0], 2), k, nm(j)) for t, k, j in ev]
    finally:
        shutil.rmtree(root, ignore_errors=True)
    print("E2E-RESULT " + json.dumps(out), flush=True)


def e2e(cfg, timeout=150):
    """one real submission in a child process group of its own (killed as a whole on timeout)"""
    import json
    import signal
    import subprocess
    import sys

    cfg = dict(cfg, self_destruct=timeout + 20)
    p = subprocess.Popen(
        [sys.executable, "-c", "import sys, json; from props import _schedharness as H; H._e2e_child(json.loads(sys.argv[1]))", json.dumps(cfg)],
        stdout=subprocess.PIPE,
        stderr=subprocess.PIPE,
        text=True,
        env=dict(os.environ),
        cwd=str(Path(__file__).resolve().parent.parent),
        start_new_session=True,
    )
    try:
        out, err = p.communicate(timeout=timeout)
    except subprocess.TimeoutExpired:
        try:
            os.killpg(p.pid, signal.SIGKILL)
        except OSError:
            pass
        p.communicate()
        return {"timeout": True}
    finally:
        try:
            os.killpg(p.pid, signal.SIGKILL)  # pool processes a crashed run may have left behind
        except OSError:
            pass
    for line in out.splitlines():
        if line.startswith("E2E-RESULT "):
            return json.loads(line[len("E2E-RESULT ") :])
    return {"crash": (err or "")[-400:]}


def e2e_c14():
    """the C14 function-level finding in real runs: node a fails after it was seen running while the independent
    chain b -> c -> d is half way; the property demands that d still runs"""
    import concurrent.futures as cf

    nodes = ["a@8.0", "b", "c<b@14.0", "d<c"]
    lines = []
    runs = [
        ("cf worker n_procs=2, a fails after 8 s while c (independent, 14 s) is running", {"worker": "cf", "n_procs": 2}, ["100<>"]),
        ("cf worker n_procs=2, nothing fails", {"worker": "cf", "n_procs": 2}, []),
        ("debug worker, a fails (sequential loop: the first failure ends the run by design)", {"worker": "debug"}, ["100<>"]),
    ]
    with cf.ThreadPoolExecutor(len(runs)) as ex:
        res = list(ex.map(lambda r: e2e({"name": "e2e14", "nodes": nodes, "submitter": r[1], "fail_ids": r[2]}), runs))
    for (title, sub, fail), r in zip(runs, res):
        if "started" not in r:
            lines.append(f"{title}: no result ({r})")
            continue
        err = (r.get("error") or "").replace("\n", " ")
        lines.append(f"{title}: bodies started {r['started']}, failed {r['failed']}, d executed: {'d' in r['started']}, error mentions Job 'a': {(chr(39) + 'a' + chr(39)) in err}, error tail: {err[-160:]!r}")
    return lines


def e2e_c16():
    import concurrent.futures as cf

    nodes = ["a@6.0", "b@16.0", "c@8.0", "d@8.0"]
    lines = []
    runs = [
        ("cf worker n_procs=4 max_concurrent=2, four independent jobs a(6s) b(16s) c(8s) d(8s)", {"worker": "cf", "n_procs": 4, "max_concurrent": 2}),
        ("debug worker max_concurrent=2, same workflow", {"worker": "debug", "max_concurrent": 2}),
    ]
    with cf.ThreadPoolExecutor(len(runs)) as ex:
        res = list(ex.map(lambda r: e2e({"name": "e2e16", "nodes": nodes, "submitter": r[1]}), runs))
    for (title, sub), r in zip(runs, res):
        if "started" not in r:
            lines.append(f"{title}: no result ({r})")
            continue
        lines.append(f"{title}: bodies started {r['started']}, maximum number of task bodies executing simultaneously = {r['max_simultaneous_bodies']}")
    return lines
