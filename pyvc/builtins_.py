"""Built-in axioms: models of Python builtins and of methods on modelled values.
This is the trusted base of engine D for language-level operations."""

from __future__ import annotations

import ast

import z3

from pyvc.engine import (
    U,
    NONE_U,
    BoundV,
    ClassV,
    ExcV,
    FuncV,
    GlobalV,
    LazyComp,
    HDict,
    HList,
    OptV,
    Ref,
    SeqV,
    Unsupported,
    eq,
    is_z3,
    ite,
    lift,
    to_U,
    z3_and,
    z3_not,
    z3_or,
    implies,
    exc_isinstance,
)


def dispatch(E, st, node, fname, fv, args, kwargs):
    if isinstance(fv, BoundV):
        return method(E, st, node, fv, args, kwargs)
    if isinstance(fv, GlobalV):
        f = GLOBALS.get(fv.dotted)
        if f is not None:
            return f(E, st, node, args, kwargs)
    return None


# ------------------------------------------------------------------ global builtins


def b_len(E, st, node, args, kw):
    (x,) = args
    if isinstance(x, tuple):
        return [(st, len(x), None)]
    if isinstance(x, str):
        return [(st, len(x), None)]
    if is_z3(x) and x.sort() == z3.StringSort():
        return [(st, z3.Length(x), None)]
    if isinstance(x, Ref):
        h = st.heap[x.n]
        if isinstance(h, HList):
            return [(st, h.seq.length, None)]
        if isinstance(h, HDict) and h.sym is None:
            return [(st, len(h.items), None)]
    if is_z3(x) and x.sort() == U:
        f = z3.Function("len_U", U, z3.IntSort())
        st.pc.append(f(x) >= 0)
        return [(st, f(x), None)]
    if isinstance(x, LazyComp):
        return [(st, lazy_len(E, st, x), None)]
    raise Unsupported(f"len of {type(x).__name__}")


def lazy_len(E, st, x):
    """length of a (possibly filtered) comprehension over a symbolic sequence: an unknown
    integer between 0 and the length of the source (exactly the source length if unfiltered)"""
    if getattr(x, "_len", None) is None:
        if not x.g.ifs:
            x._len = x.seq.length
        else:
            n = E.fresh("complen", z3.IntSort())
            st.pc.append(z3.And(n >= 0, n <= lift(x.seq.length)))
            # non-empty iff some element passes the filter
            j = E.fresh("j", z3.IntSort())
            try:
                cond, _ = E.comp_elem(st, x, j)
                st.pc.append((n > 0) == z3.Exists([j], z3.And(j >= 0, j < lift(x.seq.length), lift(cond))))
            except Unsupported:
                pass
            x._len = n
    return x._len


def b_str(E, st, node, args, kw):
    (x,) = args
    return [(st, E.to_str(st, x), None)]


def b_repr(E, st, node, args, kw):
    (x,) = args
    return [(st, E.to_str(st, x, repr_=True), None)]


def b_isinstance(E, st, node, args, kw):
    x, cls = args
    names = [c.name if isinstance(c, ClassV) else c.dotted for c in (cls if isinstance(cls, tuple) else (cls,))]
    if isinstance(x, ExcV):
        vs = [exc_isinstance(x.cls, n) for n in names]
        if any(v is True for v in vs):
            return [(st, True, None)]
        if all(v is False for v in vs):
            return [(st, False, None)]
    if isinstance(x, (str,)) or (is_z3(x) and x.sort() == z3.StringSort()):
        return [(st, "str" in names, None)]
    if isinstance(x, bool) or (is_z3(x) and x.sort() == z3.BoolSort()):
        return [(st, "bool" in names or "int" in names, None)]
    if isinstance(x, int) or (is_z3(x) and x.sort() == z3.IntSort()):
        return [(st, "int" in names, None)]
    if isinstance(x, Ref):
        h = st.heap[x.n]
        return [(st, ("list" if isinstance(h, HList) else "dict") in names, None)]
    if isinstance(x, tuple):
        return [(st, "tuple" in names, None)]
    if x is None:
        return [(st, False, None)]
    f = z3.Function("isinstance:" + "|".join(sorted(names)), U, z3.BoolSort())
    return [(st, f(to_U(x)), None)]


def b_next(E, st, node, args, kw):
    """next(<generator expression over a symbolic sequence>) = first match"""
    g = args[0]
    if not isinstance(g, LazyComp):
        if isinstance(g, Ref) and isinstance(st.heap[g.n], HList) and st.heap[g.n].seq.items is not None:
            it = st.heap[g.n].seq.items
            if it:
                return [(st, it[0], None)]
            return [(st, args[1], None)] if len(args) > 1 else [(st, None, ExcV("StopIteration"))]
        if is_z3(g) and g.sort() == U:
            # opaque iterator: an effect that yields an arbitrary item or is exhausted
            outs = E.effect(st, "next", (g,), {}, "next", may_raise=True, raises="StopIteration")
            if len(args) > 1:
                outs = [(s_, (args[1] if e_ is not None else v_), None) for s_, v_, e_ in outs]
            return outs
        raise Unsupported("next() of a non-comprehension iterator")
    seq = g.seq
    i = E.fresh("first", z3.IntSort())
    j = E.fresh("j", z3.IntSort())
    cond_i, val_i = E.comp_elem(st, g, i)
    cond_j, _ = E.comp_elem(st, g, j)
    out = []
    found = z3.And(i >= 0, i < seq.length, lift(cond_i), z3.ForAll([j], z3.Implies(z3.And(j >= 0, j < i), z3.Not(lift(cond_j)))))
    s1 = st.copy()
    s1.pc.append(found)
    s1.decisions.append(f"next@{E._rel(node)}:found")
    s1.ghost["first_index"] = i
    if E.feasible(s1):
        out.append((s1, val_i, None))
    s2 = st.copy()
    s2.pc.append(z3.ForAll([j], z3.Implies(z3.And(j >= 0, j < seq.length), z3.Not(lift(cond_j)))))
    s2.decisions.append(f"next@{E._rel(node)}:exhausted")
    if E.feasible(s2):
        if len(args) > 1:
            out.append((s2, args[1], None))
        else:
            out.append((s2, None, ExcV("StopIteration")))
    return out


def _quant(E, st, node, args, is_any):
    g = args[0]
    if isinstance(g, Ref):
        seq = E.as_seq(st, g)
        if seq.items is not None:
            ts = [E.truthy(st, x) for x in seq.items]
            return [(st, z3_or(*ts) if is_any else z3_and(*ts), None)]
        j = E.fresh("j", z3.IntSort())
        body = lift(E.truthy(st, seq.get(j)))
        rng = z3.And(j >= 0, j < seq.length)
        return [(st, z3.Exists([j], z3.And(rng, body)) if is_any else z3.ForAll([j], z3.Implies(rng, body)), None)]
    if not isinstance(g, LazyComp):
        raise Unsupported("any/all of non-comprehension")
    seq = g.seq
    j = E.fresh("j", z3.IntSort())
    cond, val = E.comp_elem(st, g, j)
    rng = z3.And(j >= 0, j < seq.length, lift(cond))
    body = lift(E.truthy(st, val))
    if is_any:
        return [(st, z3.Exists([j], z3.And(rng, body)), None)]
    return [(st, z3.ForAll([j], z3.Implies(rng, body)), None)]


def b_any(E, st, node, args, kw):
    return _quant(E, st, node, args, True)


def b_all(E, st, node, args, kw):
    return _quant(E, st, node, args, False)


def b_list(E, st, node, args, kw):
    if not args:
        return [(st, E.new_list(st, SeqV.concrete([])), None)]
    x = args[0]
    if isinstance(x, LazyComp):
        g, seq = x.g, x.seq
        if g.ifs:
            raise Unsupported("list() of a filtered comprehension over a symbolic sequence")
        return [(st, E.new_list(st, SeqV(seq.length, lambda i: E.comp_elem(st, x, i)[1])), None)]
    return [(st, E.new_list(st, E.as_seq(st, x)), None)]


def b_tuple(E, st, node, args, kw):
    if not args:
        return [(st, (), None)]
    if isinstance(args[0], LazyComp):
        return [(st, E.fresh("tuple", U), None)]  # opaque: nothing is assumed about it
    seq = E.as_seq(st, args[0])
    if seq.items is None:
        f = z3.Function("tuple_of", U, U)  # opaque: only its identity as a function of the argument is kept
        try:
            return [(st, f(to_U(args[0])), None)]
        except Unsupported:
            return [(st, E.fresh("tuple", U), None)]
    return [(st, tuple(seq.items), None)]


def b_range(E, st, node, args, kw):
    if all(isinstance(a, int) for a in args):
        return [(st, E.new_list(st, SeqV.concrete(list(range(*args)))), None)]
    if len(args) == 1:
        return [(st, E.new_list(st, SeqV(lift(args[0]), lambda i: lift(i))), None)]
    if len(args) == 2:
        lo, hi = lift(args[0]), lift(args[1])
        n = z3.If(hi - lo >= 0, hi - lo, 0)
        return [(st, E.new_list(st, SeqV(n, lambda i: lo + lift(i))), None)]
    raise Unsupported("range with step")


def b_enumerate(E, st, node, args, kw):
    seq = E.as_seq(st, args[0])
    if seq.items is not None:
        return [(st, E.new_list(st, SeqV.concrete([(i, x) for i, x in enumerate(seq.items)])), None)]
    return [(st, E.new_list(st, SeqV(seq.length, lambda i: (lift(i), seq.get(i)))), None)]


def b_zip(E, st, node, args, kw):
    seqs = [E.as_seq(st, a) for a in args]
    if all(s.items is not None for s in seqs):
        return [(st, E.new_list(st, SeqV.concrete(list(zip(*[s.items for s in seqs])))), None)]
    raise Unsupported("zip of symbolic sequences")


def b_Path(E, st, node, args, kw):
    from pyvc.engine import Path_U

    E.used_trusted.add("pathlib.Path(x) is a pure, injective function of the (normalised) string x")
    return [(st, Path_U(to_U(args[0])), None)]


def b_copy(E, st, node, args, kw):
    x = args[0]
    if isinstance(x, Ref):
        h = st.heap[x.n]
        if isinstance(h, HList):
            return [(st, E.new_list(st, h.seq), None)]
        if isinstance(h, HDict):
            n = E.new_dict(st, dict(h.items), h.sym)
            return [(st, n, None)]
    return [(st, x, None)]


def b_bool(E, st, node, args, kw):
    return [(st, E.truthy(st, args[0]), None)]


def b_getattr(E, st, node, args, kw):
    o, name = args[0], args[1]
    if not isinstance(name, str):
        # symbolic attribute name: an uninterpreted pure read
        f = z3.Function("getattr_U", U, U, U)
        return [(st, f(to_U(o), to_U(name)), None)]
    if len(args) == 3:
        # getattr(o, name, default): attribute presence is an uninterpreted predicate
        has = z3.Function(f"hasattr.{name}", U, z3.BoolSort())(to_U(o))
        r = E.getattr_(st, o, name, ast.parse(f"_.{name}", mode="eval").body)
        return [(st, ite(has, r[0][1], args[2]), None)]
    return E.getattr_(st, o, name, ast.parse(f"_.{name}", mode="eval").body)


def b_dict(E, st, node, args, kw):
    items = {}
    if args:
        seq = E.as_seq(st, args[0])
        if seq.items is None:
            raise Unsupported("dict() of a symbolic sequence")
        for kv in seq.items:
            k, v = kv
            if is_z3(k):
                raise Unsupported("dict() with symbolic keys")
            items[k] = v
    items.update(kw)
    return [(st, E.new_dict(st, items), None)]


def b_hasattr(E, st, node, args, kw):
    o, name = args
    if not isinstance(name, str):
        raise Unsupported("hasattr with symbolic name")
    try:
        return [(st, z3.Function(f"hasattr.{name}", U, z3.BoolSort())(to_U(o)), None)]
    except Unsupported:
        return [(st, E.fresh(f"hasattr.{name}", z3.BoolSort()), None)]


def b_insort(E, st, node, args, kw):
    """bisect.insort(lst, x) — TRUSTED contract (bisect_right):
    requires sorted(lst); inserts x at the unique p with lst[:p] <= x < lst[p:]"""
    lst, x = args
    if not isinstance(lst, Ref) or not isinstance(st.heap[lst.n], HList):
        raise Unsupported("insort target")
    E.used_trusted.add("bisect.insort(lst, x): requires lst sorted; inserts x at p with all(e <= x for e in lst[:p]) and all(x < e for e in lst[p:])")
    seq = st.heap[lst.n].seq
    j = E.fresh("j", z3.IntSort())
    lt = ast.Lt()
    le = ast.LtE()
    real_st = st
    # comparisons below are built inside quantifiers: no per-comparison safety obligations
    # there; instead one explicit obligation that every first component involved is not None
    st = st.copy()
    st.env = dict(st.env)
    st.env["__spec__"] = True

    def first_not_none(v):
        if isinstance(v, tuple) and v and isinstance(v[0], OptV):
            return z3_not(v[0].isnone)
        return True

    comparable = z3_and(first_not_none(x), z3.ForAll([j], z3.Implies(z3.And(j >= 0, j < seq.length), lift(first_not_none(seq.get(j))))) if first_not_none(seq.get(j)) is not True else True)
    E.oblige(real_st, "callee-pre.bisect.insort.comparable", comparable, "safety")
    # caller obligation: list is sorted
    a, b = E.fresh("a", z3.IntSort()), E.fresh("b", z3.IntSort())
    sorted_goal = z3.ForAll([a, b], z3.Implies(z3.And(a >= 0, a < b, b < seq.length), lift(E.compare(st, le, seq.get(a), seq.get(b)))))
    E.oblige(real_st, "callee-pre.bisect.insort.sorted", sorted_goal, "auxiliary")
    p = E.fresh("p", z3.IntSort())
    c1 = z3.ForAll([j], z3.Implies(z3.And(j >= 0, j < p), lift(E.compare(st, le, seq.get(j), x))))
    c2 = z3.ForAll([j], z3.Implies(z3.And(j >= p, j < seq.length), lift(E.compare(st, lt, x, seq.get(j)))))
    st = real_st
    st.pc.append(z3.And(p >= 0, p <= seq.length))
    st.pc.append(c1)
    st.pc.append(c2)
    st.heap[lst.n] = HList(seq.insert_at(p, x))
    st.ghost["insort_p"] = p
    return [(st, None, None)]


def _quantifier(E, st, node, args, is_forall):
    f, lo, hi = args
    j = E.fresh("q", z3.IntSort())
    s = st.copy()
    s.env = dict(s.env)
    s.env["__spec__"] = True
    outs = E.call_local(s, f, [j], {})
    if len(outs) != 1 or outs[0][2] is not None:
        raise Unsupported("quantifier body forked or raised")
    body = lift(E.truthy(s, outs[0][1]))
    rng = z3.And(j >= lift(lo), j < lift(hi))
    return [(st, z3.ForAll([j], z3.Implies(rng, body)) if is_forall else z3.Exists([j], z3.And(rng, body)), None)]


def b_forall(E, st, node, args, kw):
    return _quantifier(E, st, node, args, True)


def b_exists(E, st, node, args, kw):
    return _quantifier(E, st, node, args, False)


def b_implies(E, st, node, args, kw):
    a, b = args
    return [(st, implies(E.truthy(st, a), E.truthy(st, b)), None)]


def b_path_join(E, st, node, args, kw):
    f = z3.Function("path_join", U, U, U)
    return [(st, f(to_U(args[0]), to_U(args[1])), None)]


def b_type(E, st, node, args, kw):
    f = z3.Function("type_of", U, U)
    return [(st, f(to_U(args[0])), None)]


def b_len_U(E, st, node, args, kw):
    f = z3.Function("len_U", U, z3.IntSort())
    return [(st, f(to_U(args[0])), None)]


def b_item(E, st, node, args, kw):
    """item(xs, i): i-th element of an opaque iterable (spec language)"""
    f = z3.Function("item_U", U, z3.IntSort(), U)
    return [(st, f(to_U(args[0]), lift(args[1])), None)]


def b_unpath(E, st, node, args, kw):
    f = z3.Function("unPath", U, U)
    return [(st, f(to_U(args[0])), None)]


GLOBALS = {
    "forall": b_forall,
    "exists": b_exists,
    "implies": b_implies,
    "unpath": b_unpath,
    "item": b_item,
    "type": b_type,
    "len_U": b_len_U,
    "path_join": b_path_join,
    "len": b_len,
    "str": b_str,
    "repr": b_repr,
    "isinstance": b_isinstance,
    "next": b_next,
    "any": b_any,
    "all": b_all,
    "list": b_list,
    "tuple": b_tuple,
    "range": b_range,
    "enumerate": b_enumerate,
    "zip": b_zip,
    "Path": b_Path,
    "copy": b_copy,
    "bool": b_bool,
    "getattr": b_getattr,
    "dict": b_dict,
    "hasattr": b_hasattr,
    "bisect.insort": b_insort,
    "insort": b_insort,
}


# ------------------------------------------------------------------ methods


def method(E, st, node, bv, args, kwargs):
    o, name = bv.recv, bv.name
    if isinstance(o, Ref):
        h = st.heap[o.n]
        if isinstance(h, HList):
            return list_method(E, st, node, o, h, name, args)
        if isinstance(h, HDict):
            return dict_method(E, st, node, o, h, name, args)
    if isinstance(o, str) or (is_z3(o) and o.sort() == z3.StringSort()):
        return str_method(E, st, node, lift(o), name, args)
    return None


def list_method(E, st, node, ref, h, name, args):
    seq = h.seq
    if name == "append":
        st.heap[ref.n] = HList(seq.append(args[0]))
        return [(st, None, None)]
    if name == "copy":
        return [(st, E.new_list(st, seq), None)]
    if name == "extend":
        st.heap[ref.n] = HList(seq.concat(E.as_seq(st, args[0])))
        return [(st, None, None)]
    if name == "insert":
        p = args[0]
        if seq.items is not None and isinstance(p, int):
            it = list(seq.items)
            it.insert(p, args[1])
            st.heap[ref.n] = HList(SeqV.concrete(it))
        else:
            st.heap[ref.n] = HList(seq.insert_at(lift(p), args[1]))
        return [(st, None, None)]
    if name == "remove" and seq.items is not None:
        # first element equal to x; ValueError if absent
        x = args[0]
        out = []
        rest = st
        for idx, y in enumerate(seq.items):
            c = eq(y, x)
            sides = E.fork(rest, c, f"remove@{E._rel(node)}.{idx}")
            nxt = None
            for s2, side in sides:
                if side:
                    it = list(seq.items)
                    del it[idx]
                    s2.heap[ref.n] = HList(SeqV.concrete(it))
                    out.append((s2, None, None))
                else:
                    nxt = s2
            if nxt is None:
                return out
            rest = nxt
        out.append((rest, None, ExcV("ValueError")))
        return out
    return None


def dict_method(E, st, node, ref, h, name, args):
    if h.sym is None:
        if name == "items":
            return [(st, E.new_list(st, SeqV.concrete([(k, v) for k, v in h.items.items()])), None)]
        if name == "keys":
            return [(st, E.new_list(st, SeqV.concrete(list(h.items.keys()))), None)]
        if name == "values":
            return [(st, E.new_list(st, SeqV.concrete(list(h.items.values()))), None)]
        if name == "get" and not is_z3(args[0]):
            return [(st, h.items.get(args[0], args[1] if len(args) > 1 else None), None)]
    return None


def str_method(E, st, node, s, name, args):
    if name == "startswith":
        return [(st, z3.PrefixOf(lift(args[0]), s), None)]
    if name == "endswith":
        return [(st, z3.SuffixOf(lift(args[0]), s), None)]
    if name == "encode":
        return [(st, s, None)]
    if name == "lower":
        f = z3.Function("str.lower", z3.StringSort(), z3.StringSort())
        return [(st, f(s), None)]
    return None
